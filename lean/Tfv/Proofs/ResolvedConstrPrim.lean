import Tfv.Proofs.ResolvedConstrStore
/-!
# The attachment invariant under the primitive store updates of the engine
-/
namespace Tfv.C03R
open Tfv Tfv.C03P Tfv.C03C Tfv.C16P Tfv.C17E

/-! ## 1. the three `bind` stores -/

/-- the bounds of `v` hold of what `ρ` assigns to `v` -/
def boundsOf (L : Lang) (σ : Store) (v : Nat) (ρ : Val) : Prop :=
  (∀ x, (getVar σ v).lower = some x → Sub L (.app x []) (ρ v)) ∧
  (∀ x, (getVar σ v).upper = some x → Sub L (ρ v) (.app x []))

theorem inv_bindVarStore {L : Lang} {σ : Store} {v tv : Nat} {P : Pend} (okc : OkStoreC L σ) (hc : Chains σ)
    (hv : v < σ.vars.length) (htv : tv < σ.vars.length) (hne : tv ≠ v)
    (hnb : (getVar σ v).bound = none) (hf : (getVar σ tv).bound = none) (inv : Inv L σ P) :
    Inv L (bindVarStore σ v tv) ((P.addP (fun c => c ∈ cs (bindVarStore σ v tv) v)).addG (boundsOf L σ v)) ∧
      StepR L σ (bindVarStore σ v tv) := by
  have U := upd_bindVarStore hv tv
  have fin : Final (bindVarStore σ v tv) (.var tv) :=
    final_upd U (t := .var tv) hf (fun e => hne (by injection e))
  have N : NewBind σ (bindVarStore σ v tv) v (.var tv) := newBind_of_upd U hnb fin
  have B1 := cs_bindVarStore_grow hv htv hne inv.idx
  have B2 : ∀ u d, d < 64 → Reach (bindVarStore σ v tv) (.var tv) u d → ∀ c, c ∈ cs σ v →
      c ∈ cs (bindVarStore σ v tv) u := by
    intro u d _ hr c hm
    have hu : u = tv := by
      cases hr with
      | here e => rw [followT_of_final fin] at e; injection e with e; exact e.symm
      | app e _ _ => rw [followT_of_final fin] at e; cases e
    subst hu
    rw [cs_bindVarStore_tv hv htv hne inv.idx]
    exact unionSorted_mem_right _ _ hm
  have _ := okc
  have hsat : ∀ ρ, Sat L ρ (bindVarStore σ v tv) → boundsOf L σ v ρ → Sat L ρ σ := fun ρ hρ hb =>
    U.sat_back hρ (fun t' e => by rw [hnb] at e; cases e) (fun x _ hx => hb.1 x hx) (fun x _ hx => hb.2 x hx)
  exact ⟨Inv.newBind hc N rfl B1 B2 (idx_bindVarStore hv htv hne inv.idx) _ hsat inv,
    StepR.of_newBind hc N rfl B1 B2⟩

theorem inv_bindBaseStore {L : Lang} {σ : Store} {v o : Nat} {P : Pend} (okc : OkStoreC L σ) (hc : Chains σ)
    (hv : v < σ.vars.length) (hnb : (getVar σ v).bound = none)
    (hsat : ∀ ρ, Sat L ρ (bindBaseStore σ v (.app o [])) → Sat L ρ σ) (inv : Inv L σ P) :
    Inv L (bindBaseStore σ v (.app o [])) (P.addP (fun c => c ∈ cs (bindBaseStore σ v (.app o [])) v)) ∧
      StepR L σ (bindBaseStore σ v (.app o [])) := by
  have U := upd_bindBaseStore hv (.app o [])
  have N : NewBind σ (bindBaseStore σ v (.app o [])) v (.app o []) := newBind_of_upd U hnb trivial
  have B1 : ∀ u c, c ∈ cs σ u → c ∈ cs (bindBaseStore σ v (.app o [])) u := fun u c h => by
    rw [cs_bindBaseStore hv]; exact h
  have B2 : ∀ u d, d < 64 → Reach (bindBaseStore σ v (.app o [])) (.app o []) u d → ∀ c, c ∈ cs σ v →
      c ∈ cs (bindBaseStore σ v (.app o [])) u := by
    intro u d _ hr c _
    cases hr with
    | here e => rw [followT_app] at e; cases e
    | app e hm _ => rw [followT_app] at e; injection e with _ e2; rw [← e2] at hm; cases hm
  have _ := okc
  exact ⟨(Inv.newBind hc N rfl B1 B2 (idx_bindBaseStore hv _ inv.idx) (fun _ => True) (fun ρ hρ _ => hsat ρ hρ)
    inv).dropG (fun _ _ _ => trivial), StepR.of_newBind hc N rfl B1 B2⟩

theorem foldl_all_lt {σ : Store} {α : Type} (f : List Nat → α → List Nat) (l : List α)
    (hf : ∀ acc x, x ∈ l → (∀ y, y ∈ acc → y < σ.vars.length) → ∀ y, y ∈ f acc x → y < σ.vars.length) :
    ∀ (xs : List α), (∀ x, x ∈ xs → x ∈ l) → ∀ (acc : List Nat), (∀ y, y ∈ acc → y < σ.vars.length) →
    ∀ y, y ∈ xs.foldl f acc → y < σ.vars.length
  | [], _, _, h => h
  | x :: xs, hsub, acc, h => by
    simp only [List.foldl_cons]
    exact foldl_all_lt f l hf xs (fun z hz => hsub z (List.mem_cons_of_mem _ hz)) _
      (hf acc x (hsub x List.mem_cons_self) h)

theorem directVars_lt {L : Lang} {σ : Store} (ok : OkStore L σ) : ∀ (k : Nat) (t : Term) (acc : List Nat),
    okTerm L σ t = true → (∀ y, y ∈ acc → y < σ.vars.length) →
    ∀ y, y ∈ directVars σ k t acc → y < σ.vars.length
  | 0, t, acc, _, h => by rw [directVars_zero]; exact h
  | k+1, t, acc, ht, h => by
    have ht' := okTerm_followT ok t ht
    unfold directVars
    split
    · next w e =>
      rw [e] at ht'
      split
      · exact h
      · intro y hy
        rcases List.mem_append.mp hy with h1 | h1
        · exact h y h1
        · rw [List.mem_singleton] at h1
          subst h1
          exact okTerm_var.mp ht'
    · next o args e =>
      rw [e] at ht'
      have hargs := (okTerm_app.mp ht').2.2
      exact foldl_all_lt _ args (fun acc x hx hacc => directVars_lt ok k x acc (okTermL_iff.mp hargs x hx) hacc)
        args (fun _ h => h) acc h

theorem followEq_bindAppStore (σ : Store) (v : Nat) (t : Term) :
    FollowEq (bindBaseStore σ v t) (bindAppStore σ v t) := by
  have b := boundEq_bindAppStore σ v t
  apply followEq_of_same _ b.bound
  unfold bindAppStore
  simp only []
  have key : ∀ (k : Nat) (vars : List Nat) (σ : Store),
      (vars.foldl (fun σ w => setVar σ w { (getVar σ w) with cset := k }) σ).vars.length = σ.vars.length := by
    intro k vars
    induction vars with
    | nil => intro σ; rfl
    | cons w ws ih => intro σ; simp only [List.foldl_cons]; rw [ih, length_setVar]
  rw [key, length_setCset]

theorem inv_bindAppStore {L : Lang} {σ : Store} {v o : Nat} {args : List Term} {P : Pend} (okc : OkStoreC L σ)
    (hc : Chains σ) (hv : v < σ.vars.length) (hnb : (getVar σ v).bound = none)
    (okb : OkStore L (bindBaseStore σ v (.app o args))) (ht : okTerm L σ (.app o args) = true)
    (hsat : ∀ ρ, Sat L ρ (bindAppStore σ v (.app o args)) → Sat L ρ σ) (inv : Inv L σ P) :
    Inv L (bindAppStore σ v (.app o args)) (P.addP (fun c => c ∈ cs (bindAppStore σ v (.app o args)) v)) ∧
      StepR L σ (bindAppStore σ v (.app o args)) := by
  have U := upd_bindAppStore hv (.app o args)
  have Ub := upd_bindBaseStore hv (.app o args)
  have N : NewBind σ (bindAppStore σ v (.app o args)) v (.app o args) := newBind_of_upd U hnb trivial
  have hvars : ∀ x, x ∈ appVars σ v (.app o args) → x < σ.vars.length := by
    intro x hx
    have := directVars_lt okb _ (.app o args) [] (okTerm_mono (Nat.le_of_eq Ub.len.symm) _ ht)
      (fun _ h => nomatch h) x hx
    rw [Ub.len] at this
    exact this
  have B1 := cs_bindAppStore_grow hv (.app o args) hvars inv.idx
  have B2 : ∀ u d, d < 64 → Reach (bindAppStore σ v (.app o args)) (.app o args) u d → ∀ c, c ∈ cs σ v →
      c ∈ cs (bindAppStore σ v (.app o args)) u := by
    intro u d hd hr c hm
    have hr' : Reach (bindBaseStore σ v (.app o args)) (.app o args) u d :=
      (followEq_bindAppStore σ v (.app o args)).symm.reach hr
    have hu : u ∈ appVars σ v (.app o args) := by
      unfold appVars
      apply directVars_reach hr'
      unfold termFuel
      omega
    exact cs_bindAppStore_var hv _ hvars inv.idx u c hu hm
  have _ := okc
  exact ⟨(Inv.newBind hc N (constrs_bindAppStore σ v _) B1 B2 (idx_bindAppStore hv _ hvars inv.idx) (fun _ => True)
    (fun ρ hρ _ => hsat ρ hρ) inv).dropG (fun _ _ _ => trivial),
    StepR.of_newBind hc N (constrs_bindAppStore σ v _) B1 B2⟩

/-! ## 2. updates that keep bindings and constraint sets -/

/-- `setVar` that changes neither the binding nor the constraint set of the variable -/
theorem inv_setVar {L : Lang} {σ : Store} {v : Nat} {i : VarInfo} {P : Pend} (okc : OkStoreC L σ)
    (hb : i.bound = (getVar σ v).bound) (hk : i.cset = (getVar σ v).cset)
    (hsat : ∀ ρ, Sat L ρ (setVar σ v i) → Sat L ρ σ) (inv : Inv L σ P) :
    Inv L (setVar σ v i) P ∧ StepR L σ (setVar σ v i) := by
  have hbound : ∀ w, (getVar (setVar σ v i) w).bound = (getVar σ w).bound := by
    intro w
    rw [getVar_setVar]
    split
    · next e => rw [← e.1]; exact hb
    · rfl
  have hcset : ∀ w, (getVar (setVar σ v i) w).cset = (getVar σ w).cset := by
    intro w
    rw [getVar_setVar]
    split
    · next e => rw [← e.1]; exact hk
    · rfl
  have fe : FollowEq σ (setVar σ v i) := followEq_of_same (length_setVar _ _ _) hbound
  have ex : Ext σ (setVar σ v i) := ⟨Nat.le_of_eq (length_setVar _ _ _).symm, fun w b h => by rw [hbound]; exact h⟩
  have hcs : ∀ u, cs (setVar σ v i) u = cs σ u := by
    intro u
    unfold cs
    rw [hcset, getCset_setVar]
  refine ⟨Inv.transfer okc fe ex rfl (fun u c _ hm _ => by rw [hcs]; exact hm) ?_ hsat inv,
    StepR.of_same okc.ok fe ex rfl (fun u c _ hm _ => by rw [hcs]; exact hm)⟩
  intro w hw
  rw [length_setVar] at hw
  rw [hcset]
  exact inv.idx w hw

/-- removing a constraint that is not unfulfilled from a constraint set -/
theorem inv_removeDone {L : Lang} {σ : Store} {k c : Nat} {P : Pend} (okc : OkStoreC L σ)
    (hdone : ¬ Unful σ c) (inv : Inv L σ P) :
    Inv L (setCset σ k ((getCset σ k).filter (· != c))) P ∧
      StepR L σ (setCset σ k ((getCset σ k).filter (· != c))) := by
  have sc := sameCore_setCset σ k ((getCset σ k).filter (· != c))
  have fe : FollowEq σ _ := followEq_of_sameCore sc
  have ex : Ext σ (setCset σ k ((getCset σ k).filter (· != c))) :=
    ⟨Nat.le_refl _, fun w b h => h⟩
  have hcs : ∀ u d, d ∈ cs σ u → Unful σ d →
      d ∈ cs (setCset σ k ((getCset σ k).filter (· != c))) u := by
    intro u d hm hd
    unfold cs at hm ⊢
    rw [getVar_setCset, getCset_setCset']
    split
    · next e =>
      rw [← e.1] at hm
      apply List.mem_filter.mpr
      refine ⟨hm, ?_⟩
      have : d ≠ c := fun e' => hdone (e' ▸ hd)
      simpa using this
    · exact hm
  refine ⟨Inv.transfer okc fe ex rfl (fun u d _ hm hd => hcs u d hm hd) ?_ (fun _ hρ => sc.sat hρ) inv,
    StepR.of_same okc.ok fe ex rfl (fun u d _ hm hd => hcs u d hm hd)⟩
  intro w hw
  rw [getVar_setCset]
  have : (setCset σ k ((getCset σ k).filter (· != c))).csets.length = σ.csets.length := by
    unfold setCset; simp
  rw [this]
  exact inv.idx w hw

/-! ## 3. replacing a constraint record -/

theorem getConstr_setConstr (σ : Store) (c d : Nat) (x : Constr) (hc : c < σ.constrs.length) :
    getConstr (setConstr σ c x) d = if c = d then x else getConstr σ d := by
  by_cases e : c = d
  · subst e; rw [getConstr_setConstr_eq x hc, if_pos rfl]
  · rw [getConstr_setConstr_ne x e, if_neg e]

theorem unful_setConstr {σ : Store} {c d : Nat} {x : Constr} (hc : c < σ.constrs.length)
    (hun : unfulB x = true → Unful σ c) (h : Unful (setConstr σ c x) d) : Unful σ d := by
  unfold Unful at h
  rw [getConstr_setConstr σ c d x hc] at h
  by_cases e : c = d
  · subst e; rw [if_pos rfl] at h; exact hun h
  · rw [if_neg e] at h; exact h

theorem fe_setConstr (σ : Store) (c : Nat) (x : Constr) : FollowEq σ (setConstr σ c x) :=
  followEq_of_same rfl (fun _ => rfl)

theorem att_setConstr {σ : Store} {c d : Nat} {x : Constr} {t : Term} (h : Att σ d t) : Att (setConstr σ c x) d t :=
  fun u dd hdd hr => h u dd hdd ((fe_setConstr σ c x).symm.reach hr)

/-- the invariant when the record of `c` is replaced by `x` (obligations for `x` given explicitly) -/
theorem inv_setConstr {L : Lang} {σ : Store} {c : Nat} {x : Constr} {P P' : Pend}
    (hc : c < σ.constrs.length) (hP : ∀ d, d ≠ c → P.p d → P'.p d) (hW : ∀ d, d ≠ c → P.w d → P'.w d)
    (hG : ∀ ρ, P'.g ρ → P.g ρ) (hK : ∀ d, d ≠ c → P'.k d → P.k d)
    (hatt : unfulB x = true → ∀ t, t ∈ constrTerms x → Att σ c t)
    (hchkS : ∀ r t s, x = .sub r t s false → ¬ P'.p c → ∀ τr τt, Res σ r τr → Res σ t τt →
      Ty.depth τr < 64 → Ty.depth τt < 64 → False)
    (hchkE : ∀ r as, x = .elim r as false → ¬ P'.p c → 2 ≤ as.length ∧
      ∀ τr τs, Res σ r τr → ResL σ as τs → Ty.depth τr < 64 → Ty.depthL τs ≤ 64 → ∀ τ, τ ∈ τs → Sub L τr τ)
    (hf : ∀ r t s, x = .sub r t s true → FulOK L σ r t)
    (hful1 : ∀ r a, x = .elim r [a] true → ¬ P'.w c → ∀ ρ, Sat L ρ σ → P'.g ρ → Sub L (den ρ r) (den ρ a))
    (hful2 : ∀ r as f, x = .elim r as f → P'.k c → Term.closedL as = true ∧ (f = true → as.length = 1))
    (inv : Inv L σ P) :
    Inv L (setConstr σ c x) P' := by
  have hg := getConstr_setConstr σ c
  have fe := (fe_setConstr σ c x).symm
  have sc : SameCore σ (setConstr σ c x) := ⟨rfl, fun _ => rfl, fun _ => rfl, fun _ => rfl⟩
  refine ⟨inv.idx, ?_, ?_, ?_, ?_, ?_, ?_, ?_⟩
  rotate_left 6
  · intro d r as f hk hd
    rw [hg d x hc] at hd
    by_cases e : c = d
    · subst e
      rw [if_pos rfl] at hd
      exact hful2 r as f hd hk
    · rw [if_neg e] at hd
      exact inv.ful2 d r as f (hK d (fun e' => e e'.symm) hk) hd
  · intro d r t s hd u dd hdd hr
    rw [hg d x hc] at hd
    have hr0 : Reach σ r u dd ∨ Reach σ t u dd := hr.imp fe.reach fe.reach
    by_cases e : c = d
    · subst e
      rw [if_pos rfl] at hd
      have hu : unfulB x = true := by rw [hd]; rfl
      rcases hr0 with h | h
      · exact hatt hu r (by rw [hd, constrTerms_sub]; exact List.mem_cons_self) u dd hdd h
      · exact hatt hu t (by rw [hd, constrTerms_sub]; exact List.mem_cons_of_mem _ List.mem_cons_self) u dd hdd h
    · rw [if_neg e] at hd
      exact inv.att d r t s hd u dd hdd hr0
  · intro d r t s hd hn τr τt h1 h2 d1 d2
    rw [hg d x hc] at hd
    have h1' := fe.res τr r h1
    have h2' := fe.res τt t h2
    by_cases e : c = d
    · subst e
      rw [if_pos rfl] at hd
      exact hchkS r t s hd hn τr τt h1' h2' d1 d2
    · rw [if_neg e] at hd
      exact inv.chk d r t s hd (fun hp => hn (hP d (fun e' => e e'.symm) hp)) τr τt h1' h2' d1 d2
  · intro d r t s hlt hd
    rw [length_setConstr] at hlt
    rw [hg d x hc] at hd
    have ex : Ext σ (setConstr σ c x) := ⟨Nat.le_refl _, fun w b h => h⟩
    by_cases e : c = d
    · subst e
      rw [if_pos rfl] at hd
      exact (hf r t s hd).mono ex
    · rw [if_neg e] at hd
      exact (inv.ful d r t s hlt hd).mono ex
  · intro d r as hd t ht
    rw [hg d x hc] at hd
    apply att_setConstr
    by_cases e : c = d
    · subst e
      rw [if_pos rfl] at hd
      have hu : unfulB x = true := by rw [hd]; rfl
      exact hatt hu t (by rw [hd, constrTerms_elim]; exact ht)
    · rw [if_neg e] at hd
      exact inv.attE d r as hd t ht
  · intro d r as hd hn
    rw [hg d x hc] at hd
    have key : (2 ≤ as.length ∧ ∀ τr τs, Res σ r τr → ResL σ as τs → Ty.depth τr < 64 → Ty.depthL τs ≤ 64 →
        ∀ τ, τ ∈ τs → Sub L τr τ) := by
      by_cases e : c = d
      · subst e
        rw [if_pos rfl] at hd
        exact hchkE r as hd hn
      · rw [if_neg e] at hd
        exact inv.chkE d r as hd (fun hp => hn (hP d (fun e' => e e'.symm) hp))
    exact ⟨key.1, fun τr τs h1 hl d1 d2 => key.2 τr τs (fe.res τr r h1) (fe.resL τs as hl) d1 d2⟩
  · intro d r a hlt hd hn ρ hρ hgρ
    rw [length_setConstr] at hlt
    rw [hg d x hc] at hd
    have hρ0 : Sat L ρ σ := sc.sat hρ
    by_cases e : c = d
    · subst e
      rw [if_pos rfl] at hd
      exact hful1 r a hd hn ρ hρ0 hgρ
    · rw [if_neg e] at hd
      exact inv.ful1 d r a hlt hd (fun hw => hn (hW d (fun e' => e e'.symm) hw)) ρ hρ0 (hG ρ hgρ)

theorem same_setConstr {σ : Store} {c : Nat} {x : Constr} {a b : Term} (h : Same σ a b) :
    Same (setConstr σ c x) a b :=
  fun σ' e hc => h σ' ⟨e.len, e.bound⟩ hc

/-- a step followed by the replacement of the record of `c`: relations of the new record to the one before the step -/
theorem StepR.then_setConstr {L : Lang} {σ0 σ : Store} {c : Nat} {x : Constr} (r1 : StepR L σ0 σ)
    (hc : c < σ.constrs.length) (hun : unfulB x = true → Unful σ c)
    (hsub : ∀ r t s f, c < σ0.constrs.length → getConstr σ0 c = .sub r t s f →
      ∃ f', x = .sub r t s f' ∧ (f = true → f' = true))
    (hder : ∀ r as f, c < σ0.constrs.length → getConstr σ0 c = .elim r as f →
      ∃ r' as' f', x = .elim r' as' f' ∧ (f = true → f' = true) ∧ Same σ r' r ∧
        ∀ a', a' ∈ as' → ∃ a, a ∈ as ∧ Same σ a' a) :
    StepR L σ0 (setConstr σ c x) := by
  have hg := getConstr_setConstr σ c
  refine ⟨⟨r1.ext.len, r1.ext.bound⟩, by rw [length_setConstr]; exact r1.clen, ?_, ?_, ?_, ?_⟩
  · intro d r t s f hd h
    rw [hg d x hc]
    by_cases e : c = d
    · subst e
      rw [if_pos rfl]
      exact hsub r t s f hd h
    · rw [if_neg e]
      exact r1.subk d r t s f hd h
  · intro d r as f hd h
    rw [hg d x hc]
    by_cases e : c = d
    · subst e
      rw [if_pos rfl]
      obtain ⟨r', as', f', e1, e2, e3, e4⟩ := hder r as f hd h
      exact ⟨r', as', f', e1, e2, same_setConstr e3, fun a' ha' => by
        obtain ⟨a, ha, hs⟩ := e4 a' ha'
        exact ⟨a, ha, same_setConstr hs⟩⟩
    · rw [if_neg e]
      obtain ⟨r', as', f', e1, e2, e3, e4⟩ := r1.der d r as f hd h
      exact ⟨r', as', f', e1, e2, same_setConstr e3, fun a' ha' => by
        obtain ⟨a, ha, hs⟩ := e4 a' ha'
        exact ⟨a, ha, same_setConstr hs⟩⟩
  · intro u d hu hd hm hund
    exact r1.keep u d hu hd hm (unful_setConstr hc hun hund)
  · intro d t hd ht hund hat
    exact att_setConstr (r1.attT d t hd ht (unful_setConstr hc hun hund) hat)

/-! ## 4. fresh variables -/

theorem cs_newVar {σ : Store} (wc : Bool) {u : Nat} (hu : u < σ.vars.length) : cs (newVar σ wc).1 u = cs σ u := by
  unfold cs
  rw [getVar_newVar_lt hu]
  unfold getCset newVar
  simp only [List.getD_eq_getElem?_getD, List.getElem?_append]
  split
  · rfl
  · next hlt =>
    rw [List.getElem?_eq_none (l := σ.csets) (by omega)]
    cases ((getVar σ u).cset - σ.csets.length) <;> simp

theorem inv_newVar {L : Lang} {σ : Store} {P : Pend} (okc : OkStoreC L σ) (hc : Chains σ) (wc : Bool)
    (inv : Inv L σ P) : Inv L (newVar σ wc).1 P ∧ StepR L σ (newVar σ wc).1 := by
  have hb : ∀ w, (getVar (newVar σ wc).1 w).bound = (getVar σ w).bound := fun w => (getVar_newVar_core σ wc w).1
  have hl : σ.vars.length ≤ (newVar σ wc).1.vars.length := by rw [length_newVar]; omega
  have fe : FollowEq σ (newVar σ wc).1 := followEq_of_grow hc hl hb
  have ex : Ext σ (newVar σ wc).1 := ⟨hl, fun w b h => by rw [hb]; exact h⟩
  refine ⟨Inv.transfer okc fe ex rfl (fun u c hu hm _ => by rw [cs_newVar wc hu]; exact hm) ?_
    (fun _ hρ => sat_newVar wc hρ) inv,
    StepR.of_same okc.ok fe ex rfl (fun u c hu hm _ => by rw [cs_newVar wc hu]; exact hm)⟩
  intro w hw
  rw [length_newVar] at hw
  have hcl : (newVar σ wc).1.csets.length = σ.csets.length + 1 := by unfold newVar; simp
  rw [hcl]
  by_cases h : w < σ.vars.length
  · rw [getVar_newVar_lt h]
    exact Nat.lt_succ_of_lt (inv.idx w h)
  · have : w = σ.vars.length := by omega
    subst this
    unfold getVar newVar
    simp

theorem inv_newVars {L : Lang} : ∀ (n : Nat) {σ : Store} {P : Pend}, OkStoreC L σ → Chains σ → Inv L σ P →
    Inv L (newVars σ n).1 P ∧ StepR L σ (newVars σ n).1
  | 0, σ, P, _, _, inv => by unfold newVars; exact ⟨inv, StepR.refl L σ⟩
  | n+1, σ, P, okc, hc, inv => by
    obtain ⟨i1, s1⟩ := inv_newVar okc hc false inv
    have okc1 := (stepC_newVar (L := L) okc).ok
    have hc1 : Chains (newVar σ false).1 := (boundEq_newVar σ false).chains hc
    obtain ⟨i2, s2⟩ := inv_newVars n okc1 hc1 i1
    unfold newVars
    simp only []
    exact ⟨i2, s1.trans s2⟩

end Tfv.C03R
