import Tfv.Model.Graph
import Tfv.Model.Bag
/-!
# M9 — task queries (query.py): variables, clause generation, and a basic-graph-pattern semantics

A task is data: steps (alternative types, alternative operators, predecessors), output steps, input steps.
`genQuery` mirrors `TransformationQuery.assign_variables` + `sparql()` and returns the query as *clauses*
(the harness parses the SPARQL text of the implementation back into the same form). Variables are named by
the step they stand for (by the path of steps from an output when `unfold_tree`), which is a renaming of
the `?_i` of the implementation. `evalQuery` evaluates a clause list over a list of triples as a plain basic
graph pattern with the three property paths the generator emits.
-/
namespace Tfv

structure QStep where
  types : List Ty := []          -- alternatives (already decoded from their URIs; wildcards stand for Top)
  ops : List String := []        -- alternatives
  from_ : List Nat := []
  deriving Repr, Inhabited

structure QTask where
  steps : List QStep
  outputs : List Nat
  inputs : List Nat := []
  deriving Repr, Inhabited

structure QFlags where
  byIo : Bool := true
  byTypes : Bool := true
  byOperators : Bool := true
  byChronology : Bool := true
  byPenultimateOutput : Bool := true
  bySecondInput : Bool := false
  unfoldTree : Bool := false
  deriving Repr, Inhabited

abbrev QVar := List Nat     -- [step] or, unfolded, the path of steps from an output (last = the step itself)

inductive QTerm where
  | var (v : QVar)
  | workflow
  | node (n : Node)
  deriving Repr, DecidableEq, Inhabited

inductive QPath where
  | pred (name : String)           -- `:name`
  | opt (name : String)            -- `:name?`
  | outputFrom                     -- `:output/:from?`
  | inputFromInv                   -- `:input/^:from?`
  deriving Repr, DecidableEq, Inhabited

structure QTriple where
  s : QTerm
  p : QPath
  o : QTerm
  deriving Repr, DecidableEq, Inhabited

inductive QClause where
  | one (t : QTriple)
  | union (alts : List QTriple)
  deriving Repr, Inhabited

structure Query where
  prefilter : List QClause := []
  body : List QClause := []
  deriving Repr, Inhabited

inductive QErr where
  | cyclic                 -- CyclicTransformationGraphError
  | nonCanonical           -- NonCanonicalTypeError (a task type without URI)
  | internal (site : String)
  deriving Repr, Inhabited

def QTask.step (t : QTask) (k : Nat) : QStep := t.steps.getD k {}

/-- what `assign_variables` computes -/
structure QAssign where
  vars : List (QVar × Nat) := []            -- variable ↦ step, in creation order
  links : List (QVar × QVar) := []          -- (after, before): `after[before].append(after)`
  outs : List QVar := []
  ins : List QVar := []
  deriving Repr, Inhabited

/-- `assign_variables(node, path)`: depth-first, one variable per step (per visit when unfolding); a step on its own path is a cycle -/
def assignVars (t : QTask) (f : QFlags) : Nat → QAssign → Nat → List Nat → Except QErr (QAssign × QVar)
  | 0, _, _, _ => .error (.internal "fuel")
  | n+1, a, k, path =>
    if path.contains k then .error .cyclic else
    let v : QVar := if f.unfoldTree then path ++ [k] else [k]
    let a := if a.vars.any (fun p => p.1 == v) then a else { a with vars := a.vars ++ [(v, k)] }
    let a := if t.outputs.contains k && !a.outs.contains v then { a with outs := a.outs ++ [v] } else a
    let a := if t.inputs.contains k && !a.ins.contains v then { a with ins := a.ins ++ [v] } else a
    let r := (t.step k).from_.foldlM (fun (a : QAssign) b =>
      match assignVars t f n a b (path ++ [k]) with
      | .error e => Except.error e
      | .ok (a', bv) => .ok { a' with links := a'.links ++ [(v, bv)] }) a
    match r with
    | .error e => .error e
    | .ok a' => .ok (a', v)

def leTyB (L : Lang) (s t : Ty) : Bool := isSubtype L s t false

def unionClause (ts : List QTriple) : List QClause :=
  match ts with
  | [] => []
  | [t] => [.one t]
  | _ => [.union ts]

/-- `union(f"{v} :subtypeOf", (uri(t) for t in TypeUnion(types, specific=False)))` -/
def subtypeOfClauses (G : GLang) (v : QVar) (types : List Ty) : Except QErr (List QClause) :=
  let general := unionOf (leTyB G.types) false types
  match general.mapM (fun t => typeUri G t.toTerm) with
  | .error _ => .error .nonCanonical
  | .ok uris => .ok (unionClause (uris.map (fun u => ⟨.var v, .pred "subtypeOf", .node u⟩)))

def viaClauses (v : QVar) (ops : List String) : List QClause :=
  unionClause (ops.map (fun o => ⟨.var v, .pred "via", .node (.ns o)⟩))

/-- `types()`: the bag of required types as `containsType` clauses (variables in creation order) -/
def typesClauses (G : GLang) (t : QTask) (a : QAssign) : Except QErr (List QClause) :=
  let bag := bagOf (leTyB G.types) (a.vars.map (fun p => (t.step p.2).types))
  bag.mapM (fun ts =>
    match ts.mapM (fun ty => typeUri G ty.toTerm) with
    | .error _ => Except.error QErr.nonCanonical
    | .ok [u] => .ok (.one ⟨.workflow, .pred "containsType", .node u⟩)
    | .ok us => .ok (.union (us.map (fun u => ⟨.workflow, .pred "containsType", .node u⟩))))

/-- `operators()`: only the operators that definitely occur -/
def operatorsClauses (t : QTask) (a : QAssign) : List QClause :=
  ((a.vars.filterMap (fun p => match (t.step p.2).ops with
    | [o] => some o
    | _ => none)).eraseDups).map (fun o => .one ⟨.workflow, .pred "containsOperation", .node (.ns o)⟩)

/-- the `:depends?` rule of `chronology()` for a link `after → current` -/
def relaxedLink (t : QTask) (after current : Nat) : Bool :=
  let c := t.step after
  let b := t.step current
  c.ops.isEmpty && (c.types.isEmpty || (!b.ops.isEmpty && b.types.isEmpty))

def stepOf (a : QAssign) (v : QVar) : Nat := ((a.vars.find? (fun p => p.1 == v)).map (·.2)).getD 0

/-- `TransformationQuery.sparql()` as clauses -/
def genQuery (G : GLang) (t : QTask) (f : QFlags) : Except QErr Query :=
  let r := t.outputs.foldlM (fun (a : QAssign) o =>
    match assignVars t f (t.steps.length + 2) a o [] with
    | .error e => Except.error e
    | .ok (a', _) => .ok a') {}
  match r with
  | .error e => .error e
  | .ok a =>
    let pre1 := if f.byOperators then operatorsClauses t a else []
    match (if f.byTypes then typesClauses G t a else .ok []) with
    | .error e => .error e
    | .ok pre2 =>
      -- output_nodes()
      let outs := a.outs.mapM (fun v =>
        match subtypeOfClauses G v (t.step (stepOf a v)).types with
        | .error e => Except.error e
        | .ok cs => .ok (QClause.one ⟨.workflow, (if f.byPenultimateOutput then .outputFrom else .pred "output"), .var v⟩ :: cs))
      match outs with
      | .error e => .error e
      | .ok outs =>
        let ins := if f.byIo then a.ins.mapM (fun v =>
            match subtypeOfClauses G v (t.step (stepOf a v)).types with
            | .error e => Except.error e
            | .ok cs => .ok (QClause.one ⟨.workflow, (if f.bySecondInput then .inputFromInv else .pred "input"), .var v⟩ :: cs))
          else .ok []
        match ins with
        | .error e => .error e
        | .ok ins =>
          -- chronology(): every variable is visited once; a variable without successors is an output and only gets its `via`
          let chron : Except QErr (List QClause) :=
            if !f.byChronology then .ok [] else
            a.vars.foldlM (fun (acc : List QClause) p =>
              let v := p.1
              let st := t.step p.2
              let afters := (a.links.filter (fun l => l.2 == v)).map (·.1)
              if afters.isEmpty then .ok (acc ++ viaClauses v st.ops)
              else
                let deps := afters.eraseDups.map (fun c =>
                  QClause.one ⟨.var c, (if relaxedLink t (stepOf a c) p.2 then .opt "depends" else .pred "depends"), .var v⟩)
                match subtypeOfClauses G v st.types with
                | .error e => Except.error e
                | .ok cs => .ok (acc ++ deps ++ viaClauses v st.ops ++ cs)) []
          match chron with
          | .error e => .error e
          | .ok chron => .ok { prefilter := pre1 ++ pre2, body := outs.flatten ++ ins.flatten ++ chron }

/-! ## basic-graph-pattern semantics -/

abbrev QEnv := List (QVar × Node)

def pairsOf (g : List Triple) (p : String) : List (Node × Node) :=
  (g.filter (fun t => t.2.1 == Node.tf p)).map (fun t => (t.1, t.2.2))

/-- does `(a, b)` satisfy the path? -/
def pathHolds (g : List Triple) (p : QPath) (a b : Node) : Bool :=
  match p with
  | .pred n => (pairsOf g n).contains (a, b)
  | .opt n => a == b || (pairsOf g n).contains (a, b)
  | .outputFrom => (pairsOf g "output").any (fun q => q.1 == a && (q.2 == b || (pairsOf g "from").contains (q.2, b)))
  | .inputFromInv => (pairsOf g "input").any (fun q => q.1 == a && (q.2 == b || (pairsOf g "from").contains (b, q.2)))

def termVal (wf : Node) (env : QEnv) : QTerm → Option Node
  | .var v => (env.find? (fun p => p.1 == v)).map (·.2)
  | .workflow => some wf
  | .node n => some n

/-- the pairs `(a, b)` that satisfy a path, given what is already known about the two ends
(enumerated from the triples of the graph; `univ` is only needed for the reflexive part of `p?`) -/
def pathPairs (g : List Triple) (univ : List Node) (p : QPath) (sa ob : Option Node) : List (Node × Node) :=
  let keep (l : List (Node × Node)) := l.filter (fun q => (sa.all (· == q.1)) && (ob.all (· == q.2)))
  match p with
  | .pred n => keep (pairsOf g n)
  | .opt n =>
    let refl := match sa, ob with
      | some a, _ => [(a, a)]
      | none, some b => [(b, b)]
      | none, none => univ.map (fun x => (x, x))
    keep (refl ++ pairsOf g n)
  | .outputFrom =>
    keep ((pairsOf g "output").flatMap (fun q => (q.1, q.2) :: ((pairsOf g "from").filter (fun r => r.1 == q.2)).map (fun r => (q.1, r.2))))
  | .inputFromInv =>
    keep ((pairsOf g "input").flatMap (fun q => (q.1, q.2) :: ((pairsOf g "from").filter (fun r => r.2 == q.2)).map (fun r => (q.1, r.1))))

/-- all extensions of `env` that satisfy one triple pattern -/
def extendTriple (g : List Triple) (wf : Node) (univ : List Node) (env : QEnv) (t : QTriple) : List QEnv :=
  let sa := termVal wf env t.s
  let ob := termVal wf env t.o
  ((pathPairs g univ t.p sa ob).eraseDups).filterMap (fun q =>
    let env1 := match t.s, sa with
      | .var v, none => env ++ [(v, q.1)]
      | _, _ => env
    -- the same variable on both sides must take one value
    match t.o with
    | .var v =>
      match termVal wf env1 t.o with
      | some n => if n == q.2 then some env1 else none
      | none => some (env1 ++ [(v, q.2)])
    | _ => some env1)

/-- satisfying assignments of a clause list (all solutions, as a list of environments) -/
def solve (g : List Triple) (wf : Node) (univ : List Node) : List QClause → List QEnv → List QEnv
  | [], envs => envs
  | .one t :: cs, envs => solve g wf univ cs ((envs.flatMap (fun e => extendTriple g wf univ e t)).eraseDups)
  | .union alts :: cs, envs => solve g wf univ cs ((envs.flatMap (fun e => alts.flatMap (fun t => extendTriple g wf univ e t))).eraseDups)

def graphNodes (g : List Triple) : List Node := (g.flatMap (fun t => [t.1, t.2.2])).eraseDups

/-- plain evaluation of the query over one workflow graph: pre-filter and body both satisfiable -/
def evalQuery (q : Query) (g : List Triple) (wf : Node) : Bool :=
  let univ := graphNodes g
  !(solve g wf univ q.prefilter [[]]).isEmpty && !(solve g wf univ q.body [[]]).isEmpty

end Tfv
