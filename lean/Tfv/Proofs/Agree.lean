import Tfv.Proofs.FrameMain
/-!
# The engine reads only what it can reach (C16), part 4

Two stores of the same size that agree on a closed set `S` of variables give, for terms
over `S`, the same outcome of every engine function, and the resulting stores agree on
`S` again: whatever else the stores contain (the *history*) is never read.
Unlike the shift theorems of `History*.lean` this needs no hypothesis on the terms:
the two runs have the same fuel everywhere.
-/
namespace Tfv.C16P
open Tfv Tfv.C03P

/-! ## 1. the read-only functions -/

theorem followT_congr {τ τ' : Store} {S : Nat → Prop} (hc : Closed τ S)
    (hg : ∀ v, S v → getVar τ' v = getVar τ v) (hl : τ'.vars.length = τ.vars.length)
    {t : Term} (ht : TermIn S t) : followT τ' t = followT τ t := by
  unfold followT
  rw [hl]
  exact follow_congr hc hg _ t ht

theorem loop_not_cons (L : Lang) (σ : Store) (n : Nat) (st aw : Bool) (vs : List Bool) (ss ts : List Term)
    (acc : Option Bool)
    (h : ¬ ∃ v vs' s ss' t ts', vs = v :: vs' ∧ ss = s :: ss' ∧ ts = t :: ts') :
    match3.loop L σ n st aw vs ss ts acc = acc := by
  rw [match3.loop.eq_2]
  intro v vs' s ss' t ts' h1 h2 h3
  exact h ⟨v, vs', s, ss', t, ts', h1, h2, h3⟩

theorem any_congr {α : Type} {f g : α → Bool} : ∀ (l : List α), (∀ t, t ∈ l → f t = g t) → l.any f = l.any g
  | [], _ => rfl
  | x :: xs, h => by
    simp only [List.any_cons]
    rw [h x List.mem_cons_self, any_congr xs (fun t ht => h t (List.mem_cons_of_mem _ ht))]

theorem foldl_congr {α β : Type} {f g : β → α → β} : ∀ (l : List α) (acc : β),
    (∀ acc t, t ∈ l → f acc t = g acc t) → l.foldl f acc = l.foldl g acc
  | [], _, _ => rfl
  | x :: xs, acc, h => by
    simp only [List.foldl_cons]
    rw [h acc x List.mem_cons_self]
    exact foldl_congr xs _ (fun acc t ht => h acc t (List.mem_cons_of_mem _ ht))

theorem match3_zero (L : Lang) (σ : Store) (st aw : Bool) (a b : Term) : match3 L σ 0 st aw a b = none := by
  rw [match3]

theorem match3_congr {L : Lang} {τ τ' : Store} {S : Nat → Prop} (hc : Closed τ S)
    (hg : ∀ v, S v → getVar τ' v = getVar τ v) (hl : τ'.vars.length = τ.vars.length) :
    ∀ (n : Nat) (st aw : Bool) (a b : Term), TermIn S a → TermIn S b →
      match3 L τ' n st aw a b = match3 L τ n st aw a b
  | 0, st, aw, a, b, _, _ => by rw [match3_zero, match3_zero]
  | n+1, st, aw, a, b, ha, hb => by
    have ha' := followT_in hc ha
    have hb' := followT_in hc hb
    have loop : ∀ (vs : List Bool) (ss ts : List Term) (acc : Option Bool), TermsIn S ss → TermsIn S ts →
        match3.loop L τ' n st aw vs ss ts acc = match3.loop L τ n st aw vs ss ts acc := by
      intro vs
      induction vs with
      | nil =>
        intro ss ts acc _ _
        rw [loop_not_cons, loop_not_cons] <;> (rintro ⟨_, _, _, _, _, _, h, _, _⟩; cases h)
      | cons v vs ih =>
        intro ss ts acc hss hts
        cases ss with
        | nil => rw [loop_not_cons, loop_not_cons] <;> (rintro ⟨_, _, _, _, _, _, _, h, _⟩; cases h)
        | cons s ss =>
          cases ts with
          | nil => rw [loop_not_cons, loop_not_cons] <;> (rintro ⟨_, _, _, _, _, _, _, _, h⟩; cases h)
          | cons t ts =>
            obtain ⟨hs, hss'⟩ := termsIn_cons.mp hss
            obtain ⟨ht, hts'⟩ := termsIn_cons.mp hts
            rw [match3.loop.eq_1, match3.loop.eq_1, match3_congr hc hg hl n st aw s t hs ht,
              match3_congr hc hg hl n st aw t s ht hs, ih ss ts none hss' hts', ih ss ts acc hss' hts']
    rw [match3.eq_2, match3.eq_2, followT_congr hc hg hl ha, followT_congr hc hg hl hb]
    cases ea : followT τ a with
    | var av =>
      rw [ea] at ha'
      have hav := termIn_var.mp ha'
      cases eb : followT τ b with
      | var bv =>
        rw [eb] at hb'
        simp only [hg av hav, hg bv (termIn_var.mp hb')]
      | app bo bs => simp only [hg av hav]
    | app ao as =>
      rw [ea] at ha'
      cases eb : followT τ b with
      | var bv =>
        rw [eb] at hb'
        simp only [hg bv (termIn_var.mp hb')]
      | app bo bs =>
        rw [eb] at hb'
        simp only [loop _ as bs _ (termIn_app.mp ha') (termIn_app.mp hb')]

theorem occurs_zero (L : Lang) (σ : Store) (a b : Term) : occurs L σ 0 a b = false := by rw [occurs]

theorem occurs_congr {L : Lang} {τ τ' : Store} {S : Nat → Prop} (hc : Closed τ S)
    (hg : ∀ v, S v → getVar τ' v = getVar τ v) (hl : τ'.vars.length = τ.vars.length) :
    ∀ (n : Nat) (a b : Term), TermIn S a → TermIn S b → occurs L τ' n a b = occurs L τ n a b
  | 0, a, b, _, _ => by rw [occurs_zero, occurs_zero]
  | n+1, a, b, ha, hb => by
    have ha' := followT_in hc ha
    have hb' := followT_in hc hb
    have hm : matchFuel τ' = matchFuel τ := by unfold matchFuel; rw [hl]
    rw [occurs, occurs, followT_congr hc hg hl ha, followT_congr hc hg hl hb, hm,
      match3_congr hc hg hl _ false false _ _ ha' hb']
    cases ea : followT τ a with
    | var av => rfl
    | app ao as =>
      rw [ea] at ha'
      have := any_congr (f := fun t => occurs L τ' n t (followT τ b))
        (g := fun t => occurs L τ n t (followT τ b)) as (fun t ht =>
        occurs_congr hc hg hl n t (followT τ b) (termIn_app.mp ha' t ht) hb')
      simp only [this]

theorem directVars_zero (σ : Store) (t : Term) (acc : List Nat) : directVars σ 0 t acc = acc := by
  rw [directVars]

theorem directVars_congr {τ τ' : Store} {S : Nat → Prop} (hc : Closed τ S)
    (hg : ∀ v, S v → getVar τ' v = getVar τ v) (hl : τ'.vars.length = τ.vars.length) :
    ∀ (n : Nat) (t : Term) (acc : List Nat), TermIn S t → directVars τ' n t acc = directVars τ n t acc
  | 0, t, acc, _ => by rw [directVars_zero, directVars_zero]
  | n+1, t, acc, ht => by
    have ht' := followT_in hc ht
    rw [directVars, directVars, followT_congr hc hg hl ht]
    cases et : followT τ t with
    | var v => rfl
    | app o args =>
      rw [et] at ht'
      simp only []
      exact foldl_congr args acc (fun acc u hu => directVars_congr hc hg hl n u acc (termIn_app.mp ht' u hu))

/-! ## 2. stores that agree on a closed set -/

structure Agree (S : Nat → Prop) (τ τ' : Store) : Prop where
  vlen : τ'.vars.length = τ.vars.length
  clen : τ'.csets.length = τ.csets.length
  same : ∀ v, S v → getVar τ' v = getVar τ v
  nc : NoConstraints τ
  nc' : NoConstraints τ'
  closed : Closed τ S

/-- the same error, or stores that agree on `S` -/
def RelA (S : Nat → Prop) : R → R → Prop
  | .error e, r' => r' = .error e
  | .ok τ1, r' => ∃ τ1', r' = .ok τ1' ∧ Agree S τ1 τ1'

def RelAP (S : Nat → Prop) : Except Err (Store × Term) → Except Err (Store × Term) → Prop
  | .error e, r' => r' = .error e
  | .ok (τ1, t), r' => ∃ τ1', r' = .ok (τ1', t) ∧ Agree S τ1 τ1' ∧ TermIn S t

theorem RelA.err (S : Nat → Prop) (e : Err) : RelA S (.error e) (.error e) := rfl
theorem RelA.ok {S : Nat → Prop} {τ τ' : Store} (a : Agree S τ τ') : RelA S (.ok τ) (.ok τ') := ⟨τ', rfl, a⟩
theorem RelAP.err (S : Nat → Prop) (e : Err) : RelAP S (.error e) (.error e) := rfl
theorem RelAP.ok {S : Nat → Prop} {τ τ' : Store} (a : Agree S τ τ') {t : Term} (ht : TermIn S t) :
    RelAP S (.ok (τ, t)) (.ok (τ', t)) := ⟨τ', rfl, a, ht⟩

theorem RelA.bind {S : Nat → Prop} {r r' : R} {g g' : Store → R} (h : RelA S r r')
    (hg : ∀ τ1 τ1', Agree S τ1 τ1' → RelA S (g τ1) (g' τ1')) :
    RelA S (match (generalizing := false) r with | .error e => .error e | .ok s => g s)
      (match (generalizing := false) r' with | .error e => .error e | .ok s => g' s) := by
  cases r with
  | error e => simp only [RelA] at h; subst h; exact RelA.err S e
  | ok τ1 =>
    obtain ⟨τ1', e, a⟩ := h
    subst e
    exact hg τ1 τ1' a

theorem RelAP.bindR {S : Nat → Prop} {r r' : R} {g g' : Store → Except Err (Store × Term)} (h : RelA S r r')
    (hg : ∀ τ1 τ1', Agree S τ1 τ1' → RelAP S (g τ1) (g' τ1')) :
    RelAP S (match (generalizing := false) r with | .error e => .error e | .ok s => g s)
      (match (generalizing := false) r' with | .error e => .error e | .ok s => g' s) := by
  cases r with
  | error e => simp only [RelA] at h; subst h; exact RelAP.err S e
  | ok τ1 =>
    obtain ⟨τ1', e, a⟩ := h
    subst e
    exact hg τ1 τ1' a

theorem RelA.bindP {S : Nat → Prop} {r r' : Except Err (Store × Term)} {g g' : Store → Term → R}
    (h : RelAP S r r') (hg : ∀ τ1 τ1' t, Agree S τ1 τ1' → TermIn S t → RelA S (g τ1 t) (g' τ1' t)) :
    RelA S (match (generalizing := false) r with | .error e => .error e | .ok (s, t) => g s t)
      (match (generalizing := false) r' with | .error e => .error e | .ok (s, t) => g' s t) := by
  cases r with
  | error e => simp only [RelAP] at h; subst h; exact RelA.err S e
  | ok p =>
    obtain ⟨τ1, t⟩ := p
    obtain ⟨τ1', e, a, ht⟩ := h
    subst e
    exact hg τ1 τ1' t a ht

theorem Agree.put {S : Nat → Prop} {τ τ' : Store} (a : Agree S τ τ') {v : Nat} (hv : S v) {i i' : VarInfo}
    (hi' : (∀ w, S w → getVar τ' w = getVar τ w) → i' = i) (hi : ∀ b, i.bound = some b → TermIn S b) :
    Agree S (setVar τ v i) (setVar τ' v i') := by
  have e := hi' a.same
  subst e
  refine ⟨by rw [length_setVar, length_setVar]; exact a.vlen, a.clen, fun w hw => ?_,
    nc_setVar a.nc _ _, nc_setVar a.nc' _ _, (fr_setVar a.nc a.closed hv _ hi).closed⟩
  rw [getVar_setVar, getVar_setVar, a.vlen, a.same w hw]

theorem Agree.cs {S : Nat → Prop} {τ τ' : Store} (a : Agree S τ τ') (k k' : Nat) {x y : List Nat}
    (hx : NoConstraints τ → x = []) (hy : NoConstraints τ' → y = []) :
    Agree S (setCset τ k x) (setCset τ' k' y) := by
  have hx := hx a.nc
  have hy := hy a.nc'
  subst hx; subst hy
  refine ⟨a.vlen, ?_, a.same, nc_setCset_nil a.nc _, nc_setCset_nil a.nc' _, a.closed⟩
  unfold setCset
  simp only [List.length_set]
  exact a.clen

theorem Agree.closed' {S : Nat → Prop} {τ τ' : Store} (a : Agree S τ τ') : Closed τ' S := by
  intro w b hw hb
  rw [a.same w hw] at hb
  exact a.closed w b hw hb

theorem Agree.followT {S : Nat → Prop} {τ τ' : Store} (a : Agree S τ τ') {t : Term} (ht : TermIn S t) :
    Tfv.followT τ' t = Tfv.followT τ t := followT_congr a.closed a.same a.vlen ht

theorem Agree.fold_cs {S : Nat → Prop} (k : Nat) : ∀ (vars : List Nat) (τ τ' : Store), Agree S τ τ' →
    (∀ x, x ∈ vars → S x) →
    Agree S (vars.foldl (fun σ w => setVar σ w { (getVar σ w) with cset := k }) τ)
      (vars.foldl (fun σ w => setVar σ w { (getVar σ w) with cset := k }) τ')
  | [], _, _, a, _ => a
  | w :: ws, τ, τ', a, h => by
    simp only [List.foldl_cons]
    have hw := h w List.mem_cons_self
    refine Agree.fold_cs k ws _ _ (a.put hw (fun same => by rw [same w hw]) (fun b hb => a.closed w b hw hb))
      (fun x hx => h x (List.mem_cons_of_mem _ hx))

theorem relA_check {S : Nat → Prop} {τ τ' : Store} (a : Agree S τ τ') (L : Lang) (n v : Nat) :
    RelA S (checkConstraints L n τ v) (checkConstraints L n τ' v) := by
  have e : ∀ (σ : Store), NoConstraints σ →
      checkConstraints L n σ v = if n < 2 then .error .outOfFuel else .ok σ := by
    intro σ nc
    match n with
    | 0 => rw [checkConstraints]; rfl
    | 1 => rw [checkConstraints, checkList]; rfl
    | n+2 => rw [checkConstraints, nc, checkList]; simp
  rw [e τ a.nc, e τ' a.nc']
  split
  · exact RelA.err _ _
  · exact RelA.ok a

/-! ## 3. the stores `bind` builds -/

theorem clearW_congr {τ τ' : Store} {v : Nat} (h : getVar τ' v = getVar τ v) : clearW τ' v = clearW τ v := by
  unfold clearW; rw [h]

theorem agree_bindBaseStore {S : Nat → Prop} {τ τ' : Store} (a : Agree S τ τ') {v : Nat} (hv : S v)
    {t : Term} (ht : TermIn S t) : Agree S (bindBaseStore τ v t) (bindBaseStore τ' v t) := by
  unfold bindBaseStore
  simp only [clearW_congr (a.same v hv)]
  refine Agree.put (Agree.put a hv (i := clearW τ v) (fun _ => rfl) (fun b hb => a.closed v b hv hb)) hv
    (fun _ => rfl) (fun b hb => ?_)
  injection hb with hb; subst hb; exact ht

theorem agree_bindAppStore {S : Nat → Prop} {τ τ' : Store} (a : Agree S τ τ') {v : Nat} (hv : S v)
    {t : Term} (ht : TermIn S t) : Agree S (bindAppStore τ v t) (bindAppStore τ' v t) := by
  have aB := agree_bindBaseStore a hv ht
  have hd : directVars (bindBaseStore τ' v t) (termFuel (bindBaseStore τ' v t)) t [] =
      directVars (bindBaseStore τ v t) (termFuel (bindBaseStore τ v t)) t [] := by
    have : termFuel (bindBaseStore τ' v t) = termFuel (bindBaseStore τ v t) := by
      unfold termFuel; rw [aB.vlen]
    rw [this]
    exact directVars_congr aB.closed aB.same aB.vlen _ t [] ht
  unfold bindAppStore
  simp only [hd, clearW_congr (a.same v hv)]
  refine Agree.fold_cs _ _ _ _ (aB.cs _ _ (fun nc => merged_nil nc _ _) (fun nc => merged_nil nc _ _)) ?_
  exact directVars_in aB.closed _ _ _ ht (fun x hx => by cases hx)

theorem agree_bindVarStore {S : Nat → Prop} {τ τ' : Store} (a : Agree S τ τ') {v tv : Nat} (hv : S v)
    (htv : S tv) : Agree S (bindVarStore τ v tv) (bindVarStore τ' v tv) := by
  have aB := agree_bindBaseStore a hv (termIn_var.mpr htv)
  unfold bindBaseStore at aB
  simp only [] at aB
  have fB := fr_bindBaseStore a.nc a.closed hv (termIn_var.mpr htv)
  unfold bindBaseStore at fB
  simp only [] at fB
  unfold bindVarStore
  simp only []
  refine Agree.put (Agree.put (aB.cs _ _ (fun nc => by rw [nc, nc]; rfl) (fun nc => by rw [nc, nc]; rfl))
    hv (fun same => ?_) (fun b hb => ?_)) htv (fun same => ?_) (fun b hb => ?_)
  · simp only [getVar_setCset] at same ⊢
    rw [same v hv, same tv htv]
  · exact fB.closed v b hv hb
  · rw [same tv htv]
  · rw [getVar_setVar] at hb
    split at hb
    · exact fB.closed v b hv hb
    · exact fB.closed tv b htv hb

/-! ## 4. the statements proved by induction on the fuel -/

def UnifyA (L : Lang) (n : Nat) : Prop :=
  ∀ (S : Nat → Prop) τ τ' a b, Agree S τ τ' → TermIn S a → TermIn S b →
    RelA S (unify L n τ a b true false false) (unify L n τ' a b true false false)

def UnifyListA (L : Lang) (n : Nat) : Prop :=
  ∀ (S : Nat → Prop) τ τ' vs xs ys, Agree S τ τ' → TermsIn S xs → TermsIn S ys →
    RelA S (unifyList L n τ vs xs ys true false false) (unifyList L n τ' vs xs ys true false false)

def BindA (L : Lang) (n : Nat) : Prop :=
  ∀ (S : Nat → Prop) τ τ' v t, Agree S τ τ' → S v → TermIn S t →
    RelA S (bind L n τ v t) (bind L n τ' v t)

def AboveA (L : Lang) (n : Nat) : Prop :=
  ∀ (S : Nat → Prop) τ τ' v new, Agree S τ τ' → S v → RelA S (above L n τ v new) (above L n τ' v new)

def BelowA (L : Lang) (n : Nat) : Prop :=
  ∀ (S : Nat → Prop) τ τ' v new, Agree S τ τ' → S v → RelA S (below L n τ v new) (below L n τ' v new)

def FixA (L : Lang) (n : Nat) : Prop :=
  ∀ (S : Nat → Prop) τ τ' t pl, Agree S τ τ' → TermIn S t → RelAP S (fix L n τ t pl) (fix L n τ' t pl)

def FixListA (L : Lang) (n : Nat) : Prop :=
  ∀ (S : Nat → Prop) τ τ' vs ps pl, Agree S τ τ' → TermsIn S ps →
    RelA S (fixList L n τ vs ps pl) (fixList L n τ' vs ps pl)

theorem above_stepA {L : Lang} {n : Nat} (hbind : BindA L n) : AboveA L (n+1) := by
  intro S τ τ' v new a hv
  rw [above, above]
  split
  · exact hbind S τ τ' v _ a hv (termIn_base _)
  · simp only [a.same v hv]
    split
    · exact RelA.err _ _
    · have a1 : Agree S (setVar τ v { (getVar τ v) with wildcard := false })
          (setVar τ' v { (getVar τ v) with wildcard := false }) :=
        a.put hv (fun _ => rfl) (fun b hb => a.closed v b hv hb)
      apply RelA.bind
      · split
        · exact RelA.err _ _
        · split
          · exact RelA.err _ _
          · split
            · exact RelA.ok a1
            · split
              · refine relA_check (a1.put hv (fun _ => rfl) (fun b hb => ?_)) L n v
                exact a.closed v b hv hb
              · exact RelA.err _ _
      · intro τ1 τ1' a2
        simp only [a2.same v hv]
        split
        · split
          · exact hbind S τ1 τ1' v _ a2 hv (termIn_base _)
          · exact RelA.ok a2
        · exact RelA.ok a2

theorem below_stepA {L : Lang} {n : Nat} (hbind : BindA L n) : BelowA L (n+1) := by
  intro S τ τ' v new a hv
  rw [below, below]
  split
  · exact hbind S τ τ' v _ a hv (termIn_base _)
  · simp only [a.same v hv]
    split
    · exact RelA.err _ _
    · have a1 : Agree S (setVar τ v { (getVar τ v) with wildcard := false })
          (setVar τ' v { (getVar τ v) with wildcard := false }) :=
        a.put hv (fun _ => rfl) (fun b hb => a.closed v b hv hb)
      apply RelA.bind
      · split
        · exact RelA.err _ _
        · split
          · exact RelA.err _ _
          · split
            · exact RelA.ok a1
            · split
              · refine relA_check (a1.put hv (fun _ => rfl) (fun b hb => ?_)) L n v
                exact a.closed v b hv hb
              · exact RelA.err _ _
      · intro τ1 τ1' a2
        simp only [a2.same v hv]
        split
        · split
          · exact hbind S τ1 τ1' v _ a2 hv (termIn_base _)
          · exact RelA.ok a2
        · exact RelA.ok a2

theorem bind_stepA {L : Lang} {n : Nat} (hunify : UnifyA L n) : BindA L (n+1) := by
  intro S τ τ' v t a hv ht
  cases t with
  | var tv =>
    have htv := termIn_var.mp ht
    rw [bind_var_eq, bind_var_eq]
    simp only [a.same v hv, clearW_congr (a.same v hv)]
    split
    · exact RelA.err _ _
    · split
      · exact RelA.ok (a.put hv (fun _ => rfl) (fun b hb => a.closed v b hv hb))
      · have aB := agree_bindVarStore a hv htv
        apply RelA.bind
        · split
          · exact hunify S _ _ _ _ aB (termIn_base _) ht
          · exact RelA.ok aB
        · intro τ1 τ1' a1
          apply RelA.bind
          · split
            · exact hunify S _ _ _ _ a1 ht (termIn_base _)
            · exact RelA.ok a1
          · intro τ2 τ2' a2
            exact relA_check a2 L n v
  | app o args =>
    rw [bind_app_eq, bind_app_eq]
    simp only [a.same v hv]
    split
    · exact RelA.err _ _
    · split
      · split
        · exact RelA.err _ _
        · split
          · exact RelA.err _ _
          · exact relA_check (agree_bindBaseStore a hv ht) L n v
      · split
        · exact RelA.err _ _
        · exact relA_check (agree_bindAppStore a hv ht) L n v

theorem unify_stepA {L : Lang} {n : Nat} (hlist : UnifyListA L n) (hbind : BindA L n)
    (habove : AboveA L n) (hbelow : BelowA L n) : UnifyA L (n+1) := by
  intro S τ τ' x y a hx hy
  have hx' := followT_in a.closed hx
  have hy' := followT_in a.closed hy
  have hf : termFuel τ' = termFuel τ := by unfold termFuel; rw [a.vlen]
  rw [unify, unify, a.followT hx, a.followT hy, hf]
  cases ex : followT τ x with
  | var av =>
    rw [ex] at hx'
    have hav := termIn_var.mp hx'
    cases ey : followT τ y with
    | var bv =>
      rw [ey] at hy'
      simp only [Bool.not_false, Bool.true_or, if_true]
      exact hbind S τ τ' av _ a hav hy'
    | app bo bs =>
      rw [ey] at hy'
      simp only [occurs_congr a.closed a.same a.vlen _ _ _ hy' hx',
        Bool.false_or, Bool.false_and, Bool.false_eq_true, if_false, if_true]
      split
      · exact RelA.ok a
      · split
        · exact RelA.err _ _
        · split
          · exact hbelow S τ τ' av bo a hav
          · exact hbind S τ τ' av _ a hav hy'
  | app ao as =>
    rw [ex] at hx'
    cases ey : followT τ y with
    | var bv =>
      rw [ey] at hy'
      have hbv := termIn_var.mp hy'
      simp only [occurs_congr a.closed a.same a.vlen _ _ _ hx' hy',
        Bool.false_or, Bool.false_and, Bool.false_eq_true, if_false, if_true]
      split
      · exact RelA.ok a
      · split
        · exact RelA.err _ _
        · split
          · exact habove S τ τ' bv ao a hbv
          · exact hbind S τ τ' bv _ a hbv hx'
    | app bo bs =>
      rw [ey] at hy'
      simp only [Bool.true_and, Bool.false_eq_true, if_false, Bool.not_true, Bool.false_and]
      split
      · exact RelA.ok a
      · split
        · split
          · exact RelA.err _ _
          · exact RelA.ok a
        · split
          · exact hlist S τ τ' _ as bs a (termIn_app.mp hx') (termIn_app.mp hy')
          · exact RelA.err _ _

theorem unifyList_stepA {L : Lang} {n : Nat} (hunify : UnifyA L n) (hlist : UnifyListA L n) :
    UnifyListA L (n+1) := by
  intro S τ τ' vs xs ys a hxs hys
  by_cases hc : ∃ v vs' x xs' y ys', vs = v :: vs' ∧ xs = x :: xs' ∧ ys = y :: ys'
  · obtain ⟨v, vs, x, xs, y, ys, rfl, rfl, rfl⟩ := hc
    obtain ⟨hx, hxs'⟩ := termsIn_cons.mp hxs
    obtain ⟨hy, hys'⟩ := termsIn_cons.mp hys
    rw [unifyList_cons, unifyList_cons]
    apply RelA.bind
    · cases v with
      | true => simp only [if_true]; exact hunify S τ τ' x y a hx hy
      | false => simp only [Bool.false_eq_true, if_false]; exact hunify S τ τ' y x a hy hx
    · intro τ1 τ1' a1
      exact hlist S τ1 τ1' vs xs ys a1 hxs' hys'
  · rcases unifyList_cases L n τ vs xs ys true false false with h | e1
    · exact absurd h hc
    · rcases unifyList_cases L n τ' vs xs ys true false false with h | e2
      · exact absurd h hc
      · rw [e1, e2]; exact RelA.ok a

theorem fix_stepA {L : Lang} {n : Nat} (hbind : BindA L n) (hlist : FixListA L n) : FixA L (n+1) := by
  intro S τ τ' t pl a ht
  have ht' := followT_in a.closed ht
  rw [fix, fix, a.followT ht]
  cases et : followT τ t with
  | app o args =>
    rw [et] at ht'
    simp only []
    apply RelAP.bindR (hlist S τ τ' _ args pl a (termIn_app.mp ht'))
    intro τ1 τ1' a1
    exact RelAP.ok a1 ht'
  | var v =>
    rw [et] at ht'
    have hv := termIn_var.mp ht'
    simp only [a.same v hv]
    apply RelAP.bindR
    · split
      · split
        · exact hbind S τ τ' v _ a hv (termIn_base _)
        · exact RelA.ok a
      · split
        · split
          · exact hbind S τ τ' v _ a hv (termIn_base _)
          · exact RelA.ok a
        · exact RelA.ok a
    · intro τ1 τ1' a1
      rw [a1.followT ht']
      exact RelAP.ok a1 (followT_in a1.closed ht')

theorem fixList_stepA {L : Lang} {n : Nat} (hfix : FixA L n) (hlist : FixListA L n) :
    FixListA L (n+1) := by
  intro S τ τ' vs ps pl a hps
  match vs, ps with
  | [], ps => rw [fixList_nil_left, fixList_nil_left]; exact RelA.ok a
  | vs, [] => rw [fixList_nil_right, fixList_nil_right]; exact RelA.ok a
  | v :: vs, p :: ps =>
    obtain ⟨hp, hps'⟩ := termsIn_cons.mp hps
    rw [fixList_cons, fixList_cons]
    apply RelA.bindP (hfix S τ τ' p _ a hp)
    intro τ1 τ1' _ a1 _
    exact hlist S τ1 τ1' vs ps pl a1 hps'

theorem all_agree (L : Lang) : ∀ n,
    UnifyA L n ∧ UnifyListA L n ∧ BindA L n ∧ AboveA L n ∧ BelowA L n ∧ FixA L n ∧ FixListA L n
  | 0 => by
    refine ⟨?_, ?_, ?_, ?_, ?_, ?_, ?_⟩
    · intro S τ τ' a b _ _ _; rw [unify, unify]; exact RelA.err _ _
    · intro S τ τ' vs xs ys _ _ _; rw [unifyList, unifyList]; exact RelA.err _ _
    · intro S τ τ' v t _ _ _; rw [bind, bind]; exact RelA.err _ _
    · intro S τ τ' v new _ _; rw [above, above]; exact RelA.err _ _
    · intro S τ τ' v new _ _; rw [below, below]; exact RelA.err _ _
    · intro S τ τ' t pl _ _; rw [fix, fix]; exact RelAP.err _ _
    · intro S τ τ' vs ps pl _ _; rw [fixList, fixList]; exact RelA.err _ _
  | n+1 => by
    obtain ⟨h1, h2, h3, h4, h5, h6, h7⟩ := all_agree L n
    exact ⟨unify_stepA h2 h3 h4 h5, unifyList_stepA h1 h2, bind_stepA h1,
      above_stepA h3, below_stepA h3, fix_stepA h3 h7, fixList_stepA h6 h7⟩

end Tfv.C16P
