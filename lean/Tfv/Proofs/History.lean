import Tfv.Proofs.FrameMain
/-!
# History independence of the inference engine (C16), part 3: basic lemmas

`Sim σ₀ σ τ`: the store `τ` is the store `σ` placed behind the history `σ₀`
(the relation `τ = σ₀.append σ`, stated through `getVar`).
-/
namespace Tfv.C16P
open Tfv Tfv.C03P

/-! ## 1. `shift` -/

@[simp] theorem shift_var (k v : Nat) : Term.shift k (.var v) = .var (v + k) := by rw [Term.shift]
@[simp] theorem shift_app (k o : Nat) (args : List Term) :
    Term.shift k (.app o args) = .app o (Term.shiftL k args) := by rw [Term.shift]
@[simp] theorem shiftL_nil (k : Nat) : Term.shiftL k [] = [] := by rw [Term.shiftL]
@[simp] theorem shiftL_cons (k : Nat) (t : Term) (ts : List Term) :
    Term.shiftL k (t :: ts) = Term.shift k t :: Term.shiftL k ts := by rw [Term.shiftL]

theorem closed_app (o : Nat) (args : List Term) : Term.closed (.app o args) = Term.closedL args := by
  rw [Term.closed]
theorem closed_var (v : Nat) : Term.closed (.var v) = false := by rw [Term.closed]
theorem closedL_nil : Term.closedL [] = true := by rw [Term.closedL]
theorem closedL_cons (t : Term) (ts : List Term) :
    Term.closedL (t :: ts) = (Term.closed t && Term.closedL ts) := by rw [Term.closedL]

mutual
theorem shift_shift (a b : Nat) : ∀ t : Term, (t.shift a).shift b = t.shift (a + b)
  | .var v => by simp only [shift_var, Nat.add_assoc]
  | .app o args => by simp only [shift_app, shiftL_shiftL a b args]
theorem shiftL_shiftL (a b : Nat) : ∀ ts : List Term,
    Term.shiftL b (Term.shiftL a ts) = Term.shiftL (a + b) ts
  | [] => by simp only [shiftL_nil]
  | t :: ts => by simp only [shiftL_cons, shift_shift a b t, shiftL_shiftL a b ts]
end

mutual
theorem shift_closed (k : Nat) : ∀ t : Term, t.closed = true → t.shift k = t
  | .var v, h => by rw [closed_var] at h; cases h
  | .app o args, h => by
    rw [closed_app] at h
    rw [shift_app, shiftL_closed k args h]
theorem shiftL_closed (k : Nat) : ∀ ts : List Term, Term.closedL ts = true → Term.shiftL k ts = ts
  | [], _ => shiftL_nil k
  | t :: ts, h => by
    rw [closedL_cons, Bool.and_eq_true] at h
    rw [shiftL_cons, shift_closed k t h.1, shiftL_closed k ts h.2]
end

mutual
theorem shift_zero : ∀ t : Term, t.shift 0 = t
  | .var v => by simp only [shift_var, Nat.add_zero]
  | .app o args => by rw [shift_app, shiftL_zero args]
theorem shiftL_zero : ∀ ts : List Term, Term.shiftL 0 ts = ts
  | [] => shiftL_nil 0
  | t :: ts => by rw [shiftL_cons, shift_zero t, shiftL_zero ts]
end

theorem closed_is_app {t : Term} (h : t.closed = true) :
    ∃ o args, t = .app o args ∧ Term.closedL args = true := by
  cases t with
  | var v => rw [closed_var] at h; cases h
  | app o args => rw [closed_app] at h; exact ⟨o, args, rfl, h⟩

theorem closedL_mem {ts : List Term} (h : Term.closedL ts = true) : ∀ t, t ∈ ts → t.closed = true := by
  induction ts with
  | nil => intro t ht; cases ht
  | cons u us ih =>
    rw [closedL_cons, Bool.and_eq_true] at h
    intro t ht
    rcases List.mem_cons.mp ht with e | e
    · rw [e]; exact h.1
    · exact ih h.2 t e

mutual
theorem closed_no_var {v : Nat} : ∀ t : Term, t.closed = true → ¬ VarIn v t
  | .var w, h, _ => by rw [closed_var] at h; cases h
  | .app o args, h, hv => by
    rw [closed_app] at h
    cases hv with
    | app hu hv => exact closedL_no_var args h _ hu hv
theorem closedL_no_var {v : Nat} : ∀ ts : List Term, Term.closedL ts = true → ∀ u, u ∈ ts → ¬ VarIn v u
  | [], _, u, hu, _ => by cases hu
  | t :: ts, h, u, hu, hv => by
    rw [closedL_cons, Bool.and_eq_true] at h
    rcases List.mem_cons.mp hu with e | e
    · rw [e] at hv; exact closed_no_var t h.1 hv
    · exact closedL_no_var ts h.2 u e hv
end

theorem termIn_closed {S : Nat → Prop} {t : Term} (h : t.closed = true) : TermIn S t :=
  fun _ hv => absurd hv (closed_no_var t h)

/-! ## 2. `VarInfo.shift`, `Store.append` -/

@[simp] theorem shiftI_bound (k c : Nat) (i : VarInfo) : (i.shift k c).bound = i.bound.map (Term.shift k) := rfl
@[simp] theorem shiftI_lower (k c : Nat) (i : VarInfo) : (i.shift k c).lower = i.lower := rfl
@[simp] theorem shiftI_upper (k c : Nat) (i : VarInfo) : (i.shift k c).upper = i.upper := rfl
@[simp] theorem shiftI_wildcard (k c : Nat) (i : VarInfo) : (i.shift k c).wildcard = i.wildcard := rfl
@[simp] theorem shiftI_cset (k c : Nat) (i : VarInfo) : (i.shift k c).cset = i.cset + c := rfl

theorem length_append (σ₀ σ : Store) :
    (σ₀.append σ).vars.length = σ₀.vars.length + σ.vars.length := by
  unfold Store.append; simp

theorem clength_append (σ₀ σ : Store) :
    (σ₀.append σ).csets.length = σ₀.csets.length + σ.csets.length := by
  unfold Store.append; simp

theorem getVar_append_lt {σ₀ σ : Store} {v : Nat} (h : v < σ₀.vars.length) :
    getVar (σ₀.append σ) v = getVar σ₀ v := by
  unfold getVar Store.append
  simp only [List.getD_eq_getElem?_getD]
  rw [List.getElem?_append_left h]

theorem getVar_append_ge {σ₀ σ : Store} {v : Nat} (h : v < σ.vars.length) :
    getVar (σ₀.append σ) (v + σ₀.vars.length) =
      (getVar σ v).shift σ₀.vars.length σ₀.csets.length := by
  unfold getVar Store.append
  simp only [List.getD_eq_getElem?_getD]
  rw [List.getElem?_append_right (by omega)]
  simp only [Nat.add_sub_cancel, List.getElem?_map, List.getElem?_eq_getElem h, Option.map_some,
    Option.getD_some]

theorem nc_append {σ₀ σ : Store} (h0 : NoConstraints σ₀) (h : NoConstraints σ) :
    NoConstraints (σ₀.append σ) := by
  intro j
  have h0j := h0 j
  have hj := h (j - σ₀.csets.length)
  unfold getCset at h0j hj ⊢
  unfold Store.append
  rw [List.getD_eq_getElem?_getD] at h0j hj ⊢
  simp only [List.getElem?_append]
  split
  · exact h0j
  · exact hj

/-! ## 3. the simulation relation -/

/-- `τ` is `σ` behind the history `σ₀` -/
structure Sim (σ₀ σ τ : Store) : Prop where
  vlen : τ.vars.length = σ₀.vars.length + σ.vars.length
  clen : τ.csets.length = σ₀.csets.length + σ.csets.length
  hist : ∀ v, v < σ₀.vars.length → getVar τ v = getVar σ₀ v
  get : ∀ v, v < σ.vars.length →
    getVar τ (v + σ₀.vars.length) = (getVar σ v).shift σ₀.vars.length σ₀.csets.length
  constrs : τ.constrs = σ₀.constrs
  ncσ : NoConstraints σ
  ncτ : NoConstraints τ
  nvv : NoVarVar σ

theorem sim_append {σ₀ σ : Store} (h0 : NoConstraints σ₀) (h : NoConstraints σ) (hv : NoVarVar σ) :
    Sim σ₀ σ (σ₀.append σ) :=
  ⟨length_append σ₀ σ, clength_append σ₀ σ, fun _ hv => getVar_append_lt hv,
   fun _ hv => getVar_append_ge hv, rfl, h, nc_append h0 h, hv⟩

theorem nc_all_nil {σ : Store} (h : NoConstraints σ) : ∀ x, x ∈ σ.csets → x = [] := by
  intro x hx
  obtain ⟨j, hj, e⟩ := List.getElem_of_mem hx
  have := h j
  unfold getCset at this
  rw [List.getD_eq_getElem?_getD, List.getElem?_eq_getElem hj] at this
  rw [← e]; exact this

theorem list_all_nil_eq : ∀ (a b : List (List Nat)), a.length = b.length →
    (∀ x, x ∈ a → x = []) → (∀ x, x ∈ b → x = []) → a = b
  | [], [], _, _, _ => rfl
  | [], _ :: _, h, _, _ => by simp at h
  | _ :: _, [], h, _, _ => by simp at h
  | x :: a, y :: b, h, ha, hb => by
    rw [ha x List.mem_cons_self, hb y List.mem_cons_self,
      list_all_nil_eq a b (by simpa using h) (fun z hz => ha z (List.mem_cons_of_mem _ hz))
        (fun z hz => hb z (List.mem_cons_of_mem _ hz))]

theorem getVar_eq_getElem {σ : Store} {v : Nat} (h : v < σ.vars.length) : getVar σ v = σ.vars[v] := by
  unfold getVar
  rw [List.getD_eq_getElem?_getD, List.getElem?_eq_getElem h]; rfl

/-- the relation determines the store: `τ = σ₀.append σ` -/
theorem Sim.eq_append {σ₀ σ τ : Store} (s : Sim σ₀ σ τ) (h0 : NoConstraints σ₀) : τ = σ₀.append σ := by
  have hv : τ.vars = (σ₀.append σ).vars := by
    apply List.ext_getElem
    · rw [s.vlen, length_append]
    · intro i h1 h2
      rw [← getVar_eq_getElem h1, ← getVar_eq_getElem h2]
      by_cases hi : i < σ₀.vars.length
      · rw [s.hist i hi, getVar_append_lt hi]
      · have e : i = (i - σ₀.vars.length) + σ₀.vars.length := by omega
        have hlt : i - σ₀.vars.length < σ.vars.length := by rw [s.vlen] at h1; omega
        rw [e, s.get _ hlt, getVar_append_ge hlt]
  have hc : τ.csets = (σ₀.append σ).csets :=
    list_all_nil_eq _ _ (by rw [s.clen, clength_append]) (nc_all_nil s.ncτ)
      (nc_all_nil (nc_append h0 s.ncσ))
  have hk : τ.constrs = (σ₀.append σ).constrs := s.constrs
  cases τ
  simp only at hv hc hk
  subst hv; subst hc; subst hk
  rfl

/-! ## 4. reading and writing through the relation -/

theorem Sim.core {σ₀ σ τ : Store} (s : Sim σ₀ σ τ) (v : Nat) :
    (getVar τ (v + σ₀.vars.length)).bound = (getVar σ v).bound.map (Term.shift σ₀.vars.length) ∧
    (getVar τ (v + σ₀.vars.length)).lower = (getVar σ v).lower ∧
    (getVar τ (v + σ₀.vars.length)).upper = (getVar σ v).upper ∧
    (getVar τ (v + σ₀.vars.length)).wildcard = (getVar σ v).wildcard := by
  by_cases h : v < σ.vars.length
  · rw [s.get v h]; exact ⟨rfl, rfl, rfl, rfl⟩
  · rw [getVar_oor h, getVar_oor (by rw [s.vlen]; omega)]; exact ⟨rfl, rfl, rfl, rfl⟩

theorem Sim.bound {σ₀ σ τ : Store} (s : Sim σ₀ σ τ) (v : Nat) :
    (getVar τ (v + σ₀.vars.length)).bound = (getVar σ v).bound.map (Term.shift σ₀.vars.length) :=
  (s.core v).1
theorem Sim.lower {σ₀ σ τ : Store} (s : Sim σ₀ σ τ) (v : Nat) :
    (getVar τ (v + σ₀.vars.length)).lower = (getVar σ v).lower := (s.core v).2.1
theorem Sim.upper {σ₀ σ τ : Store} (s : Sim σ₀ σ τ) (v : Nat) :
    (getVar τ (v + σ₀.vars.length)).upper = (getVar σ v).upper := (s.core v).2.2.1
theorem Sim.wildcard {σ₀ σ τ : Store} (s : Sim σ₀ σ τ) (v : Nat) :
    (getVar τ (v + σ₀.vars.length)).wildcard = (getVar σ v).wildcard := (s.core v).2.2.2

theorem nvv_setVar {σ : Store} (h : NoVarVar σ) (v : Nat) {i : VarInfo}
    (hi : ∀ w, i.bound ≠ some (.var w)) : NoVarVar (setVar σ v i) := by
  intro u w
  rw [getVar_setVar]
  split
  · exact hi w
  · exact h u w

theorem Sim.put {σ₀ σ τ : Store} (s : Sim σ₀ σ τ) (v : Nat) {i i' : VarInfo}
    (hi : v < σ.vars.length → i' = i.shift σ₀.vars.length σ₀.csets.length)
    (hb : ∀ w, i.bound ≠ some (.var w)) :
    Sim σ₀ (setVar σ v i) (setVar τ (v + σ₀.vars.length) i') := by
  refine ⟨by rw [length_setVar, length_setVar]; exact s.vlen, s.clen, fun w hw => ?_, fun w hw => ?_,
    s.constrs, nc_setVar s.ncσ _ _, nc_setVar s.ncτ _ _, nvv_setVar s.nvv v hb⟩
  · rw [getVar_setVar_ne _ (by omega)]; exact s.hist w hw
  · rw [length_setVar] at hw
    by_cases e : v = w
    · subst e
      rw [getVar_setVar_eq _ (by rw [s.vlen]; omega), getVar_setVar_eq _ hw]
      exact hi hw
    · rw [getVar_setVar_ne _ (by omega), getVar_setVar_ne _ e]
      exact s.get w hw

theorem Sim.cs {σ₀ σ τ : Store} (s : Sim σ₀ σ τ) (a b : Nat) {x y : List Nat} (hx : x = []) (hy : y = []) :
    Sim σ₀ (setCset σ a x) (setCset τ b y) := by
  subst hx; subst hy
  refine ⟨s.vlen, ?_, s.hist, s.get, s.constrs, nc_setCset_nil s.ncσ _, nc_setCset_nil s.ncτ _, s.nvv⟩
  unfold setCset
  simp only [List.length_set]
  exact s.clen

theorem Sim.newVar {σ₀ σ τ : Store} (s : Sim σ₀ σ τ) (wc : Bool) :
    Sim σ₀ (newVar σ wc).1 (newVar τ wc).1 := by
  refine ⟨by rw [length_newVar, length_newVar, s.vlen]; omega, ?_, fun w hw => ?_, fun w hw => ?_, s.constrs,
    nc_newVar s.ncσ _, nc_newVar s.ncτ _, fun u w => ?_⟩
  · unfold Tfv.newVar; simp only [List.length_append, List.length_cons, List.length_nil]
    rw [s.clen]; omega
  · rw [getVar_newVar_lt (by rw [s.vlen]; omega)]; exact s.hist w hw
  · rw [length_newVar] at hw
    by_cases e : w < σ.vars.length
    · rw [getVar_newVar_lt (by rw [s.vlen]; omega), getVar_newVar_lt e]; exact s.get w e
    · have e2 : w = σ.vars.length := by omega
      subst e2
      unfold getVar Tfv.newVar
      simp only [List.getD_eq_getElem?_getD]
      rw [List.getElem?_append_right (by rw [s.vlen]; omega), List.getElem?_append_right (Nat.le_refl _)]
      have : σ.vars.length + σ₀.vars.length - τ.vars.length = 0 := by rw [s.vlen]; omega
      simp only [this, Nat.sub_self, List.getElem?_cons_zero, Option.getD_some]
      unfold VarInfo.shift
      simp only [Option.map_none, s.clen]
      rw [Nat.add_comm]
  · rw [(getVar_newVar_core σ wc u).1]; exact s.nvv u w

theorem Sim.snd_newVar {σ₀ σ τ : Store} (s : Sim σ₀ σ τ) (wc : Bool) :
    (Tfv.newVar τ wc).2 = (Tfv.newVar σ wc).2 + σ₀.vars.length := by
  rw [C03P.snd_newVar, C03P.snd_newVar, s.vlen]; omega

/-! ## 5. `follow` -/

theorem follow_nvv {σ : Store} (h : NoVarVar σ) (m : Nat) (t : Term) :
    follow σ (m+1) t = follow σ 1 t := by
  cases t with
  | app o args => rw [follow_app, follow_app]
  | var v =>
    rw [follow_succ_var, follow_succ_var]
    cases hb : (getVar σ v).bound with
    | none => rfl
    | some b =>
      cases b with
      | var w => exact absurd hb (h v w)
      | app o args => simp only [follow_app]

theorem follow_shift {k : Nat} {σ τ : Store}
    (hb : ∀ v, (getVar τ (v + k)).bound = (getVar σ v).bound.map (Term.shift k)) : ∀ (m : Nat) (t : Term),
    follow τ m (t.shift k) = (follow σ m t).shift k
  | 0, t => by rw [follow_zero, follow_zero]
  | m+1, .app o args => by rw [shift_app, follow_app, follow_app, shift_app]
  | m+1, .var v => by
    rw [shift_var, follow_succ_var, follow_succ_var, hb v]
    cases hbv : (getVar σ v).bound with
    | none => simp only [Option.map_none, shift_var]
    | some b => simp only [Option.map_some]; exact follow_shift hb m b

theorem follow_sim {σ₀ σ τ : Store} (s : Sim σ₀ σ τ) (m : Nat) (t : Term) :
    follow τ m (t.shift σ₀.vars.length) = (follow σ m t).shift σ₀.vars.length :=
  follow_shift s.bound m t

/-- once `follow` has reached a final term, more fuel changes nothing -/
theorem follow_final_mono {σ : Store} : ∀ (m j : Nat) (t : Term), Final σ (follow σ m t) →
    follow σ (m + j) t = follow σ m t
  | m, j, .app o args, _ => by rw [follow_app, follow_app]
  | 0, 0, .var v, _ => rfl
  | 0, j+1, .var v, h => by
    rw [follow_zero] at h
    rw [Nat.zero_add, follow_succ_var, follow_zero]
    have h' : (getVar σ v).bound = none := h
    rw [h']
  | m+1, j, .var v, h => by
    rw [follow_succ_var] at h
    rw [Nat.add_right_comm, follow_succ_var, follow_succ_var]
    cases hb : (getVar σ v).bound with
    | none => rfl
    | some b =>
      rw [hb] at h
      exact follow_final_mono m j b h

theorem append_bound (σ₀ σ : Store) (v : Nat) :
    (getVar (σ₀.append σ) (v + σ₀.vars.length)).bound =
      (getVar σ v).bound.map (Term.shift σ₀.vars.length) := by
  by_cases h : v < σ.vars.length
  · rw [getVar_append_ge h]; rfl
  · rw [getVar_oor h, getVar_oor (by rw [length_append]; omega)]; rfl

/-- `followT` behind a history, when the fuel of `followT` suffices in the store itself -/
theorem followT_append {σ₀ σ : Store} (hf : FuelOk σ) (t : Term) :
    followT (σ₀.append σ) (t.shift σ₀.vars.length) = (followT σ t).shift σ₀.vars.length := by
  unfold followT
  rw [follow_shift (append_bound σ₀ σ), length_append]
  have e : σ₀.vars.length + σ.vars.length + 1 = (σ.vars.length + 1) + σ₀.vars.length := by omega
  rw [e, follow_final_mono _ _ _ (hf t)]

theorem followT_sim {σ₀ σ τ : Store} (s : Sim σ₀ σ τ) (t : Term) :
    followT τ (t.shift σ₀.vars.length) = (followT σ t).shift σ₀.vars.length := by
  unfold followT
  rw [follow_sim s, follow_nvv s.nvv τ.vars.length, follow_nvv s.nvv σ.vars.length]

theorem followT_var_unbound {σ : Store} (h : NoVarVar σ) {t : Term} {v : Nat}
    (e : followT σ t = .var v) : (getVar σ v).bound = none := by
  unfold followT at e
  cases t with
  | app o args => rw [follow_app] at e; cases e
  | var u =>
    rw [follow_succ_var] at e
    cases hb : (getVar σ u).bound with
    | none => rw [hb] at e; simp only at e; injection e with e; subst e; exact hb
    | some b =>
      rw [hb] at e; simp only at e
      cases b with
      | var w => exact absurd hb (h u w)
      | app o args => rw [follow_app] at e; cases e

theorem followT_closed (σ : Store) {t : Term} (h : t.closed = true) : followT σ t = t := by
  obtain ⟨o, args, e, _⟩ := closed_is_app h
  subst e; exact followT_app σ o args

end Tfv.C16P
