import Tfv.Proofs.GraphExpr
/-!
# Type nodes are memoised: `Term.beq` decides equality, `lookupType` is stable, `addType` registers its node
-/
namespace Tfv

mutual
theorem term_beq_iff : ∀ (s t : Term), Term.beq s t = true ↔ s = t
  | .var a, .var b => by unfold Term.beq; simp
  | .var a, .app b bs => by unfold Term.beq; simp
  | .app a as, .var b => by unfold Term.beq; simp
  | .app a as, .app b bs => by
    unfold Term.beq
    simp only [Bool.and_eq_true, beq_iff_eq, Term.app.injEq, term_beqL_iff as bs]
theorem term_beqL_iff : ∀ (ss ts : List Term), Term.beqL ss ts = true ↔ ss = ts
  | [], [] => by unfold Term.beqL; simp
  | [], _ :: _ => by unfold Term.beqL; simp
  | _ :: _, [] => by unfold Term.beqL; simp
  | s :: ss, t :: ts => by
    unfold Term.beqL
    simp only [Bool.and_eq_true, List.cons.injEq, term_beq_iff s t, term_beqL_iff ss ts]
end

theorem term_beq_refl (t : Term) : Term.beq t t = true := (term_beq_iff t t).2 rfl

/-! ## `lookupType` -/

theorem lookupType_append_some {m l : List (Term × Node)} {t : Term} {n : Node}
    (h : lookupType m t = some n) : lookupType (m ++ l) t = some n := by
  unfold lookupType at h ⊢
  rw [List.find?_append]
  cases hf : m.find? (fun p => Term.beq p.1 t) with
  | none => rw [hf] at h; cases h
  | some p => rw [hf] at h; simpa using h

theorem lookupType_append_none {m l : List (Term × Node)} {t : Term}
    (h : lookupType m t = none) : lookupType (m ++ l) t = lookupType l t := by
  unfold lookupType at h ⊢
  rw [List.find?_append]
  cases hf : m.find? (fun p => Term.beq p.1 t) with
  | none => simp
  | some p => rw [hf] at h; cases h

theorem lookupType_none_of_forall {l : List (Term × Node)} {t : Term} (h : ∀ x ∈ l, x.1 ≠ t) :
    lookupType l t = none := by
  unfold lookupType
  rw [Option.map_eq_none_iff, List.find?_eq_none]
  intro x hx hb
  exact h x hx ((term_beq_iff _ _).1 hb)

theorem lookupType_singleton (t : Term) (n : Node) : lookupType [(t, n)] t = some n := by
  unfold lookupType
  simp [term_beq_refl]

/-- a registered type stays registered, with the same node, under every type step -/
theorem TStep.lookup_stable {P : Triple → Prop} {Q : Term × Node → Prop} {g g' : GState} (h : TStep P Q g g')
    {t : Term} {n : Node} (hl : lookupType g.typeNodes t = some n) : lookupType g'.typeNodes t = some n := by
  obtain ⟨l, hl', _⟩ := h.typeNodes_ext
  rw [hl']; exact lookupType_append_some hl

theorem GStep.lookup_stable {c : GCfg} {P : Triple → Prop} {Q : Term × Node → Prop} {g g' : GState}
    (h : GStep c P Q g g') {t : Term} {n : Node} (hl : lookupType g.typeNodes t = some n) :
    lookupType g'.typeNodes t = some n := by
  obtain ⟨l, hl', _⟩ := h.typeNodes_ext
  rw [hl']; exact lookupType_append_some hl

/-! ## `addType` -/

/-- a registered type: `addType` is a pure lookup -/
theorem addType_of_lookup (G : GLang) (c : GCfg) (n : Nat) (g : GState) (t : Term) (node : Node)
    (h : lookupType g.typeNodes t = some node) : addType G c (n+1) g t = .ok (g, node) := by
  rw [addType, h]

/-- after `addType`, the type is registered with the returned node -/
theorem addType_memo (G : GLang) (c : GCfg) (n : Nat) (g : GState) (t : Term) (g1 : GState) (node : Node)
    (h : addType G c n g t = .ok (g1, node)) : lookupType g1.typeNodes t = some node := by
  rcases (addType_shape G c n).1 g t g1 node h with ⟨hl, rfl⟩ | ⟨hl, gX, hs, rfl⟩
  · exact hl
  · obtain ⟨l, hl', hq⟩ := hs.typeNodes_ext
    show lookupType (gX.typeNodes ++ [(t, node)]) t = some node
    rw [hl', List.append_assoc, lookupType_append_none hl, lookupType_append_none, lookupType_singleton]
    apply lookupType_none_of_forall
    intro x hx he
    have := hq x hx
    rw [he] at this
    exact Nat.lt_irrefl _ this

/-- "once per distinct type": a second `addType` of the same type returns the same node and changes nothing -/
theorem addType_twice (G : GLang) (c : GCfg) (n m : Nat) (g : GState) (t : Term) (g1 : GState) (node : Node)
    (h : addType G c n g t = .ok (g1, node)) : addType G c (m+1) g1 t = .ok (g1, node) :=
  addType_of_lookup G c m g1 t node (addType_memo G c n g t g1 node h)

end Tfv
