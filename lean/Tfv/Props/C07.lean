import Tfv.Model
import Tfv.Generated
/-!
# C07 — each concept node carries its inferred type and all canonical supertypes
Statements about the predicate names are re-derived from /repo's current source on every run
(`Tfv.Generated` is rewritten by harness/gen_constants.py); the graph theorems are in `C07Graph`.
-/
namespace Tfv.C07
open Tfv

/-- every predicate the query generator tests is one the graph generator emits -/
theorem C07_queried_are_emitted : ∀ p ∈ Generated.queriedPredicates, p ∈ Generated.emittedPredicates := by decide

/-- the membership predicates the graph generator emits are the ones the published vocabulary declares -/
theorem C07_membership_in_vocabulary : ∀ p ∈ Generated.membershipPredicates, p ∈ Generated.vocabularyProperties := by decide

/-- … and they are the ones the query generator's pre-filter asks for -/
theorem C07_membership_queried : ∀ p ∈ Generated.membershipPredicates, p ∈ Generated.queriedPredicates := by decide

/-- the membership predicates are exactly `containsOperation` and `containsType` -/
theorem C07_membership_names : Generated.membershipPredicates = ["containsOperation", "containsType"] := by decide

end Tfv.C07
