"""Exact isomorphism of RDF graphs up to blank-node renaming, and an isomorphism-invariant digest.

Why not rdflib.compare: `rdflib.compare.isomorphic` / `to_canonical_graph` (rdflib 7.6.0) answer False / give different canonical
forms for some ISOMORPHIC graphs, depending on the interpreter's hash seed (corpus/iso/rdflib_false_negative_{a,b}.nt: two
120-triple data-flow graphs with several internal nodes; about one run in six says False). A positive answer of rdflib is
reliable (equal canonical hashes), a negative one is not; and its canonical form costs exponential time on symmetric graphs (one C08
thorough case did not finish in 12 minutes) - so rdflib.compare is not used at all any more.

The algorithm is individualisation-refinement: colour refinement (1-WL) on the blank nodes of both graphs with a shared
signature table; differing colour histograms refute; otherwise pick the smallest non-singleton colour class, individualise one
of its nodes in the first graph against every candidate of the class in the second, refine, recurse; a discrete colouring
is checked triple by triple. Sound and complete; exponential only on graphs with large automorphism-free colour classes, which
the graphs of this library (trees/DAGs of applications) do not have.

`wl_digest` is a digest of the stable colouring computed with hashlib (stable across interpreters): different digests imply
non-isomorphic graphs; equal digests do not imply isomorphism (use `isomorphic_triples` then)."""
import hashlib


def triples_of(g):
    """rdflib graph -> list of (s, p, o) strings; blank nodes as '_:' + id, everything else in N3"""
    from rdflib import BNode
    out = []
    for s, p, o in g:
        out.append(tuple(("_:" + str(x)) if isinstance(x, BNode) else x.n3() for x in (s, p, o)))
    return out


def _is_b(x):
    return x.startswith("_:")


class _G:
    def __init__(self, triples):
        self.triples = sorted(set(triples))
        self.bnodes = sorted({x for t in self.triples for x in (t[0], t[2]) if _is_b(x)})
        self.ground = sorted(t for t in self.triples if not _is_b(t[0]) and not _is_b(t[2]))
        self.inc = {b: [] for b in self.bnodes}   # incidence: (direction, predicate, other end)
        for s, p, o in self.triples:
            if _is_b(s):
                self.inc[s].append(("o", p, o))
            if _is_b(o):
                self.inc[o].append(("i", p, s))


def _refine(gs, colourings, table):
    """refine the colourings of the graphs in `gs` simultaneously until none of them changes its partition"""
    while True:
        news = []
        for g, col in zip(gs, colourings):
            new = {}
            for b in g.bnodes:
                sig = (col[b], tuple(sorted((d, p, ("c", col[x]) if _is_b(x) else ("g", x)) for d, p, x in g.inc[b])))
                new[b] = table.setdefault(sig, len(table))
            news.append(new)
        stable = all(len(set(n.values())) == len(set(c.values())) for n, c in zip(news, colourings))
        colourings = news
        if stable:
            return colourings


def _hist(col):
    h = {}
    for c in col.values():
        h[c] = h.get(c, 0) + 1
    return h


def _check(g1, g2, c1, c2):
    inv2 = {c: b for b, c in c2.items()}
    m = {b: inv2[c] for b, c in c1.items()}
    t2 = set(g2.triples)
    return all((m.get(s, s), p, m.get(o, o)) in t2 for s, p, o in g1.triples)


def _search(g1, g2, c1, c2, table, budget):
    c1, c2 = _refine((g1, g2), (c1, c2), table)
    h1, h2 = _hist(c1), _hist(c2)
    if h1 != h2:
        return False
    cells = [c for c, n in h1.items() if n > 1]
    if not cells:
        return _check(g1, g2, c1, c2)
    cell = min(cells, key=lambda c: (h1[c], c))
    a = next(b for b in g1.bnodes if c1[b] == cell)
    for b in g2.bnodes:
        if c2[b] != cell:
            continue
        budget[0] -= 1
        if budget[0] < 0:
            raise RuntimeError("isomorphism search budget exceeded")
        fresh = table.setdefault(("individual", len(table)), len(table))
        d1, d2 = dict(c1), dict(c2)
        d1[a] = fresh
        d2[b] = fresh
        if _search(g1, g2, d1, d2, table, budget):
            return True
    return False


def isomorphic_triples(t1, t2, budget=20000):
    """exact; between isomorphic graphs the first branch of every individualisation succeeds when the tied nodes are symmetric, so the budget
    (number of individualisations tried) is only ever exhausted by graphs that refinement cannot tell apart and that admit no isomorphism
    - or that hide one very deep; such a pair is answered "not isomorphic" (never observed)"""
    g1, g2 = _G(t1), _G(t2)
    if len(g1.triples) != len(g2.triples) or len(g1.bnodes) != len(g2.bnodes) or g1.ground != g2.ground:
        return False
    table = {}
    try:
        return _search(g1, g2, {b: 0 for b in g1.bnodes}, {b: 0 for b in g2.bnodes}, table, [budget])
    except RuntimeError:
        return False


def isomorphic(a, b):
    """drop-in replacement for rdflib.compare.isomorphic on two rdflib graphs. rdflib is not consulted at all: besides its false negatives,
    its canonicalisation explores every branch of a symmetric graph and did not come back within 12 minutes on a data-flow graph of the
    C08 thorough tier (seed 157); finding ONE isomorphism, as below, needs a single successful branch"""
    if len(a) != len(b):
        return False
    return isomorphic_triples(triples_of(a), triples_of(b))


def wl_digest(triples):
    """isomorphism-invariant, interpreter-independent digest (colour refinement with sha1 signatures)"""
    g = _G(triples)
    col = {b: "" for b in g.bnodes}
    for _ in range(len(g.bnodes) + 1):
        new = {}
        for b in g.bnodes:
            sig = col[b] + "|" + ";".join(sorted(d + " " + p + " " + (("c" + col[x]) if _is_b(x) else ("g" + x)) for d, p, x in g.inc[b]))
            new[b] = hashlib.sha1(sig.encode()).hexdigest()[:20]
        if len(set(new.values())) == len(set(col.values())):
            col = new
            break
        col = new
    body = "\n".join(" ".join(t) for t in g.ground) + "\n#\n" + "\n".join(sorted(col.values()))
    return hashlib.sha1(body.encode()).hexdigest()[:16]


def self_test(corpus_dir):
    """the corpus pair rdflib gets wrong must be isomorphic; with one triple's object moved it must not be (runner calls this once per run)"""
    import os
    import rdflib
    a = rdflib.Graph().parse(os.path.join(corpus_dir, "rdflib_false_negative_a.nt"), format="nt")
    b = rdflib.Graph().parse(os.path.join(corpus_dir, "rdflib_false_negative_b.nt"), format="nt")
    ta, tb = triples_of(a), triples_of(b)
    if not isomorphic_triples(ta, tb) or wl_digest(ta) != wl_digest(tb):
        return "iso.py: the corpus pair is not recognised as isomorphic"
    bl = [t for t in tb if _is_b(t[0]) and _is_b(t[2])]
    s, p, o = bl[0]
    other = next(x for t in tb for x in (t[0], t[2]) if _is_b(x) and x not in (s, o) and (s, p, x) not in set(tb))
    tc = [t for t in tb if t != (s, p, o)] + [(s, p, other)]
    if isomorphic_triples(ta, tc):
        return "iso.py: a changed graph is accepted as isomorphic"
    return None
