import Tfv.Proofs.WorkflowSourceTypesPlain
import Tfv.Proofs.WorkflowSourceTypes
/-!
# Class (a): no annotations, constraint-free signatures — `source_types` up to the listing order

For tool expressions without `:` and a plain operator table (`OpsPlain`), one application changes the state by
amounts that do not depend on the state (`cntStep`), fails with an error that does not depend on the state, and
records nothing. Hence a successful run of `sourceTypes` on one listing gives, for every other listing, a successful
run with the same counters, the same sizes and no recorded type: the results are `StEquiv`.
-/
namespace Tfv.C12P
open Tfv Tfv.C03P Tfv.C16P Tfv.C04P Tfv.ParseSim

/-! ## the inputs -/

def cMkInputs (n : Nat) (c : CState) : CState × List Unit := (⟨c.nv + n, c.nk + n, c.nsrc + n⟩, List.replicate n ())

/-- a source whose type is a variable -/
def IsVarSrc (e : TExpr) : Prop := ∃ i l v, e = TExpr.src i l (.var v)

theorem mkInputs_succ (n : Nat) (s : XState) :
    mkInputs (n+1) s = ((mkInputs n (mkSourceT s).1).1, (mkSourceT s).2 :: (mkInputs n (mkSourceT s).1).2) := rfl

theorem all2_trivial_mono {α β : Type} {Q Q' : α → Prop} (h : ∀ a, Q a → Q' a) {as : List α} {bs : List β}
    (hl : All2 (fun a _ => Q a) as bs) : All2 (fun a _ => Q' a) as bs := hl.imp (fun a _ ha => h a ha)

theorem mkInputs_cnt {K : Nat} : ∀ (n : Nat) (s : XState) (c : CState), SizeOf K s c →
    SizeOf K (mkInputs n s).1 (cMkInputs n c).1 ∧ XIStep s (mkInputs n s).1 ∧
    All2 (fun e (_ : Unit) => NodeOk (mkInputs n s).1.store e ∧ IsVarSrc e) (mkInputs n s).2 (cMkInputs n c).2
  | 0, s, c, h => by
    refine ⟨?_, fun _ hv => hv, .nil⟩
    show SizeOf K s ⟨c.nv + 0, c.nk + 0, c.nsrc + 0⟩
    exact ⟨h.nv, h.nk, h.nsrc, h.nc⟩
  | n+1, s, c, h => by
    have h1 : SizeOf K (mkSourceT s).1 ⟨c.nv + 1, c.nk + 1, c.nsrc + 1⟩ := by
      rw [mkSourceT_eq]
      exact ⟨by show (newVar s.store true).1.vars.length = _; rw [length_newVar, h.nv],
        by show (newVar s.store true).1.csets.length = _; rw [csets_newVar, h.nk],
        by show s.nsrc + 1 = _; rw [h.nsrc], h.nc⟩
    have st1 : XIStep s (mkSourceT s).1 := by rw [mkSourceT_eq]; exact istep_newVar _ _
    have q1 : NodeOk (mkSourceT s).1.store (mkSourceT s).2 := by rw [mkSourceT_eq]; exact tyOk_fresh _ _
    obtain ⟨h2, st2, l2⟩ := mkInputs_cnt n (mkSourceT s).1 _ h1
    rw [mkInputs_succ]
    refine ⟨?_, fun v hv => st2 v (st1 v hv), ?_⟩
    · show SizeOf K _ ⟨c.nv + (n+1), c.nk + (n+1), c.nsrc + (n+1)⟩
      have e : (⟨c.nv + (n+1), c.nk + (n+1), c.nsrc + (n+1)⟩ : CState) = ⟨c.nv + 1 + n, c.nk + 1 + n, c.nsrc + 1 + n⟩ := by
        congr 1 <;> omega
      rw [e]; exact h2
    · show All2 _ _ (() :: List.replicate n ())
      exact .cons ⟨nodeOk_mono st2 q1, by rw [mkSourceT_eq]; exact ⟨_, _, _, rfl⟩⟩ l2

/-! ## one application -/

/-- what one application allocates, or the error of its tool expression -/
def cntStep (P : PLang) (ops : List OperatorDecl) (a : WfApp) (c : CState) : Except PErr CState :=
  match parseExprToks P (cntBuilder P.types ops) (cMkInputs a.inputs.length c).2 (cMkInputs a.inputs.length c).1 a.toks with
  | .error e => .error e
  | .ok (c1, _) => .ok c1

theorem foldl_recordUse_skip (w : Wf) (L : Lang) (σ3 : Store) : ∀ (zs : List (Nat × TExpr)) (acc : List (Nat × Term)),
    (∀ p, p ∈ zs → ∃ v, followT σ3 p.2.ty = .var v) → zs.foldl (recordUse w L σ3) acc = acc
  | [], _, _ => rfl
  | p :: zs, acc, h => by
    obtain ⟨v, hv⟩ := h p List.mem_cons_self
    rw [List.foldl_cons, recordUse_skip_var w L σ3 acc p v hv]
    exact foldl_recordUse_skip w L σ3 zs acc (fun q hq => h q (List.mem_cons_of_mem _ hq))

theorem all2_mem_left {α β : Type} {R : α → β → Prop} : ∀ {as : List α} {bs : List β}, All2 R as bs →
    ∀ a, a ∈ as → ∃ b, R a b
  | _, _, .cons hab t, a, ha => by
    rcases List.mem_cons.mp ha with e | e
    · subst e; exact ⟨_, hab⟩
    · exact all2_mem_left t a e

/-- **one application of a plain workflow**: the error of its tool expression, or a state whose sizes are the
counters of `cntStep`; nothing is recorded -/
theorem sourceTypes_step_plain (P : PLang) {ops : List OperatorDecl} (hops : OpsPlain P.types ops) (w : Wf) {K : Nat}
    {s : XState} {c : CState} (h : SizeOf K s c) (a : WfApp) (hno : ":" ∉ a.toks) (acc : List (Nat × Term)) :
    (∃ e, cntStep P ops a c = .error e ∧
      ∀ rest, sourceTypes P ops w s (a :: rest) acc = .error (.composition e)) ∨
    (∃ c1 s1, cntStep P ops a c = .ok c1 ∧ SizeOf K s1 c1 ∧
      ∀ rest, sourceTypes P ops w s (a :: rest) acc = sourceTypes P ops w s1 rest acc) := by
  obtain ⟨h1, st1, l1⟩ := mkInputs_cnt a.inputs.length s c h
  have hsim := parseExprToks_sim (untyped_cnt_sim P hops K) h1 (all2_trivial_mono (fun _ hq => hq.1) l1) a.toks (Or.inr hno)
  unfold cntStep
  cases hp : parseExprToks P (untypedBuilder P.types ops) (mkInputs a.inputs.length s).2 (mkInputs a.inputs.length s).1 a.toks with
  | error e =>
    rw [hp] at hsim
    rw [hsim trivial]
    refine .inl ⟨e, rfl, fun rest => ?_⟩
    rw [sourceTypes_cons, hp]
  | ok q =>
    obtain ⟨s2, e⟩ := q
    rw [hp] at hsim
    obtain ⟨c2, u, hc, h2, st2, he⟩ := hsim
    rw [hc]
    refine .inr ⟨c2, s2, rfl, h2, fun rest => ?_⟩
    obtain ⟨e', hfix⟩ := fixExpr_nodeOk (L := P.types) e he
    rw [sourceTypes_cons, hp]
    simp only [hfix]
    rw [foldl_recordUse_skip]
    intro p hp
    have hm : p.2 ∈ (mkInputs a.inputs.length s).2 := (List.of_mem_zip hp).2
    obtain ⟨_, hq, i, l, v, hv⟩ := all2_mem_left l1 p.2 hm
    rw [hv] at hq
    have hin : Inert s2.store v := st2 v (hq.1 v VarIn.var)
    exact ⟨v, by rw [hv]; exact followT_unbound hin.1⟩

/-! ## all applications -/

def cntFold (P : PLang) (ops : List OperatorDecl) : CState → List WfApp → Except PErr CState
  | c, [] => .ok c
  | c, a :: rest =>
    match cntStep P ops a c with
    | .error e => .error e
    | .ok c1 => cntFold P ops c1 rest

theorem cntFold_cons (P : PLang) (ops : List OperatorDecl) (c : CState) (a : WfApp) (rest : List WfApp) :
    cntFold P ops c (a :: rest) = match cntStep P ops a c with
      | .error e => .error e
      | .ok c1 => cntFold P ops c1 rest := rfl

theorem sourceTypes_fold_plain (P : PLang) {ops : List OperatorDecl} (hops : OpsPlain P.types ops) (w : Wf) {K : Nat}
    (acc : List (Nat × Term)) : ∀ (apps : List WfApp) (s : XState) (c : CState), SizeOf K s c →
    (∀ a, a ∈ apps → ":" ∉ a.toks) →
    (∃ e, cntFold P ops c apps = .error e ∧ sourceTypes P ops w s apps acc = .error (.composition e)) ∨
    (∃ c' s', cntFold P ops c apps = .ok c' ∧ SizeOf K s' c' ∧ sourceTypes P ops w s apps acc = .ok (s', acc))
  | [], s, c, h, _ => .inr ⟨c, s, rfl, h, sourceTypes_nil P ops w s acc⟩
  | a :: rest, s, c, h, hno => by
    rcases sourceTypes_step_plain P hops w h a (hno a List.mem_cons_self) acc with
      ⟨e, h1, h2⟩ | ⟨c1, s1, h1, hs1, h2⟩
    · exact .inl ⟨e, by rw [cntFold_cons, h1], h2 rest⟩
    · rw [cntFold_cons, h1, h2 rest]
      exact sourceTypes_fold_plain P hops w acc rest s1 c1 hs1 (fun b hb => hno b (List.mem_cons_of_mem _ hb))

/-! ## the counters do not depend on where one starts, nor on the order -/

theorem all2_replicate (n : Nat) : All2 (fun (_ _ : Unit) => True) (List.replicate n ()) (List.replicate n ()) := by
  induction n with
  | zero => exact .nil
  | succ n ih => exact .cons trivial ih

theorem CState.add_assoc' (a b c : CState) : (a.add b).add c = a.add (b.add c) := by
  simp only [CState.add]; congr 1 <;> omega

theorem CState.add_left_comm (a b c : CState) : a.add (b.add c) = b.add (a.add c) := by
  simp only [CState.add]; congr 1 <;> omega

theorem cntStep_add (P : PLang) (ops : List OperatorDecl) (a : WfApp) (hno : ":" ∉ a.toks) (c d : CState) :
    cntStep P ops a (c.add d) = match cntStep P ops a c with
      | .error e => .error e
      | .ok c1 => .ok (c1.add d) := by
  have h0 : (cMkInputs a.inputs.length (c.add d)).1 = (cMkInputs a.inputs.length c).1.add d := by
    simp only [cMkInputs, CState.add]; congr 1 <;> omega
  have hsim := parseExprToks_sim (cnt_cnt_sim P ops d) (st0 := (cMkInputs a.inputs.length c).1) h0
    (all2_replicate a.inputs.length) a.toks (Or.inr hno)
  have hi2 : ∀ c', (cMkInputs a.inputs.length c').2 = List.replicate a.inputs.length () := fun _ => rfl
  unfold cntStep
  simp only [hi2]
  cases hp : parseExprToks P (cntBuilder P.types ops) (List.replicate a.inputs.length ()) (cMkInputs a.inputs.length c).1 a.toks with
  | error e =>
    rw [hp] at hsim
    rw [hsim trivial]
  | ok q =>
    obtain ⟨c1, u⟩ := q
    rw [hp] at hsim
    obtain ⟨c1', u', hc, hr, _, _⟩ := hsim
    rw [hc, hr]

def czero : CState := ⟨0, 0, 0⟩

theorem czero_add (c : CState) : czero.add c = c := by
  simp only [czero, CState.add]
  cases c
  simp

/-- the amounts an application allocates, whatever the state -/
theorem cntStep_delta (P : PLang) (ops : List OperatorDecl) (a : WfApp) (hno : ":" ∉ a.toks) (c : CState) :
    cntStep P ops a c = match cntStep P ops a czero with
      | .error e => .error e
      | .ok δ => .ok (δ.add c) := by
  have := cntStep_add P ops a hno czero c
  rw [czero_add] at this
  exact this

theorem cntFold_perm (P : PLang) (ops : List OperatorDecl) {l l' : List WfApp} (hp : l.Perm l') :
    (∀ a, a ∈ l → ":" ∉ a.toks) → ∀ c c', cntFold P ops c l = .ok c' → cntFold P ops c l' = .ok c' := by
  induction hp with
  | nil => intro _ c c' h; exact h
  | cons a _ ih =>
    intro hno c c' h
    rw [cntFold_cons] at h ⊢
    cases h1 : cntStep P ops a c with
    | error e => rw [h1] at h; cases h
    | ok c1 =>
      rw [h1] at h
      exact ih (fun b hb => hno b (List.mem_cons_of_mem _ hb)) c1 c' h
  | swap a b l =>
    intro hno c c' h
    have ha : ":" ∉ a.toks := hno a (List.mem_cons_of_mem _ List.mem_cons_self)
    have hb : ":" ∉ b.toks := hno b List.mem_cons_self
    simp only [cntFold_cons] at h ⊢
    rw [cntStep_delta P ops b hb c] at h
    rw [cntStep_delta P ops a ha c]
    cases hδb : cntStep P ops b czero with
    | error e => rw [hδb] at h; cases h
    | ok δb =>
      rw [hδb] at h
      simp only [] at h
      rw [cntStep_delta P ops a ha (δb.add c)] at h
      cases hδa : cntStep P ops a czero with
      | error e => rw [hδa] at h; cases h
      | ok δa =>
        rw [hδa] at h
        simp only [] at h ⊢
        rw [cntStep_delta P ops b hb (δa.add c), hδb]
        simp only []
        rw [CState.add_left_comm δb δa c]
        exact h
  | trans hp1 _ ih1 ih2 =>
    intro hno c c' h
    exact ih2 (fun a ha => hno a (hp1.mem_iff.mpr ha)) c c' (ih1 hno c c' h)

/-! ## the listing order -/

/-- **Class (a).** For a plain operator table and tool expressions without annotation: if `source_types` succeeds on
one listing, it succeeds on every other listing of the same applications, and the two results are equivalent (the
same counters and sizes, nothing recorded). -/
theorem sourceTypes_plain_perm (P : PLang) {ops : List OperatorDecl} (hops : OpsPlain P.types ops) (w₁ w₂ : Wf)
    (hp : w₁.apps.Perm w₂.apps) (hno : ∀ a, a ∈ w₁.apps → ":" ∉ a.toks)
    (hok : (sourceTypes P ops w₁ {} w₁.apps []).toOption.isSome = true) :
    StEquiv (sourceTypes P ops w₁ {} w₁.apps []) (sourceTypes P ops w₂ {} w₂.apps []) := by
  have h0 : SizeOf 0 ({} : XState) czero := ⟨rfl, rfl, rfl, rfl⟩
  rcases sourceTypes_fold_plain P hops w₁ [] w₁.apps {} czero h0 hno with ⟨e, _, h2⟩ | ⟨c1, s1, hc1, hs1, h1⟩
  · rw [h2] at hok; cases hok
  have hc2 := cntFold_perm P ops hp hno czero c1 hc1
  rcases sourceTypes_fold_plain P hops w₂ [] w₂.apps {} czero h0 (fun a ha => hno a (hp.mem_iff.mpr ha)) with
    ⟨e, h3, _⟩ | ⟨c2, s2, hc2', hs2, h2⟩
  · rw [hc2] at h3; cases h3
  rw [hc2] at hc2'
  injection hc2' with hc
  subst hc
  rw [h1, h2]
  exact ⟨by rw [hs2.nsrc, hs1.nsrc], by rw [hs2.nv, hs1.nv], by rw [hs2.nk, hs1.nk], by rw [hs2.nc, hs1.nc], rfl,
    fun _ hq => nomatch hq⟩

theorem opsOkC_of_plain {L : Lang} {ops : List OperatorDecl} (h : OpsPlain L ops) : C04C.OpsOkC L ops :=
  C04C.opsOkC_of_opsOk (fun d hd => ⟨(h d hd).1, (h d hd).2.1⟩)

/-- **C12 order for class (a)**: no hypothesis about the other listing. -/
theorem addWorkflow_perm_plain {P : PLang} (ha : AliasesOk P) {ops : List OperatorDecl} (hops : OpsPlain P.types ops)
    (G : GLang) (c : GCfg) (pt : Bool) (w₁ w₂ : Wf) (hp : w₁.apps.Perm w₂.apps) (hn : (w₁.apps.map (·.out)).Nodup)
    (hs : w₁.sources = w₂.sources) (hnm : w₁.names = w₂.names)
    (hno : ∀ a, a ∈ w₁.apps → ":" ∉ a.toks)
    (hok : (sourceTypes P ops w₁ {} w₁.apps []).toOption.isSome = true) :
    addWorkflow P G ops c pt w₁ = addWorkflow P G ops c pt w₂ :=
  addWorkflow_perm_equiv ha (opsOkC_of_plain hops) G c pt w₁ w₂ hp hn hs hnm
    (sourceTypes_plain_perm P hops w₁ w₂ hp hno hok)

end Tfv.C12P
