import Tfv.Model.Closure
/-!
# Helper lemmas for C09 (`depends` = transitive closure of `from`)

`TC'` is a copy of the transitive-closure relation of `Tfv.Props.C09`
(the statement file defines its own `TC`; the two are shown equivalent there).
-/
namespace Tfv

/-- one or more edges of `r` -/
inductive TC' (r : Rel) : Nat → Nat → Prop
  | base {a b} : (a, b) ∈ r → TC' r a b
  | step {a b c} : (a, b) ∈ r → TC' r b c → TC' r a c

def Closed' (g : FD) : Prop := ∀ s t, (s, t) ∈ g.dep ↔ TC' g.frm s t

namespace TC'

theorem trans {r : Rel} {a b c : Nat} (h₁ : TC' r a b) (h₂ : TC' r b c) : TC' r a c := by
  induction h₁ with
  | base hm => exact .step hm h₂
  | step hm _ ih => exact .step hm (ih h₂)

theorem mono {r r' : Rel} (hsub : ∀ p, p ∈ r → p ∈ r') {a b : Nat} (h : TC' r a b) :
    TC' r' a b := by
  induction h with
  | base hm => exact .base (hsub _ hm)
  | step hm _ ih => exact .step (hsub _ hm) ih

theorem cons {r : Rel} {e : Nat × Nat} {a b : Nat} (h : TC' r a b) : TC' (e :: r) a b :=
  h.mono (fun _ hp => List.mem_cons_of_mem _ hp)

/-- Every path in `f ∪ {(a,b)}` either avoids the new edge or splits at its first and
last use. -/
theorem cons_split {f : Rel} {a b s t : Nat} (h : TC' ((a, b) :: f) s t) :
    TC' f s t ∨ ((s = a ∨ TC' f s a) ∧ (t = b ∨ TC' f b t)) := by
  induction h with
  | @base x y hm =>
    rcases List.mem_cons.1 hm with he | hm
    · cases he; exact .inr ⟨.inl rfl, .inl rfl⟩
    · exact .inl (.base hm)
  | @step x y z hm0 _ ih =>
    rcases List.mem_cons.1 hm0 with he | hm
    · cases he
      rcases ih with h | ⟨_, ht⟩
      · exact .inr ⟨.inl rfl, .inr h⟩
      · exact .inr ⟨.inl rfl, ht⟩
    · rcases ih with h | ⟨hs, ht⟩
      · exact .inl (.step hm h)
      · refine .inr ⟨.inr ?_, ht⟩
        rcases hs with rfl | hs
        · exact .base hm
        · exact .step hm hs

end TC'

/-! ## membership lemmas -/

theorem mem_objectsOf {r : Rel} {b y : Nat} : y ∈ objectsOf r b ↔ (b, y) ∈ r := by
  unfold objectsOf
  simp only [List.mem_map, List.mem_filter, beq_iff_eq]
  constructor
  · rintro ⟨⟨p1, p2⟩, ⟨hm, h1⟩, h2⟩
    simp only at h1 h2
    subst h1; subst h2; exact hm
  · intro h; exact ⟨(b, y), ⟨h, rfl⟩, rfl⟩

theorem mem_subjectsOf {r : Rel} {a x : Nat} : x ∈ subjectsOf r a ↔ (x, a) ∈ r := by
  unfold subjectsOf
  simp only [List.mem_map, List.mem_filter, beq_iff_eq]
  constructor
  · rintro ⟨⟨p1, p2⟩, ⟨hm, h1⟩, h2⟩
    simp only at h1 h2
    subst h1; subst h2; exact hm
  · intro h; exact ⟨(x, a), ⟨h, rfl⟩, rfl⟩

theorem mem_crossAdd {d : Rel} {srcs tgts : List Nat} {s t : Nat} :
    (s, t) ∈ crossAdd d srcs tgts ↔ (s, t) ∈ d ∨ (s ∈ srcs ∧ t ∈ tgts) := by
  unfold crossAdd
  simp only [List.mem_append, List.mem_filter, List.mem_eraseDups, List.mem_flatMap, List.mem_map,
    Prod.mk.injEq, Bool.not_eq_true', List.contains_eq_mem, decide_eq_false_iff_not]
  constructor
  · rintro (h | ⟨⟨s', hs, t', ht, rfl, rfl⟩, _⟩)
    · exact .inl h
    · exact .inr ⟨hs, ht⟩
  · rintro (h | ⟨hs, ht⟩)
    · exact .inl h
    · by_cases hd : (s, t) ∈ d
      · exact .inl hd
      · exact .inr ⟨⟨s, hs, t, ht, rfl, rfl⟩, hd⟩

/-! ## the fuelled BFS -/

/-- the nodes discovered in one round -/
def nextOf (f : Rel) (frontier seen : List Nat) : List Nat :=
  (frontier.flatMap (objectsOf f)).eraseDups.filter (fun x => !seen.contains x)

theorem mem_nextOf {f : Rel} {frontier seen : List Nat} {y : Nat} :
    y ∈ nextOf f frontier seen ↔ (∃ x, x ∈ frontier ∧ (x, y) ∈ f) ∧ y ∉ seen := by
  unfold nextOf
  simp only [List.mem_filter, List.mem_eraseDups, List.mem_flatMap, mem_objectsOf,
    Bool.not_eq_true', List.contains_eq_mem, decide_eq_false_iff_not]

theorem reachFrom_zero (f : Rel) (frontier seen : List Nat) :
    reachFrom f 0 frontier seen = seen := rfl

theorem reachFrom_succ (f : Rel) (fuel : Nat) (frontier seen : List Nat) :
    reachFrom f (fuel + 1) frontier seen =
      if (nextOf f frontier seen).isEmpty then seen
      else reachFrom f fuel (nextOf f frontier seen) (seen ++ nextOf f frontier seen) := rfl

/-- soundness: the BFS only returns seen nodes or nodes reachable from the frontier -/
theorem reachFrom_sound (f : Rel) : ∀ (fuel : Nat) (frontier seen : List Nat) (x : Nat),
    x ∈ reachFrom f fuel frontier seen → x ∈ seen ∨ ∃ s, s ∈ frontier ∧ TC' f s x := by
  intro fuel
  induction fuel with
  | zero => intro frontier seen x hx; exact .inl hx
  | succ n ih =>
    intro frontier seen x hx
    rw [reachFrom_succ] at hx
    split at hx
    · exact .inl hx
    · rcases ih _ _ _ hx with h | ⟨s, hs, hsx⟩
      · rcases List.mem_append.1 h with h | h
        · exact .inl h
        · obtain ⟨⟨w, hw, hwx⟩, _⟩ := mem_nextOf.1 h
          exact .inr ⟨w, hw, .base hwx⟩
      · obtain ⟨⟨w, hw, hws⟩, _⟩ := mem_nextOf.1 hs
        exact .inr ⟨w, hw, .step hws hsx⟩

/-- a stronger filter with one witness strictly shrinks the filtered list -/
theorem length_filter_lt {α : Type} (p q : α → Bool) (l : List α)
    (himp : ∀ x, p x = true → q x = true) (y : α) (hy : y ∈ l) (hq : q y = true)
    (hp : p y = false) : (l.filter p).length < (l.filter q).length := by
  induction l with
  | nil => cases hy
  | cons z zs ih =>
    have hle : (zs.filter p).length ≤ (zs.filter q).length := by
      clear ih hy
      induction zs with
      | nil => simp
      | cons w ws ihw =>
        simp only [List.filter_cons]
        cases hpw : p w with
        | true => rw [himp _ hpw]; simpa using ihw
        | false =>
          cases hqw : q w with
          | true => simp only [Bool.false_eq_true, if_false, if_true, List.length_cons]; omega
          | false => simpa using ihw
    rcases List.mem_cons.1 hy with rfl | hy
    · simp only [List.filter_cons, hp, hq, Bool.false_eq_true, if_false, if_true,
        List.length_cons]
      omega
    · have := ih hy
      simp only [List.filter_cons]
      cases hpz : p z with
      | true => rw [himp _ hpz]; simpa using this
      | false =>
        cases hqz : q z with
        | true => simp only [Bool.false_eq_true, if_false, if_true, List.length_cons]; omega
        | false => simpa using this

/-- number of edges whose target has not been seen yet (the fuel measure) -/
def unseen (f : Rel) (seen : List Nat) : Nat :=
  (f.filter (fun p => !seen.contains p.2)).length

theorem unseen_lt {f : Rel} {seen frontier : List Nat} {y : Nat}
    (hy : y ∈ nextOf f frontier seen) :
    unseen f (seen ++ nextOf f frontier seen) < unseen f seen := by
  obtain ⟨⟨w, _, hwy⟩, hns⟩ := mem_nextOf.1 hy
  unfold unseen
  apply length_filter_lt _ _ f _ (w, y) hwy
  · simpa using hns
  · simp only [Bool.not_eq_false', List.contains_eq_mem, decide_eq_true_eq, List.mem_append]
    exact .inr hy
  · intro p hp
    simp only [Bool.not_eq_true', List.contains_eq_mem, decide_eq_false_iff_not,
      List.mem_append, not_or] at hp ⊢
    exact hp.1

/-- completeness: with enough fuel, the result contains `seen` and is closed under
successors -/
theorem reachFrom_complete (f : Rel) : ∀ (fuel : Nat) (frontier seen : List Nat),
    unseen f seen < fuel →
    (∀ x, x ∈ seen → x ∉ frontier → ∀ y, (x, y) ∈ f → y ∈ seen) →
    (∀ x, x ∈ seen → x ∈ reachFrom f fuel frontier seen) ∧
    (∀ x, x ∈ reachFrom f fuel frontier seen → ∀ y, (x, y) ∈ f →
      y ∈ reachFrom f fuel frontier seen) := by
  intro fuel
  induction fuel with
  | zero => intro frontier seen h; exact absurd h (Nat.not_lt_zero _)
  | succ n ih =>
    intro frontier seen hfuel hinv
    rw [reachFrom_succ]
    split
    · rename_i hemp
      have hnil : nextOf f frontier seen = [] := List.isEmpty_iff.1 hemp
      refine ⟨fun x hx => hx, ?_⟩
      intro x hx y hxy
      by_cases hxf : x ∈ frontier
      · by_cases hys : y ∈ seen
        · exact hys
        · have : y ∈ nextOf f frontier seen := mem_nextOf.2 ⟨⟨x, hxf, hxy⟩, hys⟩
          rw [hnil] at this; cases this
      · exact hinv x hx hxf y hxy
    · rename_i hemp
      have hne : nextOf f frontier seen ≠ [] := fun h => hemp (List.isEmpty_iff.2 h)
      obtain ⟨y0, hy0⟩ := List.exists_mem_of_ne_nil _ hne
      have hlt := unseen_lt hy0
      have hfuel' : unseen f (seen ++ nextOf f frontier seen) < n := by omega
      have hinv' : ∀ x, x ∈ seen ++ nextOf f frontier seen → x ∉ nextOf f frontier seen →
          ∀ y, (x, y) ∈ f → y ∈ seen ++ nextOf f frontier seen := by
        intro x hx hxn y hxy
        have hxs : x ∈ seen := by
          rcases List.mem_append.1 hx with h | h
          · exact h
          · exact absurd h hxn
        by_cases hxf : x ∈ frontier
        · by_cases hys : y ∈ seen
          · exact List.mem_append.2 (.inl hys)
          · exact List.mem_append.2 (.inr (mem_nextOf.2 ⟨⟨x, hxf, hxy⟩, hys⟩))
        · exact List.mem_append.2 (.inl (hinv x hxs hxf y hxy))
      obtain ⟨h1, h2⟩ := ih _ _ hfuel' hinv'
      exact ⟨fun x hx => h1 x (List.mem_append.2 (.inl hx)), h2⟩

theorem unseen_le (f : Rel) (seen : List Nat) : unseen f seen ≤ f.length :=
  List.length_filter_le _ _

/-- `transitive_objects(b, from)`: `b` and everything reachable from it -/
theorem mem_transitiveObjects (f : Rel) (b x : Nat) :
    x ∈ transitiveObjects f b ↔ (x = b ∨ TC' f b x) := by
  unfold transitiveObjects
  constructor
  · intro h
    rcases reachFrom_sound f _ _ _ _ h with h | ⟨s, hs, hsx⟩
    · exact .inl (List.mem_singleton.1 h)
    · rw [List.mem_singleton.1 hs] at hsx; exact .inr hsx
  · have hfuel : unseen f [b] < f.length + 1 := Nat.lt_succ_of_le (unseen_le _ _)
    have hinv : ∀ x, x ∈ [b] → x ∉ [b] → ∀ y, (x, y) ∈ f → y ∈ [b] :=
      fun x hx hnx => absurd hx hnx
    obtain ⟨h1, h2⟩ := reachFrom_complete f _ [b] [b] hfuel hinv
    have hb := h1 b (List.mem_singleton.2 rfl)
    have hreach : ∀ {u v}, TC' f u v → u ∈ reachFrom f (f.length + 1) [b] [b] →
        v ∈ reachFrom f (f.length + 1) [b] [b] := by
      intro u v huv
      induction huv with
      | base hm => intro hu; exact h2 _ hu _ hm
      | step hm _ ih => intro hu; exact ih (h2 _ hu _ hm)
    rintro (rfl | h)
    · exact hb
    · exact hreach h hb

/-! ## `add_from` keeps `depends = TC(from)` -/

/-- adding the edge `(a,b)`: the new closure is the old one plus
`({a} ∪ pred a) × ({b} ∪ succ b)` -/
theorem TC'_cons_iff {f : Rel} {a b s t : Nat} :
    TC' ((a, b) :: f) s t ↔
      TC' f s t ∨ ((s = a ∨ TC' f s a) ∧ (t = b ∨ TC' f b t)) := by
  constructor
  · exact TC'.cons_split
  · rintro (h | ⟨hs, ht⟩)
    · exact h.cons
    · have hab : TC' ((a, b) :: f) a b := .base (List.mem_cons_self ..)
      have hsb : TC' ((a, b) :: f) s b := by
        rcases hs with rfl | hs
        · exact hab
        · exact hs.cons.trans hab
      rcases ht with rfl | ht
      · exact hsb
      · exact hsb.trans ht.cons

/-- the targets of the recursive branch are, up to membership, those of the plain branch -/
theorem recursive_targets {f : Rel} {a b t : Nat} :
    (t = b ∨ TC' ((a, b) :: f) b t) ↔ (t = b ∨ TC' f b t) := by
  constructor
  · rintro (h | h)
    · exact .inl h
    · rcases TC'.cons_split h with h | ⟨_, h⟩
      · exact .inr h
      · exact h
  · rintro (h | h)
    · exact .inl h
    · exact .inr h.cons

theorem addFrom_closed (g : FD) (a b : Nat) (recursive : Bool) (h : Closed' g) :
    Closed' (addFrom g a b recursive) := by
  intro s t
  show (s, t) ∈ crossAdd g.dep (a :: subjectsOf g.dep a)
      (b :: (if recursive = true then transitiveObjects ((a, b) :: g.frm) b
        else objectsOf g.dep b)) ↔ TC' ((a, b) :: g.frm) s t
  rw [mem_crossAdd, TC'_cons_iff, h s t]
  have hsrc : s ∈ a :: subjectsOf g.dep a ↔ (s = a ∨ TC' g.frm s a) := by
    rw [List.mem_cons, mem_subjectsOf, h s a]
  have htgt : t ∈ (b :: (if recursive = true then transitiveObjects ((a, b) :: g.frm) b
        else objectsOf g.dep b)) ↔ (t = b ∨ TC' g.frm b t) := by
    rw [List.mem_cons]
    cases recursive with
    | false =>
      simp only [Bool.false_eq_true, if_false]
      rw [mem_objectsOf, h b t]
    | true =>
      simp only [if_true]
      rw [mem_transitiveObjects, recursive_targets]
      constructor
      · rintro (h | h)
        · exact .inl h
        · exact h
      · exact fun h => .inr h
  rw [hsrc, htgt]

theorem closed_empty : Closed' {} := by
  intro s t
  constructor
  · intro h; cases h
  · intro h; cases h with
    | base hm => cases hm
    | step hm _ => cases hm

theorem foldl_closed (es : List (Nat × Nat × Bool)) (g : FD) (h : Closed' g) :
    Closed' (es.foldl (fun g e => addFrom g e.1 e.2.1 e.2.2) g) := by
  induction es generalizing g with
  | nil => exact h
  | cons e es ih => exact ih _ (addFrom_closed g e.1 e.2.1 e.2.2 h)

end Tfv
