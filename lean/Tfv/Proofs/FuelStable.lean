import Tfv.Proofs.HistoryConstrTop
import Tfv.Proofs.InferNoInternalTop
/-!
# The store-size fuels suffice on shallow terms: the fuelled helpers do not depend on the fuel offsets (C16, depth form)

`followTE kv`, `match3E L kv`, `occursE L kv`, `directVarsE kv`, `indirectVarsE kv`, `varsOfTermsE kv kc`
(Spec/HistoryShiftConstr.lean) are the fuelled helpers of the model with the store-size fuels computed as behind `kv`
more variables and `kc` more constraints. Here: once the fuel suffices at offset `0`, the offsets change nothing.

* `followTE`: the binding chains of the store end (`FuelOk σ`, equivalently `Chains σ`).
* `match3E`, `occursE`, `directVarsE`: the RESOLVED depth of the term walked is below the fuel (`RDepth σ d t`: the term
  `t` with all bindings of `σ` substituted is nested at most `d` operators deep). For `match3E` ONE shallow side is
  enough: the two terms are walked in lockstep.
* `indirectVarsE`: the worklist ran empty within the fuel (`closedWithin`, decidable).
-/
namespace Tfv.C16D
open Tfv Tfv.C03P Tfv.C16P Tfv.C03C Tfv.C16C Tfv.C18P Tfv.C16H Tfv.C17E

/-! ## 1. `followT` -/

theorem followTE_eq {σ : Store} (hf : FuelOk σ) (kv : Nat) (t : Term) : followTE kv σ t = followT σ t := by
  unfold followTE
  rw [Nat.add_right_comm]
  exact follow_final_more (σ.vars.length + 1) kv t (hf t)

theorem followT_idem {σ : Store} (hf : FuelOk σ) (t : Term) : followT σ (followT σ t) = followT σ t :=
  follow_of_final (hf t) _

/-! ## 2. resolved depth -/

/-- `RDepth σ d t`: the term `t`, read through the bindings of `σ`, is nested at most `d` operators deep (an unresolved
variable has depth `0`, a constant depth `1`) -/
inductive RDepth (σ : Store) : Nat → Term → Prop
  | var {d : Nat} {t : Term} {v : Nat} : followT σ t = .var v → RDepth σ d t
  | app {d : Nat} {t : Term} {o : Nat} {args : List Term} :
      followT σ t = .app o args → (∀ a, a ∈ args → RDepth σ d a) → RDepth σ (d + 1) t

theorem RDepth.mono {σ : Store} : ∀ {d : Nat} {t : Term}, RDepth σ d t → ∀ {e : Nat}, d ≤ e → RDepth σ e t := by
  intro d t h
  induction h with
  | var hv => intro e _; exact .var hv
  | app ha _ ih =>
    intro e he
    obtain ⟨e', rfl⟩ : ∃ e', e = e' + 1 := ⟨e - 1, by omega⟩
    exact .app ha (fun a hm => ih a hm (by omega))

theorem RDepth.args {σ : Store} {d : Nat} {t : Term} {o : Nat} {args : List Term} (h : RDepth σ d t)
    (e : followT σ t = .app o args) : ∃ d', d = d' + 1 ∧ ∀ a, a ∈ args → RDepth σ d' a := by
  cases h with
  | var hv => rw [e] at hv; cases hv
  | app ha hs =>
    rw [e] at ha
    injection ha with h1 h2
    subst h2
    exact ⟨_, rfl, hs⟩

theorem RDepth.followed {σ : Store} (hf : FuelOk σ) {d : Nat} {t : Term} (h : RDepth σ d t) :
    RDepth σ d (followT σ t) := by
  cases h with
  | var hv => exact .var (by rw [followT_idem hf]; exact hv)
  | app ha hs => exact .app (by rw [followT_idem hf]; exact ha) hs

/-! ## 3. `match3` -/

theorem loopE_congr {f g : Term → Term → Option Bool} : ∀ (vs : List Bool) (ss ts : List Term) (acc : Option Bool),
    (∀ s t, s ∈ ss → t ∈ ts → f s t = g s t ∧ f t s = g t s) → loopE f vs ss ts acc = loopE g vs ss ts acc
  | [], _, _, _, _ => by rw [loopE, loopE] <;> (intros; simp_all)
  | _ :: _, [], _, _, _ => by rw [loopE, loopE] <;> (intros; simp_all)
  | _ :: _, _ :: _, [], _, _ => by rw [loopE, loopE] <;> (intros; simp_all)
  | v :: vs, s :: ss, t :: ts, acc, h => by
    rw [loopE, loopE]
    have h1 := h s t (List.mem_cons_self) (List.mem_cons_self)
    have ih : ∀ acc, loopE f vs ss ts acc = loopE g vs ss ts acc := fun acc =>
      loopE_congr vs ss ts acc (fun s' t' hs ht => h s' t' (List.mem_cons_of_mem _ hs) (List.mem_cons_of_mem _ ht))
    rw [h1.1, h1.2]
    simp only [ih]

/-- `match3` on terms ONE of which is resolved-shallow: any two fuels above the depth and any offset give the same -/
theorem match3E_stable (L : Lang) {σ : Store} (hf : FuelOk σ) (kv : Nat) : ∀ (n m d : Nat) (st aw : Bool) (a b : Term),
    RDepth σ d a ∨ RDepth σ d b → d < n → d < m →
    match3E L kv σ n st aw a b = match3E L 0 σ m st aw a b
  | 0, _, _, _, _, _, _, _, hn, _ => by omega
  | _+1, 0, _, _, _, _, _, _, _, hm => by omega
  | n+1, m+1, d, st, aw, a, b, hd, hn, hm => by
    rw [match3E, match3E]
    simp only [followTE_eq hf]
    cases ha : followT σ a with
    | var av => cases hb : followT σ b <;> rfl
    | app ao as =>
      cases hb : followT σ b with
      | var bv => rfl
      | app bo bs =>
        simp only []
        have key : loopE (fun s t => match3E L kv σ n st aw s t) (varianceOf L ao) as bs (some true) =
            loopE (fun s t => match3E L 0 σ m st aw s t) (varianceOf L ao) as bs (some true) := by
          apply loopE_congr
          intro s t hs ht
          rcases hd with hd | hd
          · obtain ⟨d', rfl, hargs⟩ := hd.args ha
            exact ⟨match3E_stable L hf kv n m d' st aw s t (.inl (hargs s hs)) (by omega) (by omega),
              match3E_stable L hf kv n m d' st aw t s (.inr (hargs s hs)) (by omega) (by omega)⟩
          · obtain ⟨d', rfl, hargs⟩ := hd.args hb
            exact ⟨match3E_stable L hf kv n m d' st aw s t (.inr (hargs t ht)) (by omega) (by omega),
              match3E_stable L hf kv n m d' st aw t s (.inl (hargs t ht)) (by omega) (by omega)⟩
        rw [key]

/-- … in the form used by the engine: the model's fuel `4·vars + 64`, any offset -/
theorem match3E_fuel_stable (L : Lang) {σ : Store} (hf : FuelOk σ) (kv : Nat) {d : Nat} (st aw : Bool) (a b : Term)
    (hd : RDepth σ d a ∨ RDepth σ d b) (h : d < matchFuel σ) :
    match3E L kv σ (matchFuelE kv σ) st aw a b = match3 L σ (matchFuel σ) st aw a b := by
  rw [← match3E_zero]
  exact match3E_stable L hf kv _ _ d st aw a b hd (by unfold matchFuelE; unfold matchFuel at h; omega) h

/-! ## 4. the occurs check -/

theorem any_congr {α : Type} {f g : α → Bool} : ∀ (l : List α), (∀ x, x ∈ l → f x = g x) → l.any f = l.any g
  | [], _ => rfl
  | x :: l, h => by
    rw [List.any_cons, List.any_cons, h x List.mem_cons_self,
      any_congr l (fun y hy => h y (List.mem_cons_of_mem _ hy))]

/-- the occurs check `b in a` on a resolved-shallow `a` (the term walked): any two fuels above the depth, any offset -/
theorem occursE_stable (L : Lang) {σ : Store} (hf : FuelOk σ) (kv : Nat) : ∀ (n m d : Nat) (a b : Term),
    RDepth σ d a → d < n → d < m → d < matchFuel σ → occursE L kv σ n a b = occursE L 0 σ m a b
  | 0, _, _, _, _, _, hn, _, _ => by omega
  | _+1, 0, _, _, _, _, _, hm, _ => by omega
  | n+1, m+1, d, a, b, hd, hn, hm, hk => by
    rw [occursE, occursE]
    simp only [followTE_eq hf]
    have hm3 : match3E L kv σ (matchFuelE kv σ) false false (followT σ a) (followT σ b) =
        match3E L 0 σ (matchFuelE 0 σ) false false (followT σ a) (followT σ b) := by
      rw [match3E_fuel_stable L hf kv false false _ _ (.inl (hd.followed hf)) hk, match3E_zero]; rfl
    rw [hm3]
    cases ha : followT σ a with
    | var av => rfl
    | app ao as =>
      obtain ⟨d', rfl, hargs⟩ := hd.args ha
      have key : as.any (fun t => occursE L kv σ n t (followT σ b)) =
          as.any (fun t => occursE L 0 σ m t (followT σ b)) :=
        any_congr as (fun t ht => occursE_stable L hf kv n m d' t _ (hargs t ht) (by omega) (by omega) (by omega))
      simp only [key]

/-- … in the form used by `unify`: the model's fuel `vars + 64`, any offset -/
theorem occursE_fuel_stable (L : Lang) {σ : Store} (hf : FuelOk σ) (kv : Nat) {d : Nat} (a b : Term)
    (hd : RDepth σ d a) (h : d < termFuel σ) :
    occursE L kv σ (termFuelE kv σ) a b = occurs L σ (termFuel σ) a b := by
  rw [← occursE_zero]
  exact occursE_stable L hf kv _ _ d a b hd (by unfold termFuelE; unfold termFuel at h; omega) h
    (by unfold termFuel at h; unfold matchFuel; omega)

/-! ## 5. `variables()`: the variables directly in a term -/

theorem foldl_congr {α β : Type} {f g : β → α → β} : ∀ (l : List α) (acc : β),
    (∀ x, x ∈ l → ∀ acc, f acc x = g acc x) → l.foldl f acc = l.foldl g acc
  | [], _, _ => rfl
  | x :: l, acc, h => by
    rw [List.foldl_cons, List.foldl_cons, h x List.mem_cons_self,
      foldl_congr l _ (fun y hy => h y (List.mem_cons_of_mem _ hy))]

theorem directVarsE_stable {σ : Store} (hf : FuelOk σ) (kv : Nat) : ∀ (n m d : Nat) (t : Term) (acc : List Nat),
    RDepth σ d t → d < n → d < m → directVarsE kv σ n t acc = directVarsE 0 σ m t acc
  | 0, _, _, _, _, _, hn, _ => by omega
  | _+1, 0, _, _, _, _, _, hm => by omega
  | n+1, m+1, d, t, acc, hd, hn, hm => by
    rw [directVarsE, directVarsE]
    simp only [followTE_eq hf]
    cases ht : followT σ t with
    | var v => rfl
    | app o args =>
      obtain ⟨d', rfl, hargs⟩ := hd.args ht
      exact foldl_congr args acc (fun x hx acc' =>
        directVarsE_stable hf kv n m d' x acc' (hargs x hx) (by omega) (by omega))

theorem directVarsE_fuel_stable {σ : Store} (hf : FuelOk σ) (kv : Nat) {d : Nat} (t : Term) (acc : List Nat)
    (hd : RDepth σ d t) (h : d < termFuel σ) :
    directVarsE kv σ (termFuelE kv σ) t acc = directVars σ (termFuel σ) t acc := by
  rw [← directVarsE_zero]
  exact directVarsE_stable hf kv _ _ d t acc hd (by unfold termFuelE; unfold termFuel at h; omega) h

/-! ## 6. the closure over constraints -/

/-- every term of every constraint record of `σ` is resolved-shallow -/
def ConstrsShallow (σ : Store) (d : Nat) : Prop := ∀ c t, t ∈ constrTerms (getConstr σ c) → RDepth σ d t

/-- one step of the worklist: the variables found through the constraint set of `v` -/
def closureStep (σ : Store) (v : Nat) (seen : List Nat) : List Nat :=
  (getCset σ (getVar σ v).cset).foldl (fun acc c =>
    (constrTerms (getConstr σ c)).foldl (fun acc t => directVars σ (termFuel σ) t acc) acc) seen

/-- the worklist of `indirectVars` runs empty within `n` steps (decidable: the closure has stabilised) -/
def closedWithin (σ : Store) : Nat → List Nat → List Nat → Bool
  | _, [], _ => true
  | 0, _ :: _, _ => false
  | n+1, v :: work, seen =>
    let found := closureStep σ v seen
    closedWithin σ n (work ++ found.filter (fun x => !seen.contains x)) found

theorem closureStepE_eq {σ : Store} (hf : FuelOk σ) (kv : Nat) {d : Nat} (hc : ConstrsShallow σ d)
    (h : d < termFuel σ) (v : Nat) (seen : List Nat) :
    (getCset σ (getVar σ v).cset).foldl (fun acc c =>
      (constrTerms (getConstr σ c)).foldl (fun acc t => directVarsE kv σ (termFuelE kv σ) t acc) acc) seen =
    closureStep σ v seen := by
  unfold closureStep
  exact foldl_congr _ _ (fun c _ acc => foldl_congr _ _ (fun t ht acc' =>
    directVarsE_fuel_stable hf kv t acc' (hc c t ht) h))

/-- once the worklist runs empty within `n` steps, any larger fuel and any offset give the same closure -/
theorem indirectVarsE_stable {σ : Store} (hf : FuelOk σ) (kv : Nat) {d : Nat} (hc : ConstrsShallow σ d)
    (h : d < termFuel σ) : ∀ (n j : Nat) (work seen : List Nat), closedWithin σ n work seen = true →
    indirectVarsE kv σ (n + j) work seen = indirectVarsE 0 σ n work seen
  | 0, 0, [], _, _ => by rw [indirectVarsE, indirectVarsE]
  | 0, j+1, [], _, _ => by
    rw [Nat.zero_add, indirectVarsE, indirectVarsE]
    · intros; simp_all
  | 0, _, _ :: _, _, hw => by simp [closedWithin] at hw
  | n+1, j, [], seen, _ => by
    rw [Nat.add_right_comm, indirectVarsE, indirectVarsE] <;> (intros; simp_all)
  | n+1, j, v :: work, seen, hw => by
    rw [Nat.add_right_comm, indirectVarsE, indirectVarsE]
    rw [closedWithin] at hw
    simp only [closureStepE_eq hf kv hc h, closureStepE_eq hf 0 hc h]
    exact indirectVarsE_stable hf kv hc h n j _ _ hw

/-- `variables(indirect=True)` of terms that are resolved-shallow, in a store whose constraint terms are
resolved-shallow and whose closure stabilises within the model's fuel: independent of both offsets -/
theorem varsOfTermsE_stable {σ : Store} (hf : FuelOk σ) (kv kc : Nat) {d : Nat} (hc : ConstrsShallow σ d)
    (h : d < termFuel σ) (ts : List Term) (hts : ∀ t, t ∈ ts → RDepth σ d t)
    (hw : closedWithin σ (σ.vars.length * (σ.constrs.length + 1) + 8)
      (ts.foldl (fun acc t => directVars σ (termFuel σ) t acc) [])
      (ts.foldl (fun acc t => directVars σ (termFuel σ) t acc) []) = true) :
    varsOfTermsE kv kc σ ts = varsOfTerms σ ts := by
  rw [← varsOfTermsE_zero]
  unfold varsOfTermsE
  have e1 : ∀ k, ts.foldl (fun acc t => directVarsE k σ (termFuelE k σ) t acc) [] =
      ts.foldl (fun acc t => directVars σ (termFuel σ) t acc) [] := fun k =>
    foldl_congr _ _ (fun t ht acc => directVarsE_fuel_stable hf k t acc (hts t ht) h)
  simp only [e1]
  obtain ⟨j, hj⟩ : ∃ j, (σ.vars.length + kv) * (σ.constrs.length + kc + 1) + 8 =
      (σ.vars.length * (σ.constrs.length + 1) + 8) + j := by
    refine ⟨(σ.vars.length + kv) * (σ.constrs.length + kc + 1) - σ.vars.length * (σ.constrs.length + 1), ?_⟩
    have : σ.vars.length * (σ.constrs.length + 1) ≤ (σ.vars.length + kv) * (σ.constrs.length + kc + 1) :=
      Nat.mul_le_mul (Nat.le_add_right _ _) (by omega)
    omega
  rw [hj, indirectVarsE_stable hf kv hc h _ j _ _ hw]
  simp only [Nat.add_zero]

/-! ## 7. deciding the hypotheses -/

/-- `RDepth σ d t`, decided by walking the resolved term -/
def rdepthB (σ : Store) : Nat → Term → Bool
  | 0, t => match followT σ t with
    | .var _ => true
    | .app _ _ => false
  | d+1, t => match followT σ t with
    | .var _ => true
    | .app _ args => args.all (fun a => rdepthB σ d a)

theorem rdepthB_sound {σ : Store} : ∀ (d : Nat) (t : Term), rdepthB σ d t = true → RDepth σ d t
  | 0, t, h => by
    rw [rdepthB] at h
    cases e : followT σ t with
    | var v => exact .var e
    | app o args => rw [e] at h; cases h
  | d+1, t, h => by
    rw [rdepthB] at h
    cases e : followT σ t with
    | var v => exact .var e
    | app o args =>
      rw [e] at h
      simp only [List.all_eq_true] at h
      exact .app e (fun a ha => rdepthB_sound d a (h a ha))

theorem rdepthB_complete {σ : Store} : ∀ {d : Nat} {t : Term}, RDepth σ d t → rdepthB σ d t = true := by
  intro d t h
  induction h with
  | @var d t v hv => cases d <;> (rw [rdepthB, hv])
  | app ha _ ih =>
    rw [rdepthB, ha]
    simp only [List.all_eq_true]
    exact ih

/-- `ConstrsShallow`, decided over the allocated constraint records (an unallocated id reads as the default record) -/
def constrsShallowB (σ : Store) (d : Nat) : Bool :=
  (constrTerms (getConstr σ σ.constrs.length)).all (rdepthB σ d) &&
    (List.range σ.constrs.length).all (fun c => (constrTerms (getConstr σ c)).all (rdepthB σ d))

theorem constrsShallowB_sound {σ : Store} {d : Nat} (h : constrsShallowB σ d = true) : ConstrsShallow σ d := by
  intro c t ht
  simp only [constrsShallowB, Bool.and_eq_true, List.all_eq_true, List.mem_range] at h
  by_cases hc : c < σ.constrs.length
  · exact rdepthB_sound d t (h.2 c hc t ht)
  · have e : getConstr σ c = getConstr σ σ.constrs.length := by
      unfold getConstr
      simp only [List.getD_eq_getElem?_getD]
      rw [List.getElem?_eq_none (by omega), List.getElem?_eq_none (Nat.le_refl _)]
    rw [e] at ht
    exact rdepthB_sound d t (h.1 t ht)

/-- the raw nesting depth of a term (a variable `0`, a constant `1`) -/
def tdepth : Term → Nat
  | .var _ => 0
  | .app _ args => tdepthL args + 1
where
  tdepthL : List Term → Nat
  | [] => 0
  | t :: ts => max (tdepth t) (tdepthL ts)

/-- in a store WITHOUT bindings the resolved depth is the raw depth -/
theorem rdepth_of_unbound {σ : Store} (hu : ∀ v, (getVar σ v).bound = none) :
    ∀ (t : Term) (d : Nat), tdepth t ≤ d → RDepth σ d t := by
  have hfol : ∀ t, followT σ t = t := fun t => follow_of_final (σ := σ) (by
    cases t with
    | var v => exact hu v
    | app o args => trivial) _
  intro t
  induction t using Term.rec (motive_2 := fun ts => ∀ d, tdepth.tdepthL ts ≤ d → ∀ a, a ∈ ts → RDepth σ d a) with
  | var v => intro d _; exact .var (hfol _)
  | app o args ih =>
    intro d hd
    rw [tdepth] at hd
    obtain ⟨d', rfl⟩ : ∃ d', d = d' + 1 := ⟨d - 1, by omega⟩
    exact .app (hfol _) (ih d' (by omega))
  | nil => rename_i a _ ha; cases ha
  | cons t ts iht ihts =>
    rename_i d hd a ha
    rw [tdepth.tdepthL] at hd
    rcases List.mem_cons.mp ha with rfl | ha
    · exact iht d (by omega)
    · exact ihts d (by omega) a ha

/-! ## 8. `spineFollow`, and the statement for ALL histories -/

theorem spineFollowE_eq {σ : Store} (hf : FuelOk σ) (kv : Nat) : ∀ t, spineFollowE kv σ t = spineFollowE 0 σ t
  | .var v => by rw [spineFollowE, spineFollowE, followTE_eq hf, followTE_eq hf]
  | .app o [] => by rw [spineFollowE, spineFollowE] <;> (intros; simp_all)
  | .app o [_] => by rw [spineFollowE, spineFollowE] <;> (intros; simp_all)
  | .app o (_ :: _ :: _ :: _) => by rw [spineFollowE, spineFollowE] <;> (intros; simp_all)
  | .app o [l, r] => by
    have ih := spineFollowE_eq hf kv r
    cases l with
    | var v => simp only [spineFollowE, followTE_eq hf, ih]
    | app _ _ => simp only [spineFollowE, ih]

/-- history independence for EVERY history is insensitivity of the fresh run to EVERY pair of fuel offsets -/
theorem history_independent_all_iff {L : Lang} {n : Nat} {fixFlag : Bool} {s : Schema} {xs : List Term}
    (hcs : ∀ c, c ∈ s.constraints → okCAstN L (s.nvars + s.nwild) c = true)
    (hbody : okTermN L (s.nvars + s.nwild) s.body = true) (hxs : Term.closedL xs = true) :
    (∀ σ₀ : Store, useSchema L n fixFlag σ₀ s xs = afterHistoryC σ₀ (useSchema L n fixFlag {} s xs)) ↔
      ∀ kv kc, useSchemaE L kv kc n fixFlag {} s xs = useSchema L n fixFlag {} s xs := by
  constructor
  · intro h kv kc
    have := (useSchema_shift_iff (blankHistory kv kc) hcs hbody hxs).mp (h _)
    rw [vlen_blankHistory, clen_blankHistory] at this
    exact this
  · intro h σ₀
    exact (useSchema_shift_iff σ₀ hcs hbody hxs).mpr (h _ _)

end Tfv.C16D
