import Tfv.Model
import Tfv.Spec.Sub
import Tfv.Proofs.SubOrder
/-!
# C01 — subtyping of concrete types is exactly the declared partial order

Statements only; proofs are one-liners calling lemmas of `Tfv/Proofs/SubOrder.lean`.
-/
namespace Tfv.C01
open Tfv

/-- the decidable well-formedness check used by the driver implies `WF` -/
theorem C01_wfLang (L : Lang) (h : wfLangB L = true) : WF L := wf_of_wfLangB L h

/-- `is_subtype` decides exactly the declared order -/
theorem C01_decides (L : Lang) (wf : WF L) (s t : Ty) (hs : wfTy L s = true) (ht : wfTy L t = true) :
    isSubtype L s t false = true ↔ Sub L s t := isSubtype_false_iff wf s t hs ht

theorem C01_refl (L : Lang) (wf : WF L) (s : Ty) (hs : wfTy L s = true) : Sub L s s := sub_refl s hs

theorem C01_trans (L : Lang) (wf : WF L) (s t u : Ty)
    (hs : wfTy L s = true) (ht : wfTy L t = true) (hu : wfTy L u = true) :
    Sub L s t → Sub L t u → Sub L s u := sub_trans wf t s u

theorem C01_antisymm (L : Lang) (wf : WF L) (s t : Ty) (hs : wfTy L s = true) (ht : wfTy L t = true) :
    Sub L s t → Sub L t s → s = t := sub_antisymm wf s t

/-- the strict form excludes exactly equality -/
theorem C01_strict (L : Lang) (wf : WF L) (s t : Ty) (hs : wfTy L s = true) (ht : wfTy L t = true) :
    isSubtype L s t true = true ↔ (Sub L s t ∧ s ≠ t) := isSubtype_true_iff wf s t hs ht

/-- `TypeOperator.subtype` on base types is the ancestor relation plus Top/Bottom -/
theorem C01_opSub (L : Lang) (wf : WF L) (a b : Nat) :
    opSub L a b false = true ↔ (a = BOT ∨ b = TOP ∨ Anc L a b) := opSub_iff wf a b

/-- non-vacuity: a concrete well-formed language and types meeting the hypotheses -/
def exL : Lang := builtinDecls ++ [⟨"A", [], none⟩, ⟨"B", [], some 5⟩, ⟨"F", [true, false], none⟩]
example : wfLangB exL = true := by decide
example : wfTy exL (.app 7 [.app 6 [], .app 5 []]) = true := by decide
example : isSubtype exL (.app 7 [.app 6 [], .app 5 []]) (.app 7 [.app 5 [], .app 6 []]) true = true := by decide
example : isSubtype exL (.app 7 [.app 5 [], .app 5 []]) (.app 7 [.app 6 [], .app 6 []]) false = false := by decide

end Tfv.C01
