import Tfv.Spec.Sat
import Tfv.Proofs.SubOrder
/-!
# Frame lemmas for the inference store (C03)

`getVar`/`setVar`/`newVar`, the `SameCore` relation (two stores that agree on
everything the specification looks at), `follow` preserves denotations, and
`NoConstraints` is kept by the store operations of the constraint-free engine.
-/
namespace Tfv.C03P

/-! ## 1. `getVar` / `setVar` / `newVar` -/

theorem getVar_setVar (σ : Store) (v w : Nat) (i : VarInfo) :
    getVar (setVar σ v i) w = if v = w ∧ v < σ.vars.length then i else getVar σ w := by
  unfold getVar setVar
  simp only [List.getD_eq_getElem?_getD, List.getElem?_set]
  by_cases h : v = w
  · subst h
    by_cases h2 : v < σ.vars.length
    · simp [h2]
    · simp [h2]
  · simp [h]

theorem getVar_setVar_eq {σ : Store} {v : Nat} (i : VarInfo) (h : v < σ.vars.length) :
    getVar (setVar σ v i) v = i := by
  rw [getVar_setVar]; simp [h]

theorem getVar_setVar_ne {σ : Store} {v w : Nat} (i : VarInfo) (h : v ≠ w) :
    getVar (setVar σ v i) w = getVar σ w := by
  rw [getVar_setVar]; simp [h]

theorem getVar_setVar_oor {σ : Store} {v : Nat} (i : VarInfo) (h : ¬ v < σ.vars.length) (w : Nat) :
    getVar (setVar σ v i) w = getVar σ w := by
  rw [getVar_setVar]; simp [h]

@[simp] theorem length_setVar (σ : Store) (v : Nat) (i : VarInfo) :
    (setVar σ v i).vars.length = σ.vars.length := by
  unfold setVar; simp

@[simp] theorem length_setCset (σ : Store) (k : Nat) (cs : List Nat) :
    (setCset σ k cs).vars.length = σ.vars.length := rfl

@[simp] theorem getVar_setCset (σ : Store) (k : Nat) (cs : List Nat) (w : Nat) :
    getVar (setCset σ k cs) w = getVar σ w := rfl

@[simp] theorem getCset_setVar (σ : Store) (v : Nat) (i : VarInfo) (k : Nat) :
    getCset (setVar σ v i) k = getCset σ k := rfl

theorem getVar_oor {σ : Store} {v : Nat} (h : ¬ v < σ.vars.length) : getVar σ v = {} := by
  unfold getVar
  rw [List.getD_eq_getElem?_getD, List.getElem?_eq_none (by omega)]
  rfl

theorem getVar_newVar_lt {σ : Store} {wc : Bool} {w : Nat} (h : w < σ.vars.length) :
    getVar (newVar σ wc).1 w = getVar σ w := by
  unfold getVar newVar
  simp only [List.getD_eq_getElem?_getD]
  rw [List.getElem?_append_left h]

theorem getVar_newVar_core (σ : Store) (wc : Bool) (w : Nat) :
    (getVar (newVar σ wc).1 w).bound = (getVar σ w).bound ∧
    (getVar (newVar σ wc).1 w).lower = (getVar σ w).lower ∧
    (getVar (newVar σ wc).1 w).upper = (getVar σ w).upper := by
  by_cases h : w < σ.vars.length
  · rw [getVar_newVar_lt h]; exact ⟨rfl, rfl, rfl⟩
  · rw [getVar_oor h]
    by_cases h2 : w = σ.vars.length
    · subst h2
      unfold getVar newVar
      simp
    · have : ¬ w < (newVar σ wc).1.vars.length := by
        unfold newVar; simp; omega
      rw [getVar_oor this]; exact ⟨rfl, rfl, rfl⟩

theorem length_newVar (σ : Store) (wc : Bool) :
    (newVar σ wc).1.vars.length = σ.vars.length + 1 := by
  unfold newVar; simp

theorem snd_newVar (σ : Store) (wc : Bool) : (newVar σ wc).2 = σ.vars.length := rfl

/-! ## 2. `NoConstraints` is preserved -/

theorem nc_setVar {σ : Store} (h : NoConstraints σ) (v : Nat) (i : VarInfo) :
    NoConstraints (setVar σ v i) := fun k => h k

theorem nc_setCset_nil {σ : Store} (h : NoConstraints σ) (k : Nat) :
    NoConstraints (setCset σ k []) := by
  intro j
  unfold getCset setCset
  simp only [List.getD_eq_getElem?_getD, List.getElem?_set]
  have hj := h j
  unfold getCset at hj
  rw [List.getD_eq_getElem?_getD] at hj
  split
  · split <;> simp
  · exact hj

theorem nc_newVar {σ : Store} (h : NoConstraints σ) (wc : Bool) : NoConstraints (newVar σ wc).1 := by
  intro j
  have hj := h j
  unfold getCset at hj ⊢
  unfold newVar
  rw [List.getD_eq_getElem?_getD] at hj ⊢
  simp only [List.getElem?_append]
  split
  · exact hj
  · cases (j - σ.csets.length) <;> simp

theorem unionSorted_nil (a : List Nat) : unionSorted a [] = a := rfl

theorem merged_nil {σ : Store} (h : NoConstraints σ) (vars : List Nat) (k : Nat) :
    vars.foldl (fun acc w => unionSorted acc (getCset σ (getVar σ w).cset)) (getCset σ k) = [] := by
  have : ∀ (vs : List Nat) (acc : List Nat), acc = [] →
      vs.foldl (fun acc w => unionSorted acc (getCset σ (getVar σ w).cset)) acc = [] := by
    intro vs
    induction vs with
    | nil => intro acc h0; exact h0
    | cons w ws ih =>
      intro acc h0
      simp only [List.foldl_cons]
      apply ih
      rw [h _, unionSorted_nil]; exact h0
  exact this vars _ (h k)

/-! ## 3. stores that agree on everything the specification looks at -/

/-- same number of variables, same `bound`/`lower`/`upper` everywhere
(the `wildcard` flags and constraint-set pointers may differ) -/
structure SameCore (σ σ' : Store) : Prop where
  len : σ'.vars.length = σ.vars.length
  bound : ∀ w, (getVar σ' w).bound = (getVar σ w).bound
  lower : ∀ w, (getVar σ' w).lower = (getVar σ w).lower
  upper : ∀ w, (getVar σ' w).upper = (getVar σ w).upper

theorem SameCore.refl (σ : Store) : SameCore σ σ := ⟨rfl, fun _ => rfl, fun _ => rfl, fun _ => rfl⟩

theorem SameCore.trans {a b c : Store} (h1 : SameCore a b) (h2 : SameCore b c) : SameCore a c :=
  ⟨h2.len.trans h1.len, fun w => (h2.bound w).trans (h1.bound w),
   fun w => (h2.lower w).trans (h1.lower w), fun w => (h2.upper w).trans (h1.upper w)⟩

theorem SameCore.symm {a b : Store} (h : SameCore a b) : SameCore b a :=
  ⟨h.len.symm, fun w => (h.bound w).symm, fun w => (h.lower w).symm, fun w => (h.upper w).symm⟩

/-- overwriting a variable with a record that has the same core fields -/
theorem sameCore_setVar {σ : Store} {v : Nat} {i : VarInfo}
    (hb : i.bound = (getVar σ v).bound) (hl : i.lower = (getVar σ v).lower)
    (hu : i.upper = (getVar σ v).upper) : SameCore σ (setVar σ v i) := by
  refine ⟨length_setVar _ _ _, ?_, ?_, ?_⟩ <;> intro w <;> rw [getVar_setVar] <;> split
  · next h => rw [← h.1]; exact hb
  · rfl
  · next h => rw [← h.1]; exact hl
  · rfl
  · next h => rw [← h.1]; exact hu
  · rfl

theorem sameCore_setCset (σ : Store) (k : Nat) (cs : List Nat) : SameCore σ (setCset σ k cs) :=
  ⟨rfl, fun _ => rfl, fun _ => rfl, fun _ => rfl⟩

theorem sameCore_foldl_cset (k : Nat) (vars : List Nat) : ∀ (σ : Store),
    SameCore σ (vars.foldl (fun σ w => setVar σ w { (getVar σ w) with cset := k }) σ) := by
  induction vars with
  | nil => intro σ; exact SameCore.refl σ
  | cons w ws ih =>
    intro σ
    simp only [List.foldl_cons]
    exact SameCore.trans (b := setVar σ w { (getVar σ w) with cset := k }) (sameCore_setVar rfl rfl rfl) (ih _)

theorem nc_foldl_cset (k : Nat) (vars : List Nat) : ∀ (σ : Store), NoConstraints σ →
    NoConstraints (vars.foldl (fun σ w => setVar σ w { (getVar σ w) with cset := k }) σ) := by
  induction vars with
  | nil => intro σ h; exact h
  | cons w ws ih =>
    intro σ h
    simp only [List.foldl_cons]
    exact ih _ (nc_setVar h _ _)

/-! ## 4. `okTerm` only depends on the number of variables -/

mutual
theorem okTerm_mono {L : Lang} {σ σ' : Store} (h : σ.vars.length ≤ σ'.vars.length) :
    ∀ t, okTerm L σ t = true → okTerm L σ' t = true
  | .var v, ht => by
    unfold okTerm at ht ⊢
    simp only [decide_eq_true_eq] at ht ⊢
    omega
  | .app o args, ht => by
    unfold okTerm at ht ⊢
    simp only [Bool.and_eq_true] at ht ⊢
    exact ⟨ht.1, okTermL_mono h args ht.2⟩
theorem okTermL_mono {L : Lang} {σ σ' : Store} (h : σ.vars.length ≤ σ'.vars.length) :
    ∀ ts, okTermL L σ ts = true → okTermL L σ' ts = true
  | [], _ => by unfold okTermL; rfl
  | t :: ts, ht => by
    unfold okTermL at ht ⊢
    simp only [Bool.and_eq_true] at ht ⊢
    exact ⟨okTerm_mono h t ht.1, okTermL_mono h ts ht.2⟩
end

theorem okTerm_var {L : Lang} {σ : Store} {v : Nat} : okTerm L σ (.var v) = true ↔ v < σ.vars.length := by
  unfold okTerm; simp

theorem okTerm_app {L : Lang} {σ : Store} {o : Nat} {args : List Term} :
    okTerm L σ (.app o args) = true ↔
      (o < L.length ∧ args.length = arityOf L o ∧ okTermL L σ args = true) := by
  unfold okTerm; simp [and_assoc]

theorem okTermL_cons {L : Lang} {σ : Store} {t : Term} {ts : List Term} :
    okTermL L σ (t :: ts) = true ↔ (okTerm L σ t = true ∧ okTermL L σ ts = true) := by
  rw [okTermL, Bool.and_eq_true]

theorem okTermL_nil {L : Lang} {σ : Store} : okTermL L σ [] = true := by
  unfold okTermL; rfl

/-! ## 5. denotations -/

mutual
theorem wfTy_den {L : Lang} {σ : Store} {ρ : Val} (hρ : ∀ v, wfTy L (ρ v) = true) :
    ∀ t, okTerm L σ t = true → wfTy L (den ρ t) = true
  | .var v, _ => by unfold den; exact hρ v
  | .app o args, ht => by
    obtain ⟨h1, h2, h3⟩ := okTerm_app.mp ht
    unfold den wfTy
    simp only [Bool.and_eq_true, decide_eq_true_eq, beq_iff_eq]
    exact ⟨⟨h1, by rw [length_denL, h2]⟩, wfTyL_denL hρ args h3⟩
theorem wfTyL_denL {L : Lang} {σ : Store} {ρ : Val} (hρ : ∀ v, wfTy L (ρ v) = true) :
    ∀ ts, okTermL L σ ts = true → wfTyL L (denL ρ ts) = true
  | [], _ => by unfold denL wfTyL; rfl
  | t :: ts, ht => by
    obtain ⟨h1, h2⟩ := okTermL_cons.mp ht
    unfold denL wfTyL
    simp only [Bool.and_eq_true]
    exact ⟨wfTy_den hρ t h1, wfTyL_denL hρ ts h2⟩
theorem length_denL {ρ : Val} : ∀ ts, (denL ρ ts).length = ts.length
  | [] => by unfold denL; rfl
  | t :: ts => by unfold denL; simp [length_denL ts]
end

theorem den_var (ρ : Val) (v : Nat) : den ρ (.var v) = ρ v := by unfold den; rfl
theorem den_app (ρ : Val) (o : Nat) (args : List Term) : den ρ (.app o args) = .app o (denL ρ args) := by
  unfold den; rfl
theorem denL_nil (ρ : Val) : denL ρ [] = [] := by unfold denL; rfl
theorem denL_cons (ρ : Val) (t : Term) (ts : List Term) : denL ρ (t :: ts) = den ρ t :: denL ρ ts := by
  rw [denL]

/-- `follow` keeps the meaning of a term under every solution -/
theorem den_follow {L : Lang} {ρ : Val} {σ : Store} (h : Sat L ρ σ) :
    ∀ (n : Nat) (t : Term), den ρ (follow σ n t) = den ρ t
  | 0, t => by unfold follow; rfl
  | n+1, .app o args => by unfold follow; rfl
  | n+1, .var v => by
    unfold follow
    cases hb : (getVar σ v).bound with
    | none => rfl
    | some t =>
      simp only
      rw [den_follow h n t, den_var, h.bound v t hb]

theorem den_followT {L : Lang} {ρ : Val} {σ : Store} (h : Sat L ρ σ) (t : Term) :
    den ρ (followT σ t) = den ρ t := den_follow h _ t

theorem okTerm_follow {L : Lang} {σ : Store} (ok : OkStore L σ) :
    ∀ (n : Nat) (t : Term), okTerm L σ t = true → okTerm L σ (follow σ n t) = true
  | 0, t, ht => by unfold follow; exact ht
  | n+1, .app o args, ht => by unfold follow; exact ht
  | n+1, .var v, ht => by
    unfold follow
    cases hb : (getVar σ v).bound with
    | none => exact ht
    | some t => exact okTerm_follow ok n t (ok.bound v t hb)

theorem okTerm_followT {L : Lang} {σ : Store} (ok : OkStore L σ) (t : Term)
    (ht : okTerm L σ t = true) : okTerm L σ (followT σ t) = true := okTerm_follow ok _ t ht

/-! ## 6. the specification only looks at the core -/

theorem SameCore.sat {L : Lang} {ρ : Val} {σ σ' : Store} (c : SameCore σ σ') (h : Sat L ρ σ') :
    Sat L ρ σ :=
  ⟨h.wf, fun v t hb => h.bound v t ((c.bound v).trans hb),
   fun v l hb hl => h.lower v l ((c.bound v).trans hb) ((c.lower v).trans hl),
   fun v u hb hu => h.upper v u ((c.bound v).trans hb) ((c.upper v).trans hu)⟩

theorem SameCore.okStore {L : Lang} {σ σ' : Store} (c : SameCore σ σ') (ok : OkStore L σ) :
    OkStore L σ' where
  bound := fun v t hb => okTerm_mono (Nat.le_of_eq c.len.symm) t (ok.bound v t ((c.bound v).symm.trans hb))
  lower := fun v => by rw [c.lower v]; exact ok.lower v
  upper := fun v => by rw [c.upper v]; exact ok.upper v
  ordered := fun v l u hl hu => ok.ordered v l u ((c.lower v).symm.trans hl) ((c.upper v).symm.trans hu)
  basic := fun v o args hb hx => by
    rw [c.lower v, c.upper v] at hx
    exact ok.basic v o args ((c.bound v).symm.trans hb) hx

end Tfv.C03P
