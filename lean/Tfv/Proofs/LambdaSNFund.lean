import Tfv.Proofs.LambdaSN
/-!
# strong normalisation of typed terms, part 2: subsumption, parallel substitution, fundamental lemma
-/
namespace Tfv.C15P
open Tfv Tfv.LamSpec Tfv.LamTyped

variable {L : Lang} {Sg : String → Option Ty} {S : Nat → Option Ty}

/-! ## candidates go up along the declared order -/

theorem mk_atom {o : Nat} {l : List SType} (h1 : o ≠ FUN) (h2 : l ≠ []) : SType.mk o l = .atom := by
  match l, h2 with
  | [_], _ => rfl
  | [_, _], _ => simp [SType.mk, h1]
  | _ :: _ :: _ :: _, _ => rfl

theorem skL_ne_nil {as : List Ty} (h : as ≠ []) : skL as ≠ [] := by
  cases as with
  | nil => exact absurd rfl h
  | cons a as => simp [skL]

theorem sub_redS_aux (wf : WF L) : ∀ (n : Nat) (T T' : Ty), (sk T).size + (sk T').size < n → Sub L T T' →
    ∀ t, RedS (sk T) t → RedS (sk T') t := by
  intro n
  induction n with
  | zero => intro T T' h; omega
  | succ n ih =>
    intro T T' hlt hsub t ht
    obtain ⟨a, as⟩ := T
    obtain ⟨b, bs⟩ := T'
    rcases sub_inv hsub with ⟨h1, h2⟩ | ⟨h1, h2⟩ | ⟨h1, h2, _, _, h5⟩ | ⟨h1, h2, h3⟩
    · subst h1; subst h2
      rw [sk_bot] at ht
      exact hn_redS _ ht
    · subst h1; subst h2
      have e : sk (.app TOP []) = .atom := by simp [sk, skL, SType.mk, TOP, BOT]
      rw [e]
      exact cr1 ht
    · subst h1; subst h2
      rw [sk_nil] at ht ⊢
      by_cases ha : a = BOT
      · rw [if_pos ha] at ht
        exact hn_redS _ ht
      · have hb : b ≠ BOT := fun hb => ha (anc_bot_right wf h5 hb)
        rw [if_neg ha] at ht
        rw [if_neg hb]
        exact ht
    · subst h1
      by_cases hf : a = FUN
      · subst hf
        rw [variance_fun wf] at h3
        cases h3 with
        | contra k1 k2 =>
          cases k2 with
          | co k3 k4 =>
            cases k4 with
            | nil =>
              rename_i A A' B B'
              change RedS (sk (fn A' B')) t
              change RedS (sk (fn A B)) t at ht
              change (sk (fn A B)).size + (sk (fn A' B')).size < n + 1 at hlt
              rw [sk_fn] at ht ⊢
              rw [sk_fn, sk_fn] at hlt
              simp only [SType.size] at hlt
              intro u hu
              have hu' := ih A' A (by omega) k1 u hu
              exact ih B B' (by omega) k3 _ (ht u hu')
      · have hv : varianceOf L a ≠ [] := by
          intro hv; apply h2; unfold arityOf; rw [hv]; rfl
        have has : as ≠ [] := by
          intro e; subst e; exact hv (subArgs_nil_left h3).1
        have hbs : bs ≠ [] := by
          intro e; subst e; exact hv (subArgs_nil_right h3).1
        have e1 : sk (.app a as) = .atom := by
          rw [sk]; exact mk_atom hf (skL_ne_nil has)
        have e2 : sk (.app a bs) = .atom := by
          rw [sk]; exact mk_atom hf (skL_ne_nil hbs)
        rw [e1] at ht; rw [e2]; exact ht

theorem sub_redS (wf : WF L) {T T' : Ty} (h : Sub L T T') {t : LTerm} (ht : RedS (sk T) t) : RedS (sk T') t :=
  sub_redS_aux wf _ T T' (Nat.lt_succ_self _) h t ht

/-! ## parallel substitution -/

def up (σ : Nat → LTerm) : Nat → LTerm
  | 0 => .var 0
  | i+1 => llift (σ i) 0

def scons (u : LTerm) (σ : Nat → LTerm) : Nat → LTerm
  | 0 => u
  | i+1 => σ i

def msub : LTerm → (Nat → LTerm) → LTerm
  | .var i, σ => σ i
  | .lam b, σ => .lam (msub b (up σ))
  | .app f x, σ => .app (msub f σ) (msub x σ)
  | .op s, _ => .op s
  | .src k, _ => .src k

theorem up_var : up LTerm.var = LTerm.var := by
  funext i; cases i <;> simp [up, llift]

theorem msub_id (t : LTerm) : msub t LTerm.var = t := by
  induction t with
  | op s => rfl
  | src s => rfl
  | var i => rfl
  | lam b ih => simp only [msub, up_var, ih]
  | app f x ihf ihx => simp only [msub, ihf, ihx]

theorem lsub_msub (t : LTerm) : ∀ (σ : Nat → LTerm) (u : LTerm) (k : Nat),
    lsub (msub t σ) u k = msub t (fun i => lsub (σ i) u k) := by
  induction t with
  | op s => intros; rfl
  | src s => intros; rfl
  | var i => intros; rfl
  | lam b ih =>
    intro σ u k
    simp only [msub, lsub, ih]
    congr 2
    funext i
    cases i with
    | zero => simp [up, lsub]
    | succ i => simp only [up]; rw [lift_sub_lt (σ i) u 0 k (by omega)]
  | app f x ihf ihx => intro σ u k; simp only [msub, lsub, ihf, ihx]

theorem beta_msub (b u : LTerm) (σ : Nat → LTerm) : LTerm.beta (msub b (up σ)) u = msub b (scons u σ) := by
  rw [beta_eq, lsub_msub]
  congr 1
  funext i
  cases i with
  | zero => simp [up, scons, lsub]
  | succ i => simp only [up, scons, sub_lift]

/-! ## reduction is compatible with substitution -/

theorem red_sub {t t' : LTerm} (h : Red t t') : ∀ s k, Red (lsub t s k) (lsub t' s k) := by
  induction h with
  | beta b x =>
    intro s k
    rw [beta_eq, ← sub_sub b x s 0 k (by omega)]
    simp only [lsub]
    rw [← beta_eq]
    exact Red.beta _ _
  | appL x _ ih => intro s k; simp only [lsub]; exact Red.appL _ (ih s k)
  | appR f _ ih => intro s k; simp only [lsub]; exact Red.appR _ (ih s k)
  | lam _ ih => intro s k; simp only [lsub]; exact Red.lam (ih _ _)

theorem red_beta_left {b b' : LTerm} (h : Red b b') (u : LTerm) : Red (LTerm.beta b u) (LTerm.beta b' u) := by
  rw [beta_eq, beta_eq]; exact red_sub h u 0

/-! ## the abstraction lemma -/

theorem redS_lam {a c : SType} : ∀ {b : LTerm}, SN b → (∀ u, RedS a u → RedS c (LTerm.beta b u)) →
    RedS (.arrow a c) (.lam b) := by
  intro b hb
  induction hb with
  | intro b _ ihb =>
    intro h u hu
    have hsu := cr1 hu
    induction hsu with
    | intro u _ ihu =>
      refine cr3 rfl ?_
      intro r hr
      cases hr with
      | beta b x => exact h u hu
      | appL x hf =>
        cases hf with
        | lam hbb =>
          exact ihb _ hbb (fun v hv => cr2 (h v hv) (red_beta_left hbb v)) u hu
      | appR f hx => exact ihu _ hx (cr2 hu hx)

theorem sn_of_beta {b u : LTerm} (h : SN (LTerm.beta b u)) : SN b :=
  SN.of_map (fun b => LTerm.beta b u) (fun _ _ hr => red_beta_left hr u) h b rfl

/-! ## the fundamental lemma -/

theorem fundamental (wf : WF L) {Γ : List Ty} {t : LTerm} {T : Ty} (h : HasType L Sg S Γ t T) :
    ∀ σ : Nat → LTerm, (∀ i A, Γ[i]? = some A → RedS (sk A) (σ i)) → RedS (sk T) (msub t σ) := by
  induction h with
  | var hi => intro σ hσ; exact hσ _ _ hi
  | src _ => intro σ _; exact redS_src _ _
  | op _ => intro σ _; exact redS_op _ _
  | app _ _ ihf ihx =>
    intro σ hσ
    have hf := ihf σ hσ
    rw [sk_fn] at hf
    exact hf _ (ihx σ hσ)
  | @lam Γ b A B _ ih =>
    intro σ hσ
    rw [sk_fn]
    have key : ∀ u, RedS (sk A) u → RedS (sk B) (LTerm.beta (msub b (up σ)) u) := by
      intro u hu
      rw [beta_msub]
      apply ih
      intro i A' hi
      cases i with
      | zero => simp at hi; subst hi; exact hu
      | succ i => simp at hi; exact hσ i A' hi
    exact redS_lam (sn_of_beta (cr1 (key (.var 0) (redS_var _ _)))) key
  | sub _ hs ih => intro σ hσ; exact sub_redS wf hs (ih σ hσ)

/-- strong normalisation of typed terms -/
theorem typed_sn (wf : WF L) {Γ : List Ty} {t : LTerm} {T : Ty} (h : HasType L Sg S Γ t T) : SN t := by
  have := fundamental wf h LTerm.var (fun i A _ => redS_var _ _)
  rw [msub_id] at this
  exact cr1 this

end Tfv.C15P
