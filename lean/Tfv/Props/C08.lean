import Tfv.Model
namespace Tfv.C08
theorem placeholder : True := trivial
end Tfv.C08
