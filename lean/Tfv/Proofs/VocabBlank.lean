import Tfv.Proofs.VocabPerm
import Tfv.Proofs.GraphType
/-!
# Blank nodes: two registered types never share a blank node

`BInv g`: every registered blank node is below the counter `nextB`, and no blank node is registered for two types.
-/
namespace Tfv.Voc
open Tfv Tfv.Tax

structure BInv (g : GState) : Prop where
  bound : ∀ y k, g.L y = some (.b k) → k < g.nextB
  inj : ∀ y y' k, g.L y = some (.b k) → g.L y' = some (.b k) → y = y'

/-- registered types stay, the counter grows, and the blank nodes registered meanwhile are the new ones -/
structure BExt (g g' : GState) : Prop where
  le : g.nextB ≤ g'.nextB
  look : ∀ y m, g.L y = some m → g'.L y = some m
  fresh : ∀ y k, g'.L y = some (.b k) → g.L y = some (.b k) ∨ (g.nextB ≤ k ∧ k < g'.nextB)

theorem BExt.refl (g : GState) : BExt g g :=
  ⟨Nat.le_refl _, fun _ _ h' => h', fun _ _ h' => .inl h'⟩

theorem BExt.trans {g1 g2 g3 : GState} (h1 : BExt g1 g2) (h2 : BExt g2 g3) : BExt g1 g3 := by
  refine ⟨Nat.le_trans h1.le h2.le, fun y m h => h2.look y m (h1.look y m h), ?_⟩
  intro y k h
  rcases h2.fresh y k h with h | ⟨ha, hb⟩
  · rcases h1.fresh y k h with h | ⟨ha, hb⟩
    · exact .inl h
    · exact .inr ⟨ha, Nat.lt_of_lt_of_le hb h2.le⟩
  · exact .inr ⟨Nat.le_trans h1.le ha, hb⟩

/-- a change that keeps the registered types and does not lower the counter -/
theorem BInv.keep {g g' : GState} (h : BInv g) (hL : g'.L = g.L) (hn : g.nextB ≤ g'.nextB) : BInv g' ∧ BExt g g' := by
  refine ⟨⟨?_, ?_⟩, hn, ?_, ?_⟩
  · intro y k hy; rw [hL] at hy; exact Nat.lt_of_lt_of_le (h.bound y k hy) hn
  · intro y y' k hy hy'; rw [hL] at hy hy'; exact h.inj y y' k hy hy'
  · intro y m hy; rw [hL]; exact hy
  · intro y k hy; rw [hL] at hy; exact .inl hy

theorem BInv.add {g : GState} (h : BInv g) (t : Triple) : BInv (g.add t) ∧ BExt g (g.add t) :=
  h.keep (L_add g t) (by rw [add_nextB]; exact Nat.le_refl _)

theorem addSupertypesRec_keep (G : GLang) (k : Nat) (g : GState) (t : Ty) (g' : GState)
    (h : addSupertypesRec G k g t = .ok g') : g'.L = g.L ∧ g.nextB ≤ g'.nextB := by
  have hs := addSupertypesRec_step G k g t g' h
  obtain ⟨l, hl, hq⟩ := hs.typeNodes_ext
  have : l = [] := by
    cases l with
    | nil => rfl
    | cons a l => exact (hq a List.mem_cons_self).elim
  subst this
  exact ⟨L_congr (by simpa using hl), hs.nextB_mono⟩

/-- if `n` is the blank node `k`, then `k` is registered for no type of `gc`, was not below the counter of `g0`, and is below
the counter of `gc` -/
def FreshNode (g0 gc : GState) (n : Node) : Prop :=
  ∀ k, n = .b k → (∀ y, gc.L y ≠ some (.b k)) ∧ g0.nextB ≤ k ∧ k < gc.nextB

/-- registering `x` at `n` in a state where `x` is not registered -/
theorem BInv.push {g0 gc : GState} {x : Term} {n : Node} (hc : BInv gc) (hext : BExt g0 gc)
    (hx : gc.L x = none) (hn : FreshNode g0 gc n) :
    BInv { gc with typeNodes := gc.typeNodes ++ [(x, n)] } ∧ BExt g0 { gc with typeNodes := gc.typeNodes ++ [(x, n)] } := by
  refine ⟨⟨?_, ?_⟩, hext.le, ?_, ?_⟩
  · intro y k hy
    show k < gc.nextB
    rcases L_push_inv hx hy with hy | ⟨_, hk⟩
    · exact hc.bound y k hy
    · exact (hn k hk.symm).2.2
  · intro y y' k hy hy'
    rcases L_push_inv hx hy with h1 | ⟨e1, hk⟩
    · rcases L_push_inv hx hy' with h2 | ⟨_, hk'⟩
      · exact hc.inj y y' k h1 h2
      · exact absurd h1 ((hn k hk'.symm).1 y)
    · rcases L_push_inv hx hy' with h2 | ⟨e2, _⟩
      · exact absurd h2 ((hn k hk.symm).1 y')
      · rw [e1, e2]
  · intro y m hy; exact L_push_some (hext.look y m hy)
  · intro y k hy
    show _ ∨ (_ ∧ k < gc.nextB)
    rcases L_push_inv hx hy with hy | ⟨_, hk⟩
    · exact hext.fresh y k hy
    · exact .inr (hn k hk.symm).2

/-- registering `x` again (it already is): nothing changes for `L` -/
theorem L_push_dup {g : GState} {x : Term} {n n' : Node} (h : g.L x = some n') :
    ({ g with typeNodes := g.typeNodes ++ [(x, n)] } : GState).L = g.L := by
  funext y
  cases hy : g.L y with
  | some m => exact L_push_some hy
  | none =>
    have hne : y ≠ x := by intro he; rw [he, h] at hy; cases hy
    exact L_push_ne hy hne

theorem addType_blank (G : GLang) (c : GCfg) : ∀ (k : Nat),
    (∀ (g : GState) (x : Term) (g' : GState) (n : Node), addType G c k g x = .ok (g', n) → BInv g → BInv g' ∧ BExt g g') ∧
    (∀ (g : GState) (node : Node) (i : Nat) (ps : List Term) (g' : GState), addTypeParams G c k g node i ps = .ok g' →
      BInv g → BInv g' ∧ BExt g g') := by
  intro k
  induction k with
  | zero =>
    constructor
    · intro g x g' n h; rw [addType] at h; cases h
    · intro g node i ps g' h; rw [addTypeParams] at h; cases h
  | succ k ih =>
    obtain ⟨ihT, ihP⟩ := ih
    constructor
    · intro g x g' n h hi
      rw [addType] at h
      split at h
      · simp only [Except.ok.injEq, Prod.mk.injEq] at h
        obtain ⟨rfl, rfl⟩ := h
        exact ⟨hi, BExt.refl _⟩
      · simp only [] at h
        split at h
        · cases h
        · rename_i r ga na hr
          -- the node
          have h1 : ga.L = g.L ∧ g.nextB ≤ ga.nextB ∧ ∀ j, na = .b j → j = g.nextB ∧ ga.nextB = g.nextB + 1 := by
            split at hr
            · rename_i nd hnd
              simp only [Except.ok.injEq, Prod.mk.injEq] at hr
              obtain ⟨rfl, rfl⟩ := hr
              exact ⟨rfl, Nat.le_refl _, fun j hj => absurd hj (typeUri_notBlank hnd j)⟩
            · split at hr
              · simp only [Except.ok.injEq, Prod.mk.injEq] at hr
                obtain ⟨rfl, rfl⟩ := hr
                refine ⟨rfl, Nat.le_succ _, ?_⟩
                intro j hj
                simp only [GState.fresh, Node.b.injEq] at hj
                exact ⟨hj.symm, rfl⟩
              · cases hr
            · cases hr
          obtain ⟨haL, han, hfresh⟩ := h1
          obtain ⟨hia, hexta⟩ := hi.keep haL han
          split at h
          · cases h
          · rename_i r2 gb hr2
            split at h
            · cases h
            · rename_i r3 gc hr3
              simp only [Except.ok.injEq, Prod.mk.injEq] at h
              obtain ⟨rfl, rfl⟩ := h
              have h2 : ∀ (g2 : GState), g2 = (if c.withClasses = true then ga.add (na, Node.rdf "type", Node.tf "Type") else ga) →
                  BInv g2 ∧ BExt ga g2 := by
                intro g2 hg2
                by_cases hc : c.withClasses = true
                · rw [if_pos hc] at hg2; subst hg2; exact hia.add _
                · rw [if_neg hc] at hg2; subst hg2; exact ⟨hia, BExt.refl _⟩
              obtain ⟨hi2, hext2⟩ := h2 _ rfl
              generalize (if c.withClasses = true then ga.add (na, Node.rdf "type", Node.tf "Type") else ga) = g2 at hr2 hi2 hext2
              have h3 : BInv gb ∧ BExt g2 gb := by
                split at hr2
                · split at hr2
                  · obtain ⟨a1, a2⟩ := hi2.add (na, subClassOf, opUri G _)
                    obtain ⟨b1, b2⟩ := ihP _ _ _ _ _ hr2 a1
                    exact ⟨b1, a2.trans b2⟩
                  · simp only [Except.ok.injEq] at hr2
                    subst hr2; exact ⟨hi2, BExt.refl _⟩
                · simp only [Except.ok.injEq] at hr2
                  subst hr2; exact ⟨hi2, BExt.refl _⟩
              obtain ⟨hib, hextb⟩ := h3
              have h4 : BInv gc ∧ BExt gb gc := by
                split at hr3
                · obtain ⟨k1, k2⟩ := addSupertypesRec_keep G _ _ _ _ hr3
                  exact hib.keep k1 k2
                · simp only [Except.ok.injEq] at hr3
                  subst hr3; exact ⟨hib, BExt.refl _⟩
              obtain ⟨hic, hextc⟩ := h4
              have hac : BExt ga gc := (hext2.trans hextb).trans hextc
              cases hcx : gc.L x with
              | some n'' =>
                obtain ⟨k1, k2⟩ := hic.keep (g' := { gc with typeNodes := gc.typeNodes ++ [(x, na)] })
                  (L_push_dup hcx) (Nat.le_refl _)
                exact ⟨k1, (hexta.trans hac).trans k2⟩
              | none =>
                refine BInv.push hic (hexta.trans hac) hcx ?_
                intro j hj
                obtain ⟨rfl, hn1⟩ := hfresh j hj
                refine ⟨?_, Nat.le_refl _, by have := hac.le; omega⟩
                intro y hy
                rcases hac.fresh y _ hy with h' | ⟨h', _⟩
                · rw [haL] at h'
                  exact absurd (hi.bound y _ h') (Nat.lt_irrefl _)
                · omega
    · intro g node i ps g' h hi
      cases ps with
      | nil =>
        rw [addTypeParams] at h
        simp only [Except.ok.injEq] at h
        subst h
        exact ⟨hi, BExt.refl _⟩
      | cons p ps =>
        rw [addTypeParams] at h
        split at h
        · cases h
        · rename_i g1 pn hp
          obtain ⟨a1, a2⟩ := ihT _ _ _ _ hp hi
          obtain ⟨b1, b2⟩ := a1.add (node, paramPred i, pn)
          obtain ⟨c1, c2⟩ := ihP _ _ _ _ _ h b1
          exact ⟨c1, (a2.trans b2).trans c2⟩

theorem binv_empty : BInv {} := by
  constructor
  · intro y k h; cases h
  · intro y y' k h; cases h

theorem keep_of_add {α : Type} (f : α → Triple) (l : List α) (g : GState) :
    (l.foldl (fun (g : GState) s => g.add (f s)) g).nextB = g.nextB := by
  induction l generalizing g with
  | nil => rfl
  | cons a l ih => simp only [List.foldl_cons]; rw [ih, add_nextB]

/-- the first loop keeps `BInv` -/
theorem taxonomyStep_blank (G : GLang) (c : GCfg) (g : GState) (t : Ty) (g' : GState) (h : taxonomyStep G c g t = .ok g')
    (hi : BInv g) : BInv g' := by
  unfold taxonomyStep at h
  split at h
  · cases h
  · rename_i g1 n hadd
    split at h
    · cases h
    · rename_i g2 hsub
      obtain ⟨i1, _⟩ := (addType_blank G c typeFuel).1 _ _ _ _ hadd hi
      have hn2 : g1.nextB ≤ g2.nextB := by
        unfold addSubtypes at hsub
        split at hsub
        · cases hsub
        · split at hsub
          · cases hsub
          · refine foldlM_rel (R := fun a b => a.nextB ≤ b.nextB) (fun _ => Nat.le_refl _) (fun _ _ _ => Nat.le_trans) _ _ ?_ g1 g2 hsub
            intro ga s gb _ hs
            split at hs
            · cases hs
            · simp only [Except.ok.injEq] at hs
              subst hs; rw [add_nextB]; exact Nat.le_refl _
      have hn3 : g2.nextB ≤ g'.nextB := by
        unfold addSupertypes at h
        split at h
        · simp only [Except.ok.injEq] at h; subst h; exact Nat.le_refl _
        · split at h
          · cases h
          · split at h
            · cases h
            · refine foldlM_rel (R := fun a b => a.nextB ≤ b.nextB) (fun _ => Nat.le_refl _) (fun _ _ _ => Nat.le_trans) _ _ ?_ g2 g' h
              intro ga s gb _ hs
              split at hs
              · cases hs
              · simp only [Except.ok.injEq] at hs
                subst hs; rw [add_nextB]; exact Nat.le_refl _
      obtain ⟨_, r2, _, _⟩ := addSubtypes_voc G g1 t g2 hsub
      have i2 := (i1.keep r2.L hn2).1
      -- `add_supertypes` keeps `typeNodes`: it is a fold of `add`
      have hL3 : g'.L = g2.L := by
        unfold addSupertypes at h
        split at h
        · simp only [Except.ok.injEq] at h; subst h; rfl
        · split at h
          · cases h
          · split at h
            · cases h
            · refine foldlM_rel (R := fun a b => b.L = a.L) (fun _ => rfl) (fun _ _ _ h1 h2 => by rw [h2, h1]) _ _ ?_ g2 g' h
              intro ga s gb _ hs
              split at hs
              · cases hs
              · simp only [Except.ok.injEq] at hs
                subst hs; exact L_add _ _
      exact (i2.keep hL3 hn3).1

theorem taxonomyLoop_blank (G : GLang) (c : GCfg) (order : List Ty) (g g' : GState)
    (h : order.foldlM (taxonomyStep G c) g = .ok g') (hi : BInv g) : BInv g' := by
  have := foldlM_inv (taxonomyStep G c) (fun _ _ => True) (fun _ _ => True) BInv (fun _ => trivial) (fun _ _ _ _ _ => trivial)
    (fun _ _ _ _ _ => trivial) order (fun ga t gb _ hia hstep => ⟨taxonomyStep_blank G c ga t gb hstep hia, trivial, trivial⟩) g g' hi h
  exact this.1

/-- **no blank node is registered for two types** in the result of `add_taxonomy` -/
theorem addTaxonomyOn_blank_inj (G : GLang) (c : GCfg) (closure : Bool) (order : List Ty) (g' : GState)
    (h : addTaxonomyOn G c closure order {} = .ok g') :
    ∀ y y' k, g'.L y = some (.b k) → g'.L y' = some (.b k) → y = y' := by
  unfold addTaxonomyOn at h
  split at h
  · cases h
  · split at h
    · cases h
    · rename_i g1 hloop
      have i1 := taxonomyLoop_blank G c order {} g1 hloop binv_empty
      cases closure with
      | false =>
        simp only [Bool.false_eq_true, if_false, Except.ok.injEq] at h
        subst h; exact i1.inj
      | true =>
        simp only [if_true] at h
        obtain ⟨hn, _⟩ := closureLoop_voc G g1 order [] g1 g' h (by
          intro tr
          constructor
          · exact fun h => .inl h
          · rintro (h | ⟨t, ht, _⟩)
            · exact h
            · cases ht)
        rw [L_congr hn]; exact i1.inj

end Tfv.Voc
