import Tfv.Proofs.InferConstrApply
import Tfv.Proofs.InferWitness
/-!
# The C03 statements for stores WITH deferred constraints, in their final form
-/
namespace Tfv.C03C
open Tfv Tfv.C03P

/-- the part of a `StepC` that is stated in the property files -/
theorem stepC_unpack {L : Lang} {σ σ' : Store} (s : StepC L σ σ') :
    OkStoreC L σ' ∧ σ.vars.length ≤ σ'.vars.length ∧
    (∀ t, okTerm L σ t = true → okTerm L σ' t = true) :=
  ⟨s.ok, s.len, fun _ h => s.okTerm h⟩

theorem unify_soundC {L : Lang} (wf : WF L) {n : Nat} {σ σ' : Store} {a b : Term}
    (okc : OkStoreC L σ) (ha : okTerm L σ a = true) (hb : okTerm L σ b = true)
    (h : unify L n σ a b true false false = .ok σ') :
    OkStoreC L σ' ∧ σ.vars.length ≤ σ'.vars.length ∧
    (∀ t, okTerm L σ t = true → okTerm L σ' t = true) ∧
    ∀ ρ, Sat L ρ σ' → Sat L ρ σ ∧ Sub L (den ρ a) (den ρ b) := by
  obtain ⟨s, hs⟩ := (all_soundC wf n).1 σ a b false false σ' okc ha hb h
  obtain ⟨h1, h2, h3⟩ := stepC_unpack s
  exact ⟨h1, h2, h3, fun ρ hρ => ⟨s.sat ρ hρ, hs rfl rfl ρ hρ⟩⟩

theorem unify_flags_soundC {L : Lang} (wf : WF L) {n : Nat} {σ σ' : Store} {a b : Term} {sb sw : Bool}
    (okc : OkStoreC L σ) (ha : okTerm L σ a = true) (hb : okTerm L σ b = true)
    (h : unify L n σ a b true sb sw = .ok σ') :
    OkStoreC L σ' ∧ σ.vars.length ≤ σ'.vars.length ∧
    (∀ t, okTerm L σ t = true → okTerm L σ' t = true) ∧
    ∀ ρ, Sat L ρ σ' → Sat L ρ σ ∧ (sb = false → sw = false → Sub L (den ρ a) (den ρ b)) := by
  obtain ⟨s, hs⟩ := (all_soundC wf n).1 σ a b sb sw σ' okc ha hb h
  obtain ⟨h1, h2, h3⟩ := stepC_unpack s
  exact ⟨h1, h2, h3, fun ρ hρ => ⟨s.sat ρ hρ, fun e1 e2 => hs e1 e2 ρ hρ⟩⟩

theorem fix_soundC {L : Lang} (wf : WF L) {n : Nat} {σ σ' : Store} {t t' : Term} {pl : Bool}
    (okc : OkStoreC L σ) (ht : okTerm L σ t = true)
    (h : fix L n σ t pl = .ok (σ', t')) :
    OkStoreC L σ' ∧ σ.vars.length ≤ σ'.vars.length ∧
    (∀ t, okTerm L σ t = true → okTerm L σ' t = true) ∧ okTerm L σ' t' = true ∧
    ∀ ρ, Sat L ρ σ' → Sat L ρ σ ∧ den ρ t' = den ρ t := by
  obtain ⟨s, ht', hs⟩ := (all_soundC wf n).2.2.2.2.2.1 σ t pl σ' t' okc ht h
  obtain ⟨h1, h2, h3⟩ := stepC_unpack s
  exact ⟨h1, h2, h3, ht', fun ρ hρ => ⟨s.sat ρ hρ, hs ρ hρ⟩⟩

theorem checkConstraints_soundC {L : Lang} (wf : WF L) {n : Nat} {σ σ' : Store} {v : Nat}
    (okc : OkStoreC L σ) (h : checkConstraints L n σ v = .ok σ') :
    OkStoreC L σ' ∧ σ.vars.length ≤ σ'.vars.length ∧ ∀ ρ, Sat L ρ σ' → Sat L ρ σ := by
  have s := (all_soundC wf n).2.2.2.2.2.2.2.1 σ v σ' okc h
  exact ⟨s.ok, s.len, s.sat⟩

theorem fulfill_soundC {L : Lang} (wf : WF L) {n : Nat} {σ σ' : Store} {c : Nat} {d : Bool}
    (okc : OkStoreC L σ) (hc : c < σ.constrs.length) (h : fulfill L n σ c = .ok (σ', d)) :
    OkStoreC L σ' ∧ σ.vars.length ≤ σ'.vars.length ∧ ∀ ρ, Sat L ρ σ' → Sat L ρ σ := by
  have s := (all_soundC wf n).2.2.2.2.2.2.2.2.2.1 σ c σ' d okc hc h
  exact ⟨s.ok, s.len, s.sat⟩

theorem instantiate_sound_C {L : Lang} (wf : WF L) {n : Nat} {σ σ' : Store} {s : Schema} {f : Term}
    (okc : OkStoreC L σ)
    (hcs : ∀ c, c ∈ s.constraints → okCAstN L (s.nvars + s.nwild) c = true)
    (hbody : okTermN L (s.nvars + s.nwild) s.body = true)
    (h : instantiate L n σ s = .ok (σ', f)) :
    OkStoreC L σ' ∧ σ.vars.length + s.nvars + s.nwild ≤ σ'.vars.length ∧
    (∀ t, okTerm L σ t = true → okTerm L σ' t = true) ∧ okTerm L σ' f = true ∧
    ∀ ρ, Sat L ρ σ' → Sat L ρ σ ∧ den ρ f = den ρ (s.body.shift σ.vars.length) := by
  obtain ⟨st, hlen, hf, hd⟩ := instantiate_soundC wf okc hcs hbody h
  exact ⟨st.ok, hlen, fun t ht => okTerm_mono st.len t ht, hf, fun ρ hρ => ⟨st.sat ρ hρ, hd ρ hρ⟩⟩

theorem apply_soundC {L : Lang} (wf : WF L) {n : Nat} {σ σ' : Store} {f x r : Term} {fixFlag : Bool}
    (okc : OkStoreC L σ) (hf : okTerm L σ f = true) (hx : okTerm L σ x = true)
    (h : applyT L n σ f x fixFlag = .ok (σ', r)) :
    OkStoreC L σ' ∧ σ.vars.length ≤ σ'.vars.length ∧
    (∀ t, okTerm L σ t = true → okTerm L σ' t = true) ∧ okTerm L σ' r = true ∧
    ∀ ρ, Sat L ρ σ' → Sat L ρ σ ∧
      ((∃ p, den ρ f = .app FUN [p, den ρ r] ∧ Sub L (den ρ x) p) ∨
       (den ρ f = .app TOP [] ∧ r = .app TOP [])) := by
  obtain ⟨s, hr, hs⟩ := applyT_soundC wf okc hf hx h
  obtain ⟨h1, h2, h3⟩ := stepC_unpack s
  exact ⟨h1, h2, h3, hr, fun ρ hρ => ⟨s.sat ρ hρ, hs ρ hρ⟩⟩

theorem apply_chainC {L : Lang} (wf : WF L) {n : Nat} {fixFlag : Bool} {σ σ' : Store} {f r : Term}
    {xs : List Term} (okc : OkStoreC L σ)
    (hf : okTerm L σ f = true) (hxs : okTermL L σ xs = true)
    (h : applyAll L n fixFlag σ f xs = .ok (σ', r)) :
    OkStoreC L σ' ∧ σ.vars.length ≤ σ'.vars.length ∧
    (∀ t, okTerm L σ t = true → okTerm L σ' t = true) ∧ okTerm L σ' r = true ∧
    ∀ ρ, Sat L ρ σ' → Sat L ρ σ ∧ Accepts L (den ρ f) (denL ρ xs) (den ρ r) := by
  obtain ⟨s, hr, hs⟩ := applyAll_soundC wf n fixFlag xs σ σ' f r okc hf hxs h
  obtain ⟨h1, h2, h3⟩ := stepC_unpack s
  exact ⟨h1, h2, h3, hr, fun ρ hρ => ⟨s.sat ρ hρ, hs ρ hρ⟩⟩

/-- instantiate a constrained schema, then apply it to arguments: the property in one statement,
with a witness for the unresolved variables -/
theorem apply_chain_instantiationC {L : Lang} (wf : WF L) {n : Nat} {fixFlag : Bool} {σ σ' : Store}
    {f r : Term} {xs : List Term} (okc : OkStoreC L σ)
    (hf : okTerm L σ f = true) (hxs : okTermL L σ xs = true)
    (h : applyAll L n fixFlag σ f xs = .ok (σ', r)) (hac : Acyclic σ')
    (θ : Val) (hθ : Choice L θ σ') :
    ∃ ρ, Sat L ρ σ' ∧ (∀ v, (getVar σ' v).bound = none → ρ v = θ v) ∧ Sat L ρ σ ∧
      Accepts L (den ρ f) (denL ρ xs) (den ρ r) := by
  obtain ⟨ok', _, _, _, hs⟩ := apply_chainC wf okc hf hxs h
  obtain ⟨ρ, hρ, hθ'⟩ := witness_exists ok'.ok hac θ hθ
  exact ⟨ρ, hρ, hθ', (hs ρ hρ).1, (hs ρ hρ).2⟩

/-! ## the executable form of the invariant -/

def okStoreCB (L : Lang) (σ : Store) : Bool :=
  okStoreB L σ && σ.constrs.all (fun x => okTermL L σ (constrTerms x)) &&
  σ.csets.all (fun cs => cs.all (fun c => decide (c < σ.constrs.length)))

theorem okStoreCB_sound {L : Lang} {σ : Store} (h : okStoreCB L σ = true) : OkStoreC L σ := by
  unfold okStoreCB at h
  simp only [Bool.and_eq_true] at h
  refine ⟨okStoreB_sound h.1.1, fun x hx => List.all_eq_true.mp h.1.2 x hx, fun cs hcs c hc => ?_⟩
  have := List.all_eq_true.mp (List.all_eq_true.mp h.2 cs hcs) c hc
  simpa using this

/-- a constraint-free store in the sense of the earlier theorems satisfies the invariant -/
theorem okStoreC_of_noConstraints {L : Lang} {σ : Store} (ok : OkStore L σ) (nc : NoConstraints σ)
    (hc : σ.constrs = []) : OkStoreC L σ := by
  refine ⟨ok, fun x hx => (by rw [hc] at hx; cases hx), fun cs hcs c hc' => ?_⟩
  obtain ⟨k, hk, e⟩ := List.getElem_of_mem hcs
  have := nc k
  unfold getCset at this
  rw [List.getD_eq_getElem?_getD, List.getElem?_eq_getElem hk, e] at this
  simp only [Option.getD_some] at this
  rw [this] at hc'; cases hc'

end Tfv.C03C
