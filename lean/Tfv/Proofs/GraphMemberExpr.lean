import Tfv.Proofs.GraphMemberStep
/-!
# The leaves `addExpr` actually visits, and the log of events they produce

`visitLeaves srcs shs e inter`: the source and operator leaves of `e` that `addExpr` processes when the sources with
ids `srcs` and the shared expressions with keys `shs` already have nodes (those are answered from the memo tables,
nothing below them is visited), together with the ids / keys registered afterwards. `inter` is the `intermediate` flag.
-/
namespace Tfv

/-- a leaf that is processed: a source (id, stored type) or an operator (name, stored type, `intermediate`) -/
inductive VLeaf where
  | src (id : Nat) (ty : Term)
  | op (name : String) (ty : Term) (inter : Bool)

def visitLeaves : List Nat → List Nat → TExpr → Bool → List VLeaf × List Nat × List Nat
  | srcs, shs, .src id _ ty, _ =>
    if srcs.contains id then ([], srcs, shs) else ([.src id ty], srcs ++ [id], shs)
  | srcs, shs, .op name ty, inter => ([.op name ty inter], srcs, shs)
  | srcs, shs, .app f x _, inter =>
    let r1 := visitLeaves srcs shs f inter
    let r2 := visitLeaves r1.2.1 r1.2.2 x true
    (r1.1 ++ r2.1, r2.2.1, r2.2.2)
  | srcs, shs, .shared k e, inter =>
    if shs.contains k then ([], srcs, shs) else
    let r := visitLeaves srcs shs e inter
    (r.1, r.2.1, r.2.2 ++ [k])

/-- an event without its node number -/
inductive EvF where
  | ann (ty : Term) (can : Bool)
  | op (name : String)

def Ev.forget : Ev → EvF
  | .ann _ ty can => .ann ty can
  | .op _ name => .op name

/-- the concept node an event is about -/
def Ev.node : Ev → Nat
  | .ann cur _ _ => cur
  | .op cur _ => cur

/-- the node `k` belongs to a call of `addExpr` that was given the node `cur` and went from `g` to `g'`: it is the given
node or a blank node created by the call -/
def InRange (g : GState) (cur : Option Nat) (g' : GState) (k : Nat) : Prop :=
  cur = some k ∨ (g.nextB ≤ k ∧ k < g'.nextB)

theorem curOrFresh_inRange (g : GState) (cur : Option Nat) (g' : GState)
    (h : (curOrFresh g cur).1.nextB ≤ g'.nextB) : InRange g cur g' (curOrFresh g cur).2 := by
  cases cur with
  | some k => exact .inl rfl
  | none =>
    have h' : g.nextB + 1 ≤ g'.nextB := h
    exact .inr ⟨Nat.le_refl _, h'⟩

theorem curOrFresh_nextB (g : GState) (cur : Option Nat) : g.nextB ≤ (curOrFresh g cur).1.nextB := by
  cases cur with
  | some k => exact Nat.le_refl _
  | none => exact Nat.le_succ _

/-- is the type of a visited source leaf annotated? -/
def srcGate (G : GLang) (c : GCfg) (ty : Term) : Bool :=
  c.withTypes && (inCanon G (normT G.store ty) || c.withNoncanonicalTypes)

/-- is the output type of a visited operator leaf annotated? -/
def opGate (G : GLang) (c : GCfg) (ty : Term) (inter : Bool) : Bool :=
  c.withTypes && (c.withNoncanonicalTypes || inCanon G (normT G.store (outputType 1000 ty))) &&
    (c.withIntermediateTypes || !inter)

/-- the events of a visited leaf -/
def leafEvs (G : GLang) (c : GCfg) : VLeaf → List EvF
  | .src _ ty =>
    if srcGate G c ty then [.ann (normT G.store ty) (inCanon G (normT G.store ty))] else []
  | .op name ty inter =>
    .op name :: (if opGate G c ty inter then
      [.ann (normT G.store (outputType 1000 ty)) (inCanon G (normT G.store (outputType 1000 ty)))] else [])

def keysOf (l : List (Nat × Nat)) : List Nat := l.map (·.1)

theorem find_none_keys {l : List (Nat × Nat)} {k : Nat} (h : l.find? (fun p => p.1 == k) = none) :
    (keysOf l).contains k = false := by
  induction l with
  | nil => rfl
  | cons x l ih =>
    rw [List.find?_cons] at h
    cases hx : x.1 == k with
    | true => rw [hx] at h; cases h
    | false =>
      rw [hx] at h
      have hk : (k == x.1) = false := by
        rw [Bool.eq_false_iff] at hx ⊢
        intro h'; apply hx
        rw [beq_iff_eq] at h' ⊢; exact h'.symm
      simp only [keysOf, List.map_cons, List.contains_cons, hk, Bool.false_or]
      exact ih h

theorem find_some_keys {l : List (Nat × Nat)} {k : Nat} {p : Nat × Nat} (h : l.find? (fun p => p.1 == k) = some p) :
    (keysOf l).contains k = true := by
  have h1 := List.mem_of_find?_eq_some h
  have h2 := List.find?_some h
  simp only [beq_iff_eq] at h2
  rw [List.contains_iff_mem]
  exact List.mem_map.2 ⟨p, h1, h2⟩

theorem keysOf_append (l : List (Nat × Nat)) (x : Nat × Nat) : keysOf (l ++ [x]) = keysOf l ++ [x.1] := by
  simp [keysOf]

/-! ## the leaves -/

theorem srcBody_spec {G : GLang} {c : GCfg} {root : Node} {origin : Option Node} {g0 : GState} {cur id : Nat}
    {ty : Term} {g' : GState} {n : Nat} (h : srcBody G c root origin g0 cur id ty = .ok (g', n)) :
    g'.srcNodes = g0.srcNodes ++ [(id, cur)] ∧ g'.sharedNodes = g0.sharedNodes ∧
      ∃ evs, evs.map Ev.forget = leafEvs G c (.src id ty) ∧ LoggedBy G c root evs g0 g' ∧
        ∀ ev ∈ evs, ev.node = cur := by
  unfold srcBody at h
  simp only [] at h
  split at h
  · cases h
  · rename_i g2 hr
    simp only [Except.ok.injEq, Prod.mk.injEq] at h
    obtain ⟨rfl, rfl⟩ := h
    have s3 : NStep c Wiring g2 (addOrigin c origin g2 cur) := .originAdd origin g2 cur
    have s1 : LoggedBy G c root [] g0 { g0 with srcNodes := g0.srcNodes ++ [(id, cur)] } :=
      .ofNeutral (Q := AnyQ) (.pushSrc g0 (id, cur))
    rw [s3.srcNodes_eq, s3.sharedNodes_eq]
    split at hr
    · rename_i hgate
      have st := annotateType_step_ov G c _ root cur _ false _ g2 hr
      refine ⟨by rw [st.srcNodes_eq], by rw [st.sharedNodes_eq], _, ?_,
        (s1.trans (annotateType_logged G c _ root cur _ false _ g2 hr)).trans s3.logged, by simp [Ev.node]⟩
      have hg : srcGate G c ty = true := hgate
      simp only [leafEvs]
      rw [if_pos hg]
      rfl
    · rename_i hgate
      simp only [Except.ok.injEq] at hr
      subst hr
      refine ⟨rfl, rfl, _, ?_, s1.trans s3.logged, by simp⟩
      have hg : ¬ (srcGate G c ty = true) := hgate
      simp only [leafEvs]
      rw [if_neg hg]
      rfl

theorem opBody_spec {G : GLang} {c : GCfg} {root : Node} {origin : Option Node} {g0 : GState} {cur : Nat}
    {name : String} {ty : Term} {inter : Bool} {g' : GState} {n : Nat}
    (h : opBody G c root origin g0 cur name ty inter = .ok (g', n)) :
    g'.srcNodes = g0.srcNodes ∧ g'.sharedNodes = g0.sharedNodes ∧
      ∃ evs, evs.map Ev.forget = leafEvs G c (.op name ty inter) ∧ LoggedBy G c root evs g0 g' ∧
        ∀ ev ∈ evs, ev.node = cur := by
  unfold opBody at h
  simp only [] at h
  split at h
  · cases h
  · rename_i g2 hr
    simp only [Except.ok.injEq, Prod.mk.injEq] at h
    obtain ⟨rfl, rfl⟩ := h
    have s3 : NStep c Wiring g2 (addOrigin c origin g2 cur) := .originAdd origin g2 cur
    have s0 := opTriples_nstep c root g0 cur name
    have s1 := opTriples_logged G c root g0 cur name
    rw [s3.srcNodes_eq, s3.sharedNodes_eq]
    split at hr
    · rename_i hgate
      have st := annotateType_step_ov G c _ root cur _ true none g2 hr
      refine ⟨by rw [st.srcNodes_eq, s0.srcNodes_eq], by rw [st.sharedNodes_eq, s0.sharedNodes_eq], _, ?_,
        (s1.trans (annotateType_logged G c _ root cur _ true none g2 hr)).trans s3.logged, by simp [Ev.node]⟩
      have hg : opGate G c ty inter = true := hgate
      simp only [leafEvs]
      rw [if_pos hg]
      rfl
    · rename_i hgate
      simp only [Except.ok.injEq] at hr
      subst hr
      refine ⟨s0.srcNodes_eq, s0.sharedNodes_eq, _, ?_, s1.trans s3.logged, by simp [Ev.node]⟩
      have hg : ¬ (opGate G c ty inter = true) := hgate
      simp only [leafEvs]
      rw [if_neg hg]
      rfl

/-! ## the expression -/

/-- what `addExpr` leaves behind -/
structure AddExprSpec (G : GLang) (c : GCfg) (root : Node) (g : GState) (e : TExpr) (cur : Option Nat)
    (inter : Bool) (g' : GState) : Prop where
  srcs : keysOf g'.srcNodes = (visitLeaves (keysOf g.srcNodes) (keysOf g.sharedNodes) e inter).2.1
  shareds : keysOf g'.sharedNodes = (visitLeaves (keysOf g.srcNodes) (keysOf g.sharedNodes) e inter).2.2
  log : ∃ evs, evs.map Ev.forget =
      ((visitLeaves (keysOf g.srcNodes) (keysOf g.sharedNodes) e inter).1).flatMap (leafEvs G c) ∧
    LoggedBy G c root evs g g' ∧ ∀ ev ∈ evs, InRange g cur g' ev.node

theorem curOrFresh_srcNodes (g : GState) (cur : Option Nat) : (curOrFresh g cur).1.srcNodes = g.srcNodes := by
  cases cur <;> rfl

theorem curOrFresh_sharedNodes' (g : GState) (cur : Option Nat) : (curOrFresh g cur).1.sharedNodes = g.sharedNodes := by
  cases cur <;> rfl

theorem addExpr_spec (G : GLang) (c : GCfg) (root : Node) (origin : Option Node) :
    ∀ (e : TExpr) (g : GState) (cur : Option Nat) (inter : Bool) (g' : GState) (n : Nat),
      addExpr G c root origin g e cur inter = .ok (g', n) → AddExprSpec G c root g e cur inter g' := by
  intro e
  induction e with
  | src id label ty =>
    intro g cur inter g' n h
    rw [addExpr_src] at h
    split at h
    · rename_i p hp
      simp only [Except.ok.injEq, Prod.mk.injEq] at h
      obtain ⟨rfl, _⟩ := h
      have hk := find_some_keys hp
      refine ⟨?_, ?_, [], ?_, .refl G c root g, fun _ hx => by cases hx⟩ <;>
        simp only [visitLeaves, hk, if_true] <;> rfl
    · rename_i hp
      have hk := find_none_keys hp
      have hnb := (srcBody_step h).1.nextB_mono
      obtain ⟨h1, h2, evs, he, hl, hn⟩ := srcBody_spec h
      have s0 : NStep c Wiring g (curOrFresh g cur).1 := .curFresh cur g
      refine ⟨?_, ?_, evs, ?_, s0.logged.trans hl, ?_⟩
      · rw [h1, keysOf_append, curOrFresh_srcNodes]
        simp only [visitLeaves, hk]
        rfl
      · rw [h2, curOrFresh_sharedNodes']
        simp only [visitLeaves, hk]
        rfl
      · rw [he]
        simp only [visitLeaves, hk]
        simp
      · intro ev hev
        rw [hn ev hev]
        exact curOrFresh_inRange g cur g' hnb
  | op name ty =>
    intro g cur inter g' n h
    rw [addExpr_op] at h
    have hnb := (opBody_step h).1.nextB_mono
    obtain ⟨h1, h2, evs, he, hl, hn⟩ := opBody_spec h
    have s0 : NStep c Wiring g (curOrFresh g cur).1 := .curFresh cur g
    refine ⟨?_, ?_, evs, ?_, s0.logged.trans hl, ?_⟩
    · rw [h1, curOrFresh_srcNodes]; rfl
    · rw [h2, curOrFresh_sharedNodes']; rfl
    · rw [he]
      simp [visitLeaves]
    · intro ev hev
      rw [hn ev hev]
      exact curOrFresh_inRange g cur g' hnb
  | app f x ty ihf ihx =>
    intro g cur inter g' n h
    rw [addExpr_app] at h
    split at h
    · cases h
    · rename_i g1 fnode hf
      split at h
      · cases h
      · rename_i g2 xnode hx
        simp only [Except.ok.injEq, Prod.mk.injEq] at h
        obtain ⟨rfl, _⟩ := h
        have s0 : NStep c Wiring g (curOrFresh g cur).1 := .curFresh cur g
        have s1 : NStep c Wiring g1.fresh.1 (appPre g1.fresh.1 fnode x.ty.isFunction).1 := appPre_nstep c _ fnode _
        have s1' : NStep c Wiring g1 (appPre g1.fresh.1 fnode x.ty.isFunction).1 := .trans (.fresh g1) s1
        have s2 := appWire_nstep c origin g2 fnode xnode (appPre g1.fresh.1 fnode x.ty.isFunction).2
          (curOrFresh g cur).2
        -- blank-node counters along the way
        have n0 := curOrFresh_nextB g cur
        have n1 := (addExpr_step G c root origin f _ _ _ _ _ hf).nextB_mono
        have n2 : g1.nextB + 1 ≤ (appPre g1.fresh.1 fnode x.ty.isFunction).1.nextB := s1.toGStep.nextB_mono
        have n3 := (addExpr_step G c root origin x _ _ _ _ _ hx).nextB_mono
        have n4 := s2.toGStep.nextB_mono
        obtain ⟨a1, a2, ev1, he1, hl1, hr1⟩ := ihf _ _ _ _ _ hf
        obtain ⟨b1, b2, ev2, he2, hl2, hr2⟩ := ihx _ _ _ _ _ hx
        rw [s0.srcNodes_eq, s0.sharedNodes_eq] at a1 a2 he1
        rw [s1'.srcNodes_eq, s1'.sharedNodes_eq, a1, a2] at b1 b2 he2
        refine ⟨?_, ?_, ev1 ++ ev2, ?_, ?_, ?_⟩
        · rw [s2.srcNodes_eq, b1]; rfl
        · rw [s2.sharedNodes_eq, b2]; rfl
        · rw [List.map_append, he1, he2]
          simp only [visitLeaves, List.flatMap_append]
        · have := (((s0.logged (G := G) (root := root)).trans hl1).trans s1'.logged).trans (hl2.trans s2.logged)
          exact this.cast (by simp)
        · intro ev hev
          rcases List.mem_append.1 hev with hev | hev
          · rcases hr1 ev hev with hc | ⟨hlo, hhi⟩
            · simp only [Option.some.injEq] at hc
              rw [← hc]
              exact curOrFresh_inRange g cur _ (by omega)
            · exact .inr ⟨by omega, by omega⟩
          · rcases hr2 ev hev with hc | ⟨hlo, hhi⟩
            · simp only [Option.some.injEq] at hc
              rw [← hc]
              exact .inr ⟨by omega, by omega⟩
            · exact .inr ⟨by omega, by omega⟩
  | shared k e ih =>
    intro g cur inter g' n h
    rw [addExpr_shared] at h
    split at h
    · rename_i p hp
      simp only [Except.ok.injEq, Prod.mk.injEq] at h
      obtain ⟨rfl, _⟩ := h
      have hk := find_some_keys hp
      refine ⟨?_, ?_, [], ?_, .refl G c root g, fun _ hx => by cases hx⟩ <;>
        simp only [visitLeaves, hk, if_true] <;> rfl
    · rename_i hp
      have hk := find_none_keys hp
      split at h
      · cases h
      · rename_i g1 m he
        simp only [Except.ok.injEq, Prod.mk.injEq] at h
        obtain ⟨rfl, _⟩ := h
        obtain ⟨a1, a2, ev1, he1, hl1, hr1⟩ := ih _ _ _ _ _ he
        have s1 : LoggedBy G c root [] g1 { g1 with sharedNodes := g1.sharedNodes ++ [(k, m)] } :=
          .ofNeutral (Q := AnyQ) (.pushShared g1 (k, m))
        refine ⟨?_, ?_, ev1, ?_, (hl1.trans s1).cast (by simp), hr1⟩
        · show keysOf g1.srcNodes = _
          rw [a1]
          simp only [visitLeaves, hk]
          rfl
        · show keysOf (g1.sharedNodes ++ [(k, m)]) = _
          rw [keysOf_append, a2]
          simp only [visitLeaves, hk]
          rfl
        · rw [he1]
          simp only [visitLeaves, hk]
          rfl

end Tfv
