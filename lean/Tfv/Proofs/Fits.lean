import Tfv.Model
import Tfv.Spec.Sub
import Tfv.Spec.Fits
import Tfv.Proofs.SubOrder
/-!
# Helper lemmas for C06: the three-valued matcher against patterns with free variables
-/
namespace Tfv

/-! ## 1. following concrete terms and free variables -/

theorem followT_app (σ : Store) (o : Nat) (args : List Term) :
    followT σ (.app o args) = .app o args := by
  unfold followT
  rw [follow]
  · intro h; cases h
  · intro n v _ h; cases h

theorem followT_var_free (σ : Store) (v : Nat) (h : (getVar σ v).bound = none) :
    followT σ (.var v) = .var v := by
  unfold followT
  rw [follow, h]

theorem toTerm_app (o : Nat) (xs : List Ty) : (Ty.app o xs).toTerm = .app o (Ty.toTermL xs) := by
  rw [Ty.toTerm]

/-- a variable is free in the store: unbound and without bounds -/
def VarFree (σ : Store) (v : Nat) : Prop :=
  (getVar σ v).bound = none ∧ (getVar σ v).lower = none ∧ (getVar σ v).upper = none

def PatFreeL (σ : Store) (ps : List Term) : Prop := ∀ v ∈ Term.varsL ps, VarFree σ v

theorem patFree_app {σ : Store} {o : Nat} {ps : List Term} (h : PatFree σ (.app o ps)) :
    PatFreeL σ ps := by
  intro v hv
  have := h v (by rw [Term.vars]; exact hv)
  exact this

theorem patFreeL_cons {σ : Store} {p : Term} {ps : List Term} (h : PatFreeL σ (p :: ps)) :
    PatFree σ p ∧ PatFreeL σ ps := by
  constructor
  · intro v hv
    exact h v (by rw [Term.varsL]; exact List.mem_append_left _ hv)
  · intro v hv
    exact h v (by rw [Term.varsL]; exact List.mem_append_right _ hv)

/-! ## 2. the argument loop of `match3` -/

/-- some argument position is decided `some false` -/
def anyFalse (L : Lang) (σ : Store) (n : Nat) (st aw : Bool) : List Bool → List Term → List Term → Prop
  | v :: vs, s :: ss, t :: ts =>
    (if v then match3 L σ n st aw s t else match3 L σ n st aw t s) = some false ∨
      anyFalse L σ n st aw vs ss ts
  | _, _, _ => False

/-- the loop answers `some false` iff some position is `some false`
(for an accumulator that is not already `some false`; the model starts it with `some true`) -/
theorem loop_some_false (L : Lang) (σ : Store) (n : Nat) (st aw : Bool) :
    ∀ (vs : List Bool) (ss ts : List Term) (acc : Option Bool), acc ≠ some false →
    (match3.loop L σ n st aw vs ss ts acc = some false ↔ anyFalse L σ n st aw vs ss ts)
  | [], ss, ts, acc, hacc => by
    rw [match3.loop]
    · simp [anyFalse, hacc]
    · intro v vs s ss t ts h; cases h
  | _ :: _, [], ts, acc, hacc => by
    rw [match3.loop]
    · simp [anyFalse, hacc]
    · intro v vs s ss t ts _ h; cases h
  | _ :: _, _ :: _, [], acc, hacc => by
    rw [match3.loop]
    · simp [anyFalse, hacc]
    · intro v vs s ss t ts _ _ h; cases h
  | v :: vs, s :: ss, t :: ts, acc, hacc => by
    rw [match3.loop]
    have IH1 := loop_some_false L σ n st aw vs ss ts none (by simp)
    have IH2 := loop_some_false L σ n st aw vs ss ts acc hacc
    simp only [anyFalse]
    cases hm : (if v = true then match3 L σ n st aw s t else match3 L σ n st aw t s) with
    | none => simp only [IH1]; simp
    | some b =>
      cases b with
      | true => simp only [IH2]; simp
      | false => simp

/-- the loop started with `some true` answers `some false` iff some position does -/
theorem loop_start_some_false (L : Lang) (σ : Store) (n : Nat) (st aw : Bool)
    (vs : List Bool) (ss ts : List Term) :
    match3.loop L σ n st aw vs ss ts (some true) = some false ↔ anyFalse L σ n st aw vs ss ts :=
  loop_some_false L σ n st aw vs ss ts (some true) (by simp)

/-! ## 3. one step of `match3` -/

theorem match3_app_app (L : Lang) (σ : Store) (n : Nat) (ao bo : Nat) (as bs : List Term) :
    match3 L σ (n+1) true true (.app ao as) (.app bo bs) =
      if (ao == BOT || bo == TOP) = true then some true
      else if (arityOf L ao == 0) = true then some (ao == bo || opSub L ao bo)
      else if (ao != bo) = true then some false
      else match3.loop L σ n true true (varianceOf L ao) as bs (some true) := by
  rw [match3]
  simp only [followT_app, Bool.true_and]

theorem match3_app_var_free (L : Lang) (σ : Store) (n : Nat) (ao : Nat) (as : List Term) (v : Nat)
    (h : VarFree σ v) : match3 L σ (n+1) true true (.app ao as) (.var v) ≠ some false := by
  obtain ⟨h1, h2, h3⟩ := h
  rw [match3]
  simp only [followT_app, followT_var_free σ v h1, h2, h3]
  split <;> simp

theorem match3_var_app_free (L : Lang) (σ : Store) (n : Nat) (bo : Nat) (bs : List Term) (v : Nat)
    (h : VarFree σ v) : match3 L σ (n+1) true true (.var v) (.app bo bs) ≠ some false := by
  obtain ⟨h1, h2, h3⟩ := h
  rw [match3]
  simp only [followT_app, followT_var_free σ v h1, h2, h3]
  split <;> simp

/-! ## 4. `match3` against a pattern decides `fitsB` -/

theorem fitsBs_nil_v (L : Lang) (pol : Bool) (xs : List Ty) (ps : List Term) :
    fitsBs L pol [] xs ps = true := by
  simp [fitsBs]

theorem fitsBs_nil_x (L : Lang) (pol : Bool) (vs : List Bool) (ps : List Term) :
    fitsBs L pol vs [] ps = true := by
  cases vs <;> simp [fitsBs]

theorem fitsBs_nil_p (L : Lang) (pol : Bool) (vs : List Bool) (xs : List Ty) :
    fitsBs L pol vs xs [] = true := by
  cases vs <;> cases xs <;> simp [fitsBs]

theorem fitsBs_cons (L : Lang) (pol v : Bool) (vs : List Bool) (x : Ty) (xs : List Ty)
    (p : Term) (ps : List Term) :
    fitsBs L pol (v :: vs) (x :: xs) (p :: ps) =
      (fitsB L (pol == v) x p && fitsBs L pol vs xs ps) := by
  rw [fitsBs]

theorem depthL_cons_le {x : Ty} {xs : List Ty} {n : Nat} (h : Ty.depthL (x :: xs) ≤ n) :
    Ty.depth x < n ∧ Ty.depthL xs ≤ n := by
  rw [Ty.depthL] at h
  omega

/-- position-wise: given the statement at fuel `n`, the loop over zipped arguments finds a
`some false` exactly where `fitsBs` fails -/
theorem anyFalse_fits (L : Lang) (σ : Store) (n : Nat)
    (IH : ∀ (x : Ty) (p : Term), PatFree σ p → Ty.depth x < n →
      (match3 L σ n true true x.toTerm p = some false ↔ fitsB L true x p = false) ∧
      (match3 L σ n true true p x.toTerm = some false ↔ fitsB L false x p = false)) :
    ∀ (vs : List Bool) (xs : List Ty) (ps : List Term), PatFreeL σ ps → Ty.depthL xs ≤ n →
      (anyFalse L σ n true true vs (Ty.toTermL xs) ps ↔ fitsBs L true vs xs ps = false) ∧
      (anyFalse L σ n true true vs ps (Ty.toTermL xs) ↔ fitsBs L false vs xs ps = false)
  | [], xs, ps, _, _ => by
    simp [fitsBs_nil_v, anyFalse]
  | _ :: _, [], ps, _, _ => by
    simp [fitsBs_nil_x, Ty.toTermL, anyFalse]
  | _ :: _, _ :: _, [], _, _ => by
    simp [fitsBs_nil_p, Ty.toTermL, anyFalse]
  | v :: vs, x :: xs, p :: ps, hf, hd => by
    obtain ⟨hd1, hd2⟩ := depthL_cons_le hd
    obtain ⟨hf1, hf2⟩ := patFreeL_cons hf
    obtain ⟨A, B⟩ := IH x p hf1 hd1
    obtain ⟨As, Bs⟩ := anyFalse_fits L σ n IH vs xs ps hf2 hd2
    rw [fitsBs_cons, fitsBs_cons, Ty.toTermL]
    simp only [anyFalse, Bool.and_eq_false_iff]
    cases v with
    | true => simp only [if_true, A, B, As, Bs]; simp
    | false => simp only [Bool.false_eq_true, if_false, A, B, As, Bs]; simp

theorem match3_fits (L : Lang) (σ : Store) : ∀ (n : Nat) (x : Ty) (p : Term),
    PatFree σ p → Ty.depth x < n →
      (match3 L σ n true true x.toTerm p = some false ↔ fitsB L true x p = false) ∧
      (match3 L σ n true true p x.toTerm = some false ↔ fitsB L false x p = false)
  | 0, _, _, _, hd => by omega
  | n+1, .app xo xs, .var v, hf, _ => by
    have hv : VarFree σ v := hf v (by rw [Term.vars]; exact List.mem_singleton.mpr rfl)
    rw [toTerm_app, fitsB, fitsB]
    have h1 := match3_app_var_free L σ n xo (Ty.toTermL xs) v hv
    have h2 := match3_var_app_free L σ n xo (Ty.toTermL xs) v hv
    simp [h1, h2]
  | n+1, .app xo xs, .app po ps, hf, hd => by
    have hd' : Ty.depthL xs ≤ n := by rw [Ty.depth] at hd; omega
    have key := fun vs => anyFalse_fits L σ n (match3_fits L σ n) vs xs ps (patFree_app hf) hd'
    rw [toTerm_app, match3_app_app, match3_app_app, fitsB, fitsB]
    simp only [if_true, Bool.false_eq_true, if_false]
    constructor
    · by_cases c1 : (xo == BOT || po == TOP) = true
      · simp [c1]
      · by_cases c2 : (arityOf L xo == 0) = true
        · simp only [c1, c2, if_true, Bool.false_eq_true, if_false]; simp
        · by_cases c3 : (xo != po) = true
          · simp [c1, c2, c3]
          · simp only [c1, c2, c3, Bool.false_eq_true, if_false, loop_start_some_false]
            exact (key _).1
    · by_cases c1 : (po == BOT || xo == TOP) = true
      · simp [c1]
      · by_cases c2 : (arityOf L po == 0) = true
        · simp only [c1, c2, if_true, Bool.false_eq_true, if_false]; simp
        · by_cases c3 : (po != xo) = true
          · simp [c1, c2, c3]
          · simp only [c1, c2, c3, Bool.false_eq_true, if_false, loop_start_some_false]
            exact (key _).2

/-! ## 5. `fitsB` on variable-free patterns is `matchC` -/

theorem toTermL_cons (t : Ty) (ts : List Ty) : Ty.toTermL (t :: ts) = t.toTerm :: Ty.toTermL ts := by
  rw [Ty.toTermL]

theorem matchCs_cons (L : Lang) (st pol v : Bool) (vs : List Bool) (s : Ty) (ss : List Ty)
    (t : Ty) (ts : List Ty) :
    matchCs L st pol (v :: vs) (s :: ss) (t :: ts) =
      (matchC L st (pol == v) s t && matchCs L st pol vs ss ts) := by
  rw [matchCs]

theorem matchCs_nil_v (L : Lang) (st pol : Bool) (ss ts : List Ty) :
    matchCs L st pol [] ss ts = true := by
  simp [matchCs]

theorem matchCs_nil_s (L : Lang) (st pol : Bool) (vs : List Bool) (ts : List Ty) :
    matchCs L st pol vs [] ts = true := by
  cases vs <;> simp [matchCs]

theorem matchCs_nil_t (L : Lang) (st pol : Bool) (vs : List Bool) (ss : List Ty) :
    matchCs L st pol vs ss [] = true := by
  cases vs <;> cases ss <;> simp [matchCs]

theorem fitsB_app (L : Lang) (pol : Bool) (xo : Nat) (xs : List Ty) (po : Nat) (ps : List Term) :
    fitsB L pol (.app xo xs) (.app po ps) =
      if ((if pol then xo else po) == BOT || (if pol then po else xo) == TOP) = true then true
      else if (arityOf L (if pol then xo else po) == 0) = true then
        ((if pol then xo else po) == (if pol then po else xo) ||
          opSub L (if pol then xo else po) (if pol then po else xo))
      else if ((if pol then xo else po) != (if pol then po else xo)) = true then false
      else fitsBs L pol (varianceOf L (if pol then xo else po)) xs ps := by
  rw [fitsB]

theorem matchC_app (L : Lang) (pol : Bool) (a : Nat) (as : List Ty) (b : Nat) (bs : List Ty) :
    matchC L true pol (.app a as) (.app b bs) =
      if ((if pol then a else b) == BOT || (if pol then b else a) == TOP) = true then true
      else if (arityOf L (if pol then a else b) == 0) = true then
        ((if pol then a else b) == (if pol then b else a) ||
          opSub L (if pol then a else b) (if pol then b else a))
      else if ((if pol then a else b) != (if pol then b else a)) = true then false
      else matchCs L true pol (varianceOf L (if pol then a else b)) as bs := by
  rw [matchC]
  simp only [Bool.true_and]

mutual
theorem fits_concrete (L : Lang) : ∀ (pol : Bool) (x t : Ty),
    fitsB L pol x t.toTerm = matchC L true pol x t
  | pol, .app xo xs, .app o ts => by
    rw [toTerm_app, fitsB_app, matchC_app, fitsBs_concrete L pol _ xs ts]
theorem fitsBs_concrete (L : Lang) : ∀ (pol : Bool) (vs : List Bool) (xs ts : List Ty),
    fitsBs L pol vs xs (Ty.toTermL ts) = matchCs L true pol vs xs ts
  | pol, [], xs, ts => by rw [fitsBs_nil_v, matchCs_nil_v]
  | pol, _ :: _, [], ts => by rw [fitsBs_nil_x, matchCs_nil_s]
  | pol, _ :: _, _ :: _, [] => by rw [Ty.toTermL, fitsBs_nil_p, matchCs_nil_t]
  | pol, v :: vs, x :: xs, t :: ts => by
    rw [toTermL_cons, fitsBs_cons, matchCs_cons, fits_concrete L (pol == v) x t,
      fitsBs_concrete L pol vs xs ts]
end

/-! ## 6. `fitsB` and the declarative reading `Fits` -/

theorem inst_app (θ : Nat → Ty) (o : Nat) (ps : List Term) :
    (Term.app o ps).inst θ = .app o (Term.instL θ ps) := by
  rw [Term.inst]

theorem instL_cons (θ : Nat → Ty) (p : Term) (ps : List Term) :
    Term.instL θ (p :: ps) = p.inst θ :: Term.instL θ ps := by
  rw [Term.instL]

mutual
/-- if some instance of the pattern matches, the pattern fits (no side condition) -/
theorem fits_of_match (L : Lang) (θ : Nat → Ty) : ∀ (pol : Bool) (x : Ty) (p : Term),
    matchC L true pol x (p.inst θ) = true → fitsB L pol x p = true
  | _, _, .var _, _ => by rw [fitsB]
  | pol, .app xo xs, .app po ps, h => by
    rw [inst_app, matchC_app] at h
    rw [fitsB_app]
    by_cases c1 : ((if pol then xo else po) == BOT || (if pol then po else xo) == TOP) = true
    · simp only [c1, if_true]
    · by_cases c2 : (arityOf L (if pol then xo else po) == 0) = true
      · simp only [c1, c2, if_true, Bool.false_eq_true, if_false] at h ⊢
        exact h
      · by_cases c3 : ((if pol then xo else po) != (if pol then po else xo)) = true
        · simp only [c1, c2, c3, if_true, Bool.false_eq_true, if_false] at h
        · simp only [c1, c2, c3, Bool.false_eq_true, if_false] at h ⊢
          exact fitsBs_of_match L θ pol _ xs ps h
theorem fitsBs_of_match (L : Lang) (θ : Nat → Ty) : ∀ (pol : Bool) (vs : List Bool) (xs : List Ty)
    (ps : List Term), matchCs L true pol vs xs (Term.instL θ ps) = true → fitsBs L pol vs xs ps = true
  | pol, [], xs, ps, _ => fitsBs_nil_v L pol xs ps
  | pol, _ :: _, [], ps, _ => fitsBs_nil_x L pol _ ps
  | pol, _ :: _, _ :: _, [], _ => fitsBs_nil_p L pol _ _
  | pol, v :: vs, x :: xs, p :: ps, h => by
    rw [instL_cons, matchCs_cons, Bool.and_eq_true] at h
    rw [fitsBs_cons, Bool.and_eq_true]
    exact ⟨fits_of_match L θ (pol == v) x p h.1, fitsBs_of_match L θ pol vs xs ps h.2⟩
end

mutual
theorem matchC_refl (L : Lang) : ∀ (pol : Bool) (x : Ty), matchC L true pol x x = true
  | pol, .app a as => by
    rw [matchC_app]
    have := matchCs_refl L pol (varianceOf L a) as
    cases pol <;> simp [this]
theorem matchCs_refl (L : Lang) : ∀ (pol : Bool) (vs : List Bool) (xs : List Ty),
    matchCs L true pol vs xs xs = true
  | pol, [], xs => matchCs_nil_v L true pol xs xs
  | pol, _ :: _, [] => matchCs_nil_s L true pol _ _
  | pol, v :: vs, x :: xs => by
    rw [matchCs_cons, matchC_refl L (pol == v) x, matchCs_refl L pol vs xs]; rfl
end

mutual
/-- an instance depends only on the values of the variables that occur -/
theorem inst_congr (θ θ' : Nat → Ty) : ∀ (p : Term), (∀ v ∈ p.vars, θ v = θ' v) → p.inst θ = p.inst θ'
  | .var v, h => by
    rw [Term.inst, Term.inst]
    exact h v (by rw [Term.vars]; exact List.mem_singleton.mpr rfl)
  | .app o ps, h => by
    rw [inst_app, inst_app, instL_congr θ θ' ps (by rw [Term.vars] at h; exact h)]
theorem instL_congr (θ θ' : Nat → Ty) : ∀ (ps : List Term), (∀ v ∈ Term.varsL ps, θ v = θ' v) →
    Term.instL θ ps = Term.instL θ' ps
  | [], _ => by rw [Term.instL, Term.instL]
  | p :: ps, h => by
    rw [Term.varsL] at h
    rw [instL_cons, instL_cons,
      inst_congr θ θ' p (fun v hv => h v (List.mem_append_left _ hv)),
      instL_congr θ θ' ps (fun v hv => h v (List.mem_append_right _ hv))]
end

mutual
/-- a fitting linear pattern has a matching instance; every variable is given the component
of `x` it meets (or the default `d` where it meets none) -/
theorem match_of_fits (L : Lang) (d : Ty) (hd : wfTy L d = true) : ∀ (pol : Bool) (x : Ty) (p : Term),
    wfTy L x = true → p.vars.Nodup → fitsB L pol x p = true →
    ∃ θ : Nat → Ty, (∀ v, wfTy L (θ v) = true) ∧ matchC L true pol x (p.inst θ) = true
  | pol, x, .var v, hx, _, _ => by
    refine ⟨fun _ => x, fun _ => hx, ?_⟩
    rw [Term.inst]
    exact matchC_refl L pol x
  | pol, .app xo xs, .app po ps, hx, hl, h => by
    rw [fitsB_app] at h
    rw [Term.vars] at hl
    by_cases c1 : ((if pol then xo else po) == BOT || (if pol then po else xo) == TOP) = true
    · refine ⟨fun _ => d, fun _ => hd, ?_⟩
      rw [inst_app, matchC_app]
      simp only [c1, if_true]
    · by_cases c2 : (arityOf L (if pol then xo else po) == 0) = true
      · refine ⟨fun _ => d, fun _ => hd, ?_⟩
        rw [inst_app, matchC_app]
        simp only [c1, c2, if_true, Bool.false_eq_true, if_false] at h ⊢
        exact h
      · by_cases c3 : ((if pol then xo else po) != (if pol then po else xo)) = true
        · simp only [c1, c2, c3, if_true, Bool.false_eq_true, if_false] at h
        · simp only [c1, c2, c3, Bool.false_eq_true, if_false] at h
          obtain ⟨θ, hθ, hm⟩ := matchs_of_fits L d hd pol _ xs ps (wfTy_app hx).2 hl h
          refine ⟨θ, hθ, ?_⟩
          rw [inst_app, matchC_app]
          simp only [c1, c2, c3, Bool.false_eq_true, if_false]
          exact hm
theorem matchs_of_fits (L : Lang) (d : Ty) (hd : wfTy L d = true) : ∀ (pol : Bool) (vs : List Bool)
    (xs : List Ty) (ps : List Term),
    wfTyL L xs = true → (Term.varsL ps).Nodup → fitsBs L pol vs xs ps = true →
    ∃ θ : Nat → Ty, (∀ v, wfTy L (θ v) = true) ∧ matchCs L true pol vs xs (Term.instL θ ps) = true
  | pol, [], xs, ps, _, _, _ => ⟨fun _ => d, fun _ => hd, matchCs_nil_v L true pol _ _⟩
  | pol, _ :: _, [], ps, _, _, _ => ⟨fun _ => d, fun _ => hd, matchCs_nil_s L true pol _ _⟩
  | pol, _ :: _, _ :: _, [], _, _, _ =>
    ⟨fun _ => d, fun _ => hd, by rw [Term.instL]; exact matchCs_nil_t L true pol _ _⟩
  | pol, v :: vs, x :: xs, p :: ps, hx, hl, h => by
    rw [fitsBs_cons, Bool.and_eq_true] at h
    rw [Term.varsL, List.nodup_append] at hl
    obtain ⟨hl1, hl2, hdis⟩ := hl
    obtain ⟨θ1, hθ1, hm1⟩ := match_of_fits L d hd (pol == v) x p (wfTyL_cons hx).1 hl1 h.1
    obtain ⟨θ2, hθ2, hm2⟩ := matchs_of_fits L d hd pol vs xs ps (wfTyL_cons hx).2 hl2 h.2
    refine ⟨fun w => if w ∈ p.vars then θ1 w else θ2 w, ?_, ?_⟩
    · intro w
      by_cases hw : w ∈ p.vars
      · simp only [hw, if_true]; exact hθ1 w
      · simp only [hw, if_false]; exact hθ2 w
    · have e1 : p.inst (fun w => if w ∈ p.vars then θ1 w else θ2 w) = p.inst θ1 :=
        inst_congr _ _ p (fun w hw => by simp only [hw, if_true])
      have e2 : Term.instL (fun w => if w ∈ p.vars then θ1 w else θ2 w) ps = Term.instL θ2 ps :=
        instL_congr _ _ ps (fun w hw => by
          have : w ∉ p.vars := fun hw' => hdis w hw' w hw rfl
          simp only [this, if_false])
      rw [instL_cons, matchCs_cons, e1, e2, hm1, hm2]; rfl
end

mutual
theorem inst_wf (L : Lang) (θ : Nat → Ty) (hθ : ∀ v, wfTy L (θ v) = true) : ∀ (p : Term),
    wfTm L p = true → wfTy L (p.inst θ) = true
  | .var v, _ => by rw [Term.inst]; exact hθ v
  | .app o ps, h => by
    rw [wfTm] at h
    simp only [Bool.and_eq_true, decide_eq_true_eq, beq_iff_eq] at h
    obtain ⟨h3, h4⟩ := instL_wf L θ hθ ps h.2
    rw [inst_app, wfTy]
    simp only [Bool.and_eq_true, decide_eq_true_eq, beq_iff_eq]
    exact ⟨⟨h.1.1, h4.trans h.1.2⟩, h3⟩
theorem instL_wf (L : Lang) (θ : Nat → Ty) (hθ : ∀ v, wfTy L (θ v) = true) : ∀ (ps : List Term),
    wfTmL L ps = true → wfTyL L (Term.instL θ ps) = true ∧ (Term.instL θ ps).length = ps.length
  | [], _ => by rw [Term.instL, wfTyL]; exact ⟨rfl, rfl⟩
  | p :: ps, h => by
    rw [wfTmL, Bool.and_eq_true] at h
    obtain ⟨h3, h4⟩ := instL_wf L θ hθ ps h.2
    rw [instL_cons, wfTyL, Bool.and_eq_true]
    exact ⟨⟨inst_wf L θ hθ p h.1, h3⟩, by simp [h4]⟩
end

/-- for linear well-formed patterns the executable and the declarative reading agree (covariant side) -/
theorem fits_iff {L : Lang} (wf : WF L) (x : Ty) (p : Term)
    (hx : wfTy L x = true) (hp : wfTm L p = true) (hl : linear p) :
    fitsB L true x p = true ↔ Fits L x p := by
  constructor
  · intro h
    obtain ⟨θ, hθ, hm⟩ := match_of_fits L x hx true x p hx hl h
    refine ⟨θ, hθ, ?_⟩
    have := (matchC_true_iff wf true x (p.inst θ) hx (inst_wf L θ hθ p hp)).mp hm
    simpa using this
  · rintro ⟨θ, hθ, hs⟩
    apply fits_of_match L θ true x p
    exact (matchC_true_iff wf true x (p.inst θ) hx (inst_wf L θ hθ p hp)).mpr (by simpa using hs)

/-- the direction that needs no linearity -/
theorem fits_of_instance {L : Lang} (wf : WF L) (x : Ty) (p : Term)
    (hx : wfTy L x = true) (hp : wfTm L p = true) (h : Fits L x p) : fitsB L true x p = true := by
  obtain ⟨θ, hθ, hs⟩ := h
  exact fits_of_match L θ true x p
    ((matchC_true_iff wf true x (p.inst θ) hx (inst_wf L θ hθ p hp)).mpr (by simpa using hs))

/-- … and the contravariant side: some instance of the pattern lies below `x` -/
theorem fits_below_iff {L : Lang} (wf : WF L) (x : Ty) (p : Term)
    (hx : wfTy L x = true) (hp : wfTm L p = true) (hl : linear p) :
    fitsB L false x p = true ↔ FitsBelow L x p := by
  constructor
  · intro h
    obtain ⟨θ, hθ, hm⟩ := match_of_fits L x hx false x p hx hl h
    refine ⟨θ, hθ, ?_⟩
    have := (matchC_true_iff wf false x (p.inst θ) hx (inst_wf L θ hθ p hp)).mp hm
    simpa using this
  · rintro ⟨θ, hθ, hs⟩
    apply fits_of_match L θ false x p
    exact (matchC_true_iff wf false x (p.inst θ) hx (inst_wf L θ hθ p hp)).mpr (by simpa using hs)

/-! ## 7. packaging: elimination, the filter of `fulfill`, bounded reference variables -/

theorem match3_eliminates (L : Lang) (σ : Store) (n : Nat) (x : Ty) (p : Term)
    (hf : PatFree σ p) (hn : Ty.depth x < n) :
    match3 L σ n true true x.toTerm p = some false ↔ fitsB L true x p = false :=
  (match3_fits L σ n x p hf hn).1

theorem match3_eliminates_contra (L : Lang) (σ : Store) (n : Nat) (x : Ty) (p : Term)
    (hf : PatFree σ p) (hn : Ty.depth x < n) :
    match3 L σ n true true p x.toTerm = some false ↔ fitsB L false x p = false :=
  (match3_fits L σ n x p hf hn).2

theorem match3_keep_iff (L : Lang) (σ : Store) (n : Nat) (x : Ty) (p : Term)
    (hf : PatFree σ p) (hn : Ty.depth x < n) :
    (match3 L σ n true true x.toTerm p != some false) = fitsB L true x p := by
  have h := match3_eliminates L σ n x p hf hn
  cases hb : fitsB L true x p with
  | false => rw [h.mpr hb]; rfl
  | true =>
    have : match3 L σ n true true x.toTerm p ≠ some false := fun e => by
      rw [h.mp e] at hb; cases hb
    simpa using this

theorem match3_not_false_fits (L : Lang) (σ : Store) (n : Nat) (x : Ty) (p : Term)
    (hf : PatFree σ p) (hn : Ty.depth x < n)
    (h : match3 L σ n true true x.toTerm p ≠ some false) : fitsB L true x p = true := by
  cases hb : fitsB L true x p with
  | true => rfl
  | false => exact absurd ((match3_eliminates L σ n x p hf hn).mpr hb) h

theorem filter_keeps_fitting (L : Lang) (σ : Store) (n : Nat) (x : Ty) (alts : List Term)
    (hf : ∀ t ∈ alts, PatFree σ t) (hn : Ty.depth x < n) :
    alts.filter (fun t => match3 L σ n true true x.toTerm t != some false) =
      alts.filter (fun t => fitsB L true x t) :=
  List.filter_congr (fun t ht => match3_keep_iff L σ n x t (hf t ht) hn)

theorem filter_empty_iff (L : Lang) (σ : Store) (n : Nat) (x : Ty) (alts : List Term)
    (hf : ∀ t ∈ alts, PatFree σ t) (hn : Ty.depth x < n) :
    alts.filter (fun t => match3 L σ n true true x.toTerm t != some false) = [] ↔
      ∀ t ∈ alts, fitsB L true x t = false := by
  rw [filter_keeps_fitting L σ n x alts hf hn, List.filter_eq_nil_iff]
  simp

theorem filter_empty_iff_no_fit {L : Lang} (wf : WF L) (σ : Store) (n : Nat) (x : Ty) (alts : List Term)
    (hx : wfTy L x = true) (hp : ∀ t ∈ alts, wfTm L t = true) (hl : ∀ t ∈ alts, linear t)
    (hf : ∀ t ∈ alts, PatFree σ t) (hn : Ty.depth x < n) :
    alts.filter (fun t => match3 L σ n true true x.toTerm t != some false) = [] ↔
      ∀ t ∈ alts, ¬ Fits L x t := by
  rw [filter_empty_iff L σ n x alts hf hn]
  constructor
  · intro h t ht hfit
    have := (fits_iff wf x t hx (hp t ht) (hl t ht)).mpr hfit
    rw [h t ht] at this; cases this
  · intro h t ht
    cases hb : fitsB L true x t with
    | false => rfl
    | true => exact absurd ((fits_iff wf x t hx (hp t ht) (hl t ht)).mp hb) (h t ht)

/-- a concrete alternative is kept iff the argument is a declared subtype of it -/
theorem fits_concrete_sub {L : Lang} (wf : WF L) (x t : Ty) (hx : wfTy L x = true)
    (ht : wfTy L t = true) : fitsB L true x t.toTerm = true ↔ Sub L x t := by
  rw [fits_concrete]
  simpa using matchC_true_iff wf true x t hx ht

mutual
theorem vars_toTerm : ∀ (t : Ty), t.toTerm.vars = []
  | .app o ts => by rw [toTerm_app, Term.vars, varsL_toTermL ts]
theorem varsL_toTermL : ∀ (ts : List Ty), Term.varsL (Ty.toTermL ts) = []
  | [] => by rw [Ty.toTermL, Term.varsL]
  | t :: ts => by rw [toTermL_cons, Term.varsL, vars_toTerm t, varsL_toTermL ts]; rfl
end

theorem patFree_concrete (σ : Store) (t : Ty) : PatFree σ t.toTerm := by
  intro v hv; rw [vars_toTerm] at hv; cases hv

/-- one step of `match3` with an unbound variable on the left and an operation on the right -/
theorem match3_var_app (L : Lang) (σ : Store) (n : Nat) (a bo : Nat) (bs : List Term)
    (hb : (getVar σ a).bound = none) :
    match3 L σ (n+1) true true (.var a) (.app bo bs) =
      if (bo == TOP) = true then some true
      else if (((getVar σ a).upper.isSome || (getVar σ a).lower.isSome) && arityOf L bo != 0) = true
        then some false
      else if (getVar σ a).lower.any (fun l => !opSub L l bo) = true then some false
      else if (getVar σ a).wildcard = true then some true else none := by
  rw [match3]
  simp only [followT_app, followT_var_free σ a hb, Bool.true_and, Bool.not_true, Bool.false_and,
    Bool.false_eq_true, if_false]

theorem bounded_var_base (L : Lang) (σ : Store) (n : Nat) (a l bo : Nat) (bs : List Term) (hn : 0 < n)
    (hb : (getVar σ a).bound = none) (hl : (getVar σ a).lower = some l)
    (hu : (getVar σ a).upper = none) (h0 : arityOf L bo = 0) :
    match3 L σ n true true (.var a) (.app bo bs) = some false ↔
      (bo ≠ TOP ∧ opSub L l bo = false) := by
  obtain ⟨m, rfl⟩ : ∃ m, n = m + 1 := ⟨n - 1, by omega⟩
  rw [match3_var_app L σ m a bo bs hb, hl, hu]
  by_cases c1 : bo = TOP
  · simp [c1]
  · cases c2 : opSub L l bo <;> cases (getVar σ a).wildcard <;> simp [c1, c2, h0]

theorem bounded_var_compound (L : Lang) (σ : Store) (n : Nat) (a l bo : Nat) (bs : List Term) (hn : 0 < n)
    (hb : (getVar σ a).bound = none) (hl : (getVar σ a).lower = some l)
    (h0 : arityOf L bo ≠ 0) (ht : bo ≠ TOP) :
    match3 L σ n true true (.var a) (.app bo bs) = some false := by
  obtain ⟨m, rfl⟩ : ∃ m, n = m + 1 := ⟨n - 1, by omega⟩
  rw [match3_var_app L σ m a bo bs hb, hl]
  simp [ht, h0]

/-- with an upper bound only, a base-type alternative is never eliminated on the strength of that bound:
the variable may still become any subtype of the bound (repaired `match`: the bound on the other side
refutes nothing under `subtype=True`) -/
theorem bounded_var_upper (L : Lang) (σ : Store) (n : Nat) (a u bo : Nat) (bs : List Term) (hn : 0 < n)
    (hb : (getVar σ a).bound = none) (hl : (getVar σ a).lower = none)
    (_hu : (getVar σ a).upper = some u) (h0 : arityOf L bo = 0) :
    match3 L σ n true true (.var a) (.app bo bs) ≠ some false := by
  obtain ⟨m, rfl⟩ : ∃ m, n = m + 1 := ⟨n - 1, by omega⟩
  rw [match3_var_app L σ m a bo bs hb, hl]
  by_cases c1 : bo = TOP
  · simp [c1]
  · cases (getVar σ a).wildcard <;> simp [c1, h0]

/-! ## 8. a concrete language for the examples; linearity is needed in `fits_iff` -/

namespace FitsEx

/-- `A > B`, unary covariant `F`, binary covariant `G`, and an unrelated base type `C` -/
def exL : Lang := builtinDecls ++
  [⟨"A", [], none⟩, ⟨"B", [], some 5⟩, ⟨"F", [true], none⟩, ⟨"G", [true, true], none⟩, ⟨"C", [], none⟩]

theorem exL_wf : WF exL := wf_of_wfLangB exL (by decide)

/-- the non-linear pattern `b ** b` … -/
def pNonLinear : Term := .app FUN [.var 0, .var 0]
/-- … and the argument `A ** C` -/
def xAC : Ty := .app FUN [.app 5 [], .app 9 []]

theorem nonlinear_fitsB : fitsB exL true xAC pNonLinear = true := by decide

theorem nonlinear_not_fits : ¬ Fits exL xAC pNonLinear := by
  rintro ⟨θ, _, hs⟩
  have e : pNonLinear.inst θ = .app FUN [θ 0, θ 0] := by
    simp [pNonLinear, Term.inst, Term.instL]
  rw [e, xAC] at hs
  rcases sub_inv hs with ⟨h, _⟩ | ⟨h, _⟩ | ⟨h, _⟩ | ⟨_, _, h⟩
  · cases h
  · cases h
  · cases h
  · have hv : varianceOf exL FUN = [false, true] := rfl
    rw [hv] at h
    obtain ⟨h1, h2⟩ := subArgs_cons_false.mp h
    obtain ⟨h3, _⟩ := subArgs_cons_true.mp h2
    have hCA := sub_trans exL_wf (θ 0) _ _ h3 h1
    rcases sub_inv hCA with ⟨h, _⟩ | ⟨h, _⟩ | ⟨_, _, _, _, h⟩ | ⟨h, _⟩
    · cases h
    · cases h
    · cases h with
      | step hp _ =>
        have : parentOf exL 9 = none := rfl
        rw [this] at hp; cases hp
    · cases h

end FitsEx

end Tfv
