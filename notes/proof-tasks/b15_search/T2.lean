import Tfv.Proofs.ResolvedConstrExamples
open Tfv Tfv.C03P Tfv.C03C Tfv.C03R

def deepT : Nat → Term → Term
  | 0, t => t
  | n+1, t => .app 7 [deepT n t]
def deepTy : Nat → Ty → Ty
  | 0, t => t
  | n+1, t => .app 7 [deepTy n t]

def sDeep : Schema :=
  { nvars := 1, nwild := 0, body := .app FUN [.var 0, .var 0],
    constraints := [.sub (deepT 70 (.var 0)) (deepT 70 (.app 5 [])) false] }

theorem run_deep : runChk exL 400 sDeep [.app 0 []] (subChk 0 (deepTy 70 (.app 0 [])) (deepTy 70 (.app 5 []))) = true := by
  decide +kernel

theorem deep_not_sub : sub exL (deepTy 70 (.app 0 [])) (deepTy 70 (.app 5 [])) = false := by decide +kernel
