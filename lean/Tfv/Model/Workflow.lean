import Tfv.Model.Graph
/-!
# M8b — workflows (workflow.py: `Workflow.target`, `source_types`; graph.py: `add_workflow`)

A workflow is data: source resources and tool applications (output resource, expression tokens, input
resources) in their *listing order* — the order in which Python would iterate the set of tool outputs is
a parameter of the model. Resources are numbers; sources and tool outputs share one numbering.
-/
namespace Tfv

structure WfApp where
  out : Nat
  toks : List String
  inputs : List Nat
  deriving Repr, Inhabited

structure Wf where
  sources : List Nat
  apps : List WfApp
  names : List String := []      -- resource number ↦ name (for origin / input triples)
  deriving Repr, Inhabited

inductive WErr where
  | noUniqueTarget                       -- ValueError("must have exactly one final tool application")
  | composition (e : PErr)               -- WorkflowCompositionError(cause)
  | typing (e : Err)                     -- a TypingError outside a tool's parse (Expr.fix)
  | graph (e : GErr)
  | internal (site : String)
  deriving Repr, Inhabited

def Wf.app? (w : Wf) (r : Nat) : Option WfApp := w.apps.find? (fun a => a.out == r)
def Wf.resName (w : Wf) (r : Nat) : String := w.names.getD r ("r" ++ toString r)

/-- `Workflow.target()` -/
def Wf.target (w : Wf) : Except WErr Nat :=
  let consumed := w.apps.flatMap (·.inputs)
  match (w.apps.map (·.out)).eraseDups.filter (fun o => !consumed.contains o) with
  | [t] => .ok t
  | _ => .error .noUniqueTarget

/-- `Application(f, x, fix, unify=False)`: the node's type is a fresh variable -/
def mkAppNoUnify (s : XState) (f x : TExpr) : Except PErr (XState × TExpr) :=
  let (σ, v) := newVar s.store
  .ok ({ s with store := σ }, .app f x (.var v))

/-- `: T` with `unify=False`: only a source is unified with its annotation -/
def annotateNoUnify (L : Lang) (s : XState) (previous : TExpr) (t : Term) (nfresh : Nat) (prevDash : Bool) :
    Except PErr (XState × TExpr) :=
  let σ := allocVars s.store nfresh 0
  let previous := if prevDash && previous.isSource then previous.setTy t else previous
  if previous.isSource then
    match unify L exprFuel σ previous.ty t true false false with
    | .error _ => .error .typeAnnotation
    | .ok σ1 => .ok ({ s with store := σ1 }, previous)
  else .ok ({ s with store := σ }, previous)

/-- the builder of `parse_expr(…, unify=False)` -/
def untypedBuilder (L : Lang) (ops : List OperatorDecl) : Builder XState TExpr where
  mkSource := mkSourceT
  mkOp := mkOpT L ops
  mkApp := mkAppNoUnify
  annotate := annotateNoUnify L
  varBase s := s.store.vars.length

/-- three-valued `Type.is_subtype(a, b, strict=True)` (type.py:125-132): Python's `x and (not y)` on `Optional[bool]` -/
def isSubtypeStrict3 (L : Lang) (σ : Store) (a b : Term) : Option Bool :=
  match match3 L σ (matchFuel σ) true true a b with
  | none => none
  | some false => some false
  | some true =>
    match match3 L σ (matchFuel σ) false false a b with
    | some true => some false
    | _ => some true

/-- `Workflow.source_types(lang)`: the recorded type per source (in the listing order of the applications) -/
def sourceTypes (P : PLang) (ops : List OperatorDecl) (w : Wf) :
    XState → List WfApp → List (Nat × Term) → Except WErr (XState × List (Nat × Term))
  | s, [], acc => .ok (s, acc)
  | s, a :: rest, acc =>
    let (s1, inputs) := mkInputs a.inputs.length s
    match parseExprToks P (untypedBuilder P.types ops) inputs s1 a.toks with
    | .error e => .error (.composition e)
    | .ok (s2, e) =>
      match fixExpr P.types s2.store e with
      | .error err => .error (.typing err)
      | .ok (σ3, _) =>
        let s3 := { s2 with store := σ3 }
        let acc := (a.inputs.zip inputs).foldl (fun (acc : List (Nat × Term)) (p : Nat × TExpr) =>
          let node := p.1
          let ty := followT σ3 p.2.ty
          match ty with
          | .var _ => acc      -- a use that says nothing about the type of its input
          | _ =>
            if !w.sources.contains node then acc else
            match acc.find? (fun q => q.1 == node) with
            | none => acc ++ [(node, ty)]
            | some q =>
              if isSubtypeStrict3 P.types σ3 ty q.2 != some false then
                acc.map (fun r => if r.1 == node then (node, ty) else r)
              else acc) acc
        sourceTypes P ops w s3 rest acc

/-- the type each source object carries after a `fix()` traversal: a source visited several times is re-normalised
on every visit, the last visit wins (children are visited function part first, then the argument) -/
def srcTypesOf : TExpr → List (Nat × Term) → List (Nat × Term)
  | .src i _ t, acc => (acc.filter (fun p => p.1 != i)) ++ [(i, t)]
  | .op _ _, acc => acc
  | .app f x _, acc => srcTypesOf x (srcTypesOf f acc)
  | .shared _ e, acc => srcTypesOf e acc

/-- the expression object of each shared key after a `fix()` traversal (last visit wins) -/
def sharedOf : TExpr → List (Nat × TExpr) → List (Nat × TExpr)
  | .src _ _ _, acc => acc
  | .op _ _, acc => acc
  | .app f x _, acc => sharedOf x (sharedOf f acc)
  | .shared k e, acc => (((sharedOf e acc).filter (fun p => p.1 != k))) ++ [(k, .shared k e)]

/-- give every occurrence of a source the type its object currently carries -/
def setSrcTypes (tbl : List (Nat × Term)) : TExpr → TExpr
  | .src i l t => .src i l (((tbl.find? (fun p => p.1 == i)).map (·.2)).getD t)
  | .op n t => .op n t
  | .app f x t => .app (setSrcTypes tbl f) (setSrcTypes tbl x) t
  | .shared k e => .shared k (setSrcTypes tbl e)

structure WState where
  xs : XState := {}
  exprs : List (Nat × TExpr) := []            -- resource ↦ expression
  indirection : List (Nat × Nat) := []        -- (source id of the stand-in source, resource it stands for)
  srcTypes : List (Nat × Term) := []          -- source id ↦ the type its object carries since the last `fix()` that visited it
  deriving Repr, Inhabited

def WState.expr? (s : WState) (r : Nat) : Option TExpr := (s.exprs.find? (fun p => p.1 == r)).map (·.2)

/-- `wfnode2expr(wfnode)` of `add_workflow` -/
def wfExpr (P : PLang) (ops : List OperatorDecl) (w : Wf) (passthrough : Bool) :
    Nat → WState → Nat → Except WErr (WState × TExpr)
  | 0, _, _ => .error (.internal "fuel")
  | n+1, s, r =>
    match s.expr? r with
    | some e => .ok (s, e)
    | none =>
      match w.app? r with
      | none => .error (.internal "assert wfnode in wf.tool_outputs")
      | some a =>
        -- input_exprs = [wfnode2expr(n) for n in input_nodes]
        let r1 := a.inputs.foldlM (fun (acc : WState × List TExpr) i =>
          match wfExpr P ops w passthrough n acc.1 i with
          | .error e => Except.error e
          | .ok (s', e) => .ok (s', acc.2 ++ [e])) (s, [])
        match r1 with
        | .error e => .error e
        | .ok (s1, inputExprs) =>
          -- without passthrough, every input that is a tool output is replaced by a fresh source
          let r2 : Except WErr (WState × List TExpr) :=
            if passthrough then .ok (s1, inputExprs) else
            (a.inputs.zip inputExprs).foldlM (fun (acc : WState × List TExpr) (p : Nat × TExpr) =>
              if w.sources.contains p.1 then .ok (acc.1, acc.2 ++ [p.2]) else
              let (xs1, src) := mkSourceT acc.1.xs
              -- `e.fix()`: the producer's expression object is fixed (and its node types normalised) now
              match fixExpr P.types xs1.store p.2 with
              | .error err => Except.error (.typing err)
              | .ok (σ2, e2) =>
                let sid := match src with
                  | .src id _ _ => id
                  | _ => 0
                let ws' : WState :=
                  { xs := { xs1 with store := σ2 }
                    exprs := acc.1.exprs.map (fun q => if q.1 == p.1 then (q.1, e2) else q)
                    srcTypes := srcTypesOf e2 acc.1.srcTypes
                    indirection := acc.1.indirection ++ [(sid, p.1)] }
                .ok (ws', acc.2 ++ [src])) (s1, [])
          match r2 with
          | .error e => .error e
          | .ok (s2, inputs) =>
            match parseExprToks P (typedBuilder P.types ops true) inputs s2.xs a.toks with
            | .error e => .error (.composition e)
            | .ok (xs3, e) =>
              let e' := TExpr.shared r e
              .ok ({ s2 with xs := xs3, exprs := s2.exprs ++ [(r, e')] }, e')

/-- `wfnode2tfmnode(wfnode)`: inputs first, then the expression itself with the resource as origin -/
def wfNode (G : GLang) (c : GCfg) (w : Wf) (root : Node) (exprs : List (Nat × TExpr)) :
    Nat → GState → Nat → Except WErr (GState × Nat)
  | 0, _, _ => .error (.internal "fuel")
  | n+1, g, r =>
    match (exprs.find? (fun p => p.1 == r)).map (·.2) with
    | none => .error (.internal "unknown resource")
    | some e =>
      let memo : Option Nat := match e with
        | .shared k _ => (g.sharedNodes.find? (fun p => p.1 == k)).map (·.2)
        | .src id _ _ => (g.srcNodes.find? (fun p => p.1 == id)).map (·.2)
        | _ => none
      match memo with
      | some k => .ok (g, k)
      | none =>
        let r1 : Except WErr GState :=
          if w.sources.contains r then .ok g else
          match w.app? r with
          | none => .ok g
          | some a => a.inputs.foldlM (fun g i =>
              match wfNode G c w root exprs n g i with
              | .error e => Except.error e
              | .ok (g', _) => .ok g') g
        match r1 with
        | .error e => .error e
        | .ok g1 =>
          match addExpr G c root (some (.res (w.resName r))) g1 e none false with
          | .error ge => .error (.graph ge)
          | .ok (g2, node) => .ok (g2, node)

/-- `TransformationGraph.add_workflow(wf)`; returns the graph, the output node and the resource ↦ node map -/
def addWorkflow (P : PLang) (G : GLang) (ops : List OperatorDecl) (c : GCfg) (passthrough : Bool) (w : Wf) :
    Except WErr (GState × Nat × List (Nat × Nat)) :=
  let root := Node.res "workflow"
  match sourceTypes P ops w {} w.apps [] with
  | .error e => .error e
  | .ok (xs0, stypes) =>
    -- exprs[source] = Source(type): a source without recorded type gets a fresh (non-wildcard) variable
    let (xs1, srcExprs) := w.sources.foldl (fun (acc : XState × List (Nat × TExpr)) r =>
      let (σ, ty) := match stypes.find? (fun q => q.1 == r) with
        | some q => (acc.1.store, q.2)
        | none => let (σ, v) := newVar acc.1.store; (σ, Term.var v)
      ({ store := σ, nsrc := acc.1.nsrc + 1 }, acc.2 ++ [(r, TExpr.src acc.1.nsrc none ty)])) (xs0, [])
    match w.target with
    | .error e => .error e
    | .ok tgt =>
      match wfExpr P ops w passthrough (w.apps.length + 2) { xs := xs1, exprs := srcExprs } tgt with
      | .error e => .error e
      | .ok (ws, te) =>
        match fixExpr P.types ws.xs.store te with
        | .error err => .error (.typing err)
        | .ok (σf, te') =>
          -- the expression objects reachable from the target were fixed just now (last visit wins); the others keep
          -- what an earlier `e.fix()` left; every source occurrence reads the type its object carries now
          let fixedNow := sharedOf te' []
          let srcTbl := srcTypesOf te' ws.srcTypes
          let exprs := ws.exprs.map (fun p =>
            let e := ((fixedNow.find? (fun q => q.1 == p.1)).map (·.2)).getD p.2
            (p.1, setSrcTypes srcTbl e))
          let G := { G with store := σf }
          let g0 := initGraph G c
          match wfNode G c w root exprs (w.apps.length + 2) g0 tgt with
          | .error e => .error e
          | .ok (g1, outNode) =>
            -- stand-in sources are connected to the expressions they stand for
            let g2 := ws.indirection.foldl (fun (g : GState) (p : Nat × Nat) =>
              match g.srcNodes.find? (fun q => q.1 == p.1), g.sharedNodes.find? (fun q => q.1 == p.2) with
              | some s, some t => gAddFrom c g s.2 t.2 true
              | _, _ => g) g1
            -- inputs (every source of the workflow), output, class
            let r3 := w.sources.foldlM (fun (g : GState) r =>
              match wfNode G c w root exprs (w.apps.length + 2) g r with
              | .error e => Except.error e
              | .ok (g', k) => .ok (g'.add (root, .tf "input", .b k))) g2
            match r3 with
            | .error e => .error e
            | .ok g3 =>
              let g4 := g3.add (root, .tf "output", .b outNode)
              let g5 := if c.withClasses then g4.add (root, .rdf "type", .tf "Transformation") else g4
              let nodeMap := exprs.filterMap (fun p =>
                match p.2 with
                | .shared k _ => (g5.sharedNodes.find? (fun q => q.1 == k)).map (fun q => (p.1, q.2))
                | .src id _ _ => (g5.srcNodes.find? (fun q => q.1 == id)).map (fun q => (p.1, q.2))
                | _ => none)
              .ok (g5, outNode, nodeMap)

end Tfv
