import Tfv.Model.Basic
/-!
# Specification: the declared subtype order on concrete types

Short enough to read: `Anc` is the reflexive-transitive parent walk of the
base-type forest; `Sub` replaces base types by declared ancestors in
covariant positions and by descendants in contravariant positions, with
`Top` above and `Bottom` below everything.
-/
namespace Tfv

/-- declared ancestor relation (reflexive, transitive) -/
inductive Anc (L : Lang) : Nat → Nat → Prop
  | refl (a) : Anc L a a
  | step {a p b} : parentOf L a = some p → Anc L p b → Anc L a b

/-- Well-formed language, as Python construction forces it. -/
structure WF (L : Lang) : Prop where
  builtins : L.take 5 = builtinDecls
  parent_lt : ∀ a p, parentOf L a = some p → p < a
  child_nullary : ∀ a p, parentOf L a = some p → arityOf L a = 0
  parent_nullary : ∀ a p, parentOf L a = some p → arityOf L p = 0
  parent_not_top : ∀ a p, parentOf L a = some p → p ≠ TOP
  parent_not_bot : ∀ a p, parentOf L a = some p → p ≠ BOT
  builtin_orphan : ∀ a p, parentOf L a = some p → 5 ≤ a

mutual
/-- `Sub L s t`: `s` is a subtype of `t` in the declared order. -/
inductive Sub (L : Lang) : Ty → Ty → Prop
  | bot (t : Ty) : Sub L (.app BOT []) t
  | top (s : Ty) : Sub L s (.app TOP [])
  | base {a b : Nat} : arityOf L a = 0 → arityOf L b = 0 → Anc L a b → Sub L (.app a []) (.app b [])
  | cong {o : Nat} {as bs : List Ty} : arityOf L o ≠ 0 →
      SubArgs L (varianceOf L o) as bs → Sub L (.app o as) (.app o bs)
/-- argument lists related position-wise, flipping in contravariant positions -/
inductive SubArgs (L : Lang) : List Bool → List Ty → List Ty → Prop
  | nil : SubArgs L [] [] []
  | co {vs s ss t ts} : Sub L s t → SubArgs L vs ss ts → SubArgs L (true :: vs) (s :: ss) (t :: ts)
  | contra {vs s ss t ts} : Sub L t s → SubArgs L vs ss ts → SubArgs L (false :: vs) (s :: ss) (t :: ts)
end

end Tfv
