import Tfv.Model
namespace Tfv.C16
theorem placeholder : True := trivial
end Tfv.C16
