import Tfv
import Tfv.Props.C03Resolved
