import Tfv.Proofs.WildManyUnify
import Tfv.Proofs.InferConstrCheck
/-!
# The lockstep induction over `unify`/`unifyList` (as `fulfill` calls them: subtype mode, `skip_basic`, no `skip_wildcard`)

On an `OkStoreC`/`Chains` store with ANY number of wildcards a successful `unify … true true false` leaves `Unif` for its two
arguments, in every branch but one: `(.app ao as, .var bv)` with `arityOf ao ≠ 0`, where the model unifies the new skeleton
with itself. That branch is the hypothesis `SkelR`.
-/
namespace Tfv.C03X
open Tfv Tfv.C03P Tfv.C03C Tfv.C03R Tfv.C16P Tfv.C17E

/-- `I` is kept by the `unify` of `fulfill` -/
def KeptU (I : Store → Prop) (L : Lang) : Prop :=
  ∀ n σ a b σ1, I σ → unify L n σ a b true true false = .ok σ1 → I σ1

/-- `I` is kept by binding a variable to a fresh skeleton -/
def KeptB (I : Store → Prop) (L : Lang) : Prop :=
  ∀ n σ k v o σ2, I σ → bind L n (newVars σ k).1 v (.app o (newVars σ k).2) = .ok σ2 → I σ2

def UnifyU (I : Store → Prop) (L : Lang) (n : Nat) : Prop :=
  ∀ σ a b σ1, OkStoreC L σ → Chains σ → I σ → okTerm L σ a = true → okTerm L σ b = true →
    unify L n σ a b true true false = .ok σ1 → ∀ m, Unif L σ1 m a b

def UnifyListU (I : Store → Prop) (L : Lang) (n : Nat) : Prop :=
  ∀ σ vs xs ys σ1, OkStoreC L σ → Chains σ → I σ → okTermL L σ xs = true → okTermL L σ ys = true →
    unifyList L n σ vs xs ys true true false = .ok σ1 →
    ∀ m v s t, (v, s, t) ∈ vs.zip (xs.zip ys) → (v = true → Unif L σ1 m s t) ∧ (v = false → Unif L σ1 m t s)

/-- the open branch: `F(as)` against an unbound variable `bv`, skeleton `F(fresh)` bound to `bv`, then `unify bv bv` -/
def SkelR (I : Store → Prop) (L : Lang) (n : Nat) : Prop :=
  ∀ σ ao as bv σ2 σ1, OkStoreC L σ → Chains σ → I σ → okTerm L σ (.app ao as) = true → bv < σ.vars.length →
    arityOf L ao ≠ 0 → ao ≠ BOT →
    bind L n (newVars σ as.length).1 bv (.app ao (newVars σ as.length).2) = .ok σ2 →
    unify L n σ2 (.var bv) (.var bv) true true false = .ok σ1 → ∀ m, Unif L σ1 m (.app ao as) (.var bv)

theorem unifyList_chains {L : Lang} {n : Nat} {σ σ1 : Store} {vs : List Bool} {xs ys : List Term} {st sb sw : Bool}
    (hc : Chains σ) (h : unifyList L n σ vs xs ys st sb sw = .ok σ1) : Chains σ1 := by
  have := (all_noInternal L n).2.1 σ vs xs ys st sb sw hc
  rw [h] at this
  exact this.ch

theorem unifyList_ext {L : Lang} {n : Nat} {σ σ1 : Store} {vs : List Bool} {xs ys : List Term} {st sb sw : Bool}
    (h : unifyList L n σ vs xs ys st sb sw = .ok σ1) : Ext σ σ1 :=
  ((all_ext L n).2.1 σ vs xs ys st sb sw).step h

theorem unifyList_stepU {I : Store → Prop} {L : Lang} (wf : WF L) (kU : KeptU I L) {n : Nat} (hunify : UnifyU I L n)
    (hlist : UnifyListU I L n) : UnifyListU I L (n+1) := by
  intro σ vs xs ys σ1 okc hc hI hxs hys h m v' s t hm
  cases vs with
  | nil => simp at hm
  | cons v vs =>
    cases xs with
    | nil => simp at hm
    | cons x xs =>
      cases ys with
      | nil => simp at hm
      | cons y ys =>
        rw [unifyList_cons] at h
        obtain ⟨hx, hxs'⟩ := okTermL_cons.mp hxs
        obtain ⟨hy, hys'⟩ := okTermL_cons.mp hys
        split at h
        · cases h
        · next σa ha =>
          have hs : StepC L σ σa ∧ Chains σa ∧ I σa ∧
              ∀ m, (v = true → Unif L σa m x y) ∧ (v = false → Unif L σa m y x) := by
            cases v with
            | true =>
              rw [if_pos rfl] at ha
              exact ⟨((all_soundC wf n).1 σ x y true false σa okc hx hy ha).1, unify_chains hc ha, kU n σ x y σa hI ha,
                fun m => ⟨fun _ => hunify σ x y σa okc hc hI hx hy ha m, fun e => Bool.noConfusion e⟩⟩
            | false =>
              rw [if_neg (by decide)] at ha
              exact ⟨((all_soundC wf n).1 σ y x true false σa okc hy hx ha).1, unify_chains hc ha, kU n σ y x σa hI ha,
                fun m => ⟨fun e => Bool.noConfusion e, fun _ => hunify σ y x σa okc hc hI hy hx ha m⟩⟩
          obtain ⟨sa, hca, hIa, hu⟩ := hs
          have e1 := unifyList_ext h
          have hc1 := unifyList_chains hca h
          simp only [List.zip_cons_cons, List.mem_cons, Prod.mk.injEq] at hm
          rcases hm with ⟨rfl, rfl, rfl⟩ | hm
          · exact ⟨fun hv => unif_stable L e1 hc1 m _ _ ((hu m).1 hv),
                   fun hv => unif_stable L e1 hc1 m _ _ ((hu m).2 hv)⟩
          · exact hlist σa vs xs ys σ1 sa.ok hca hIa (sa.okTermL hxs') (sa.okTermL hys') h m v' s t hm

theorem bind_ok_unbound {L : Lang} {n : Nat} {σ σ' : Store} {v : Nat} {t : Term} (h : bind L n σ v t = .ok σ') :
    (getVar σ v).bound = none := by
  cases n with
  | zero => unfold bind at h; cases h
  | succ n =>
    cases hb : (getVar σ v).bound with
    | none => rfl
    | some b =>
      cases t with
      | var tv => rw [bind_var_eq, hb] at h; simp at h
      | app o args => rw [bind_app_eq, hb] at h; simp at h

theorem followT_unb {σ : Store} {v : Nat} (h : (getVar σ v).bound = none) : followT σ (.var v) = .var v := by
  unfold followT follow
  rw [h]

theorem unif_var_app_skip (L : Lang) {σ : Store} {av bo : Nat} {bs : List Term} (hu : (getVar σ av).bound = none)
    (h : bo = TOP ∨ arityOf L bo = 0) : ∀ m, Unif L σ m (.var av) (.app bo bs)
  | 0 => by unfold Unif; trivial
  | m+1 => by unfold Unif; rw [followT_unb hu, followT_app]; exact h

theorem unif_app_var_skip (L : Lang) {σ : Store} {bv ao : Nat} {as : List Term} (hu : (getVar σ bv).bound = none)
    (h : ao = BOT ∨ arityOf L ao = 0) : ∀ m, Unif L σ m (.app ao as) (.var bv)
  | 0 => by unfold Unif; trivial
  | m+1 => by unfold Unif; rw [followT_unb hu, followT_app]; exact h

theorem unif_app_app_of (L : Lang) {σ : Store} {ao bo : Nat} {as bs : List Term} :
    ∀ m, (∀ k, ao = BOT ∨ bo = TOP ∨ arityOf L ao = 0 ∨ ao ≠ bo ∨
        ∀ v s t, (v, s, t) ∈ (varianceOf L ao).zip (as.zip bs) →
          (v = true → Unif L σ k s t) ∧ (v = false → Unif L σ k t s)) →
      Unif L σ m (.app ao as) (.app bo bs)
  | 0, _ => by unfold Unif; trivial
  | m+1, h => by unfold Unif; rw [followT_app, followT_app]; exact h m

theorem unify_stepU {I : Store → Prop} {L : Lang} (wf : WF L) (kB : KeptB I L) {n : Nat} (hunify : UnifyU I L n)
    (hlist : UnifyListU I L n) (hskel : SkelR I L n) : UnifyU I L (n+1) := by
  intro σ a b σ1 okc hc hI ha hb h m
  have ok := okc.ok
  have ha' := okTerm_followT ok a ha
  have hb' := okTerm_followT ok b hb
  have e := unify_ext h
  have hc1 := unify_chains hc h
  cases ea : followT σ a with
  | var av =>
    rw [ea] at ha'
    have hav := okTerm_var.mp ha'
    have hua := hc.unbound ea
    cases eb : followT σ b with
    | var bv => exact unify_var_var_unif hc hav ea eb h m
    | app bo bs =>
      rw [eb] at hb'
      obtain ⟨hbo, hbsl, hbs⟩ := okTerm_app.mp hb'
      apply unif_of_followed L e hc1
      rw [ea, eb]
      rw [unify.eq_2, ea, eb] at h
      simp only [] at h
      split at h
      · next htop =>
        have htop : bo = TOP := by simpa using htop
        injection h with h; subst h
        exact unif_var_app_skip L hua (Or.inl htop) m
      · split at h
        · cases h
        · split at h
          · next h0 =>
            have h0 : arityOf L bo = 0 := by simpa using h0
            split at h
            · injection h with h; subst h
              exact unif_var_app_skip L hua (Or.inr h0) m
            · next hskip => simp at hskip
          · next h0 =>
            have h0 : arityOf L bo ≠ 0 := by simpa using h0
            split at h
            · obtain ⟨s1, hfresh, hflen⟩ := stepC_newVars (L := L) bs.length okc
              have hch1 : Chains (newVars σ bs.length).1 := (stepN_newVars hc bs.length).ch
              split at h
              · cases h
              · next σ2 hb2 =>
                obtain ⟨s2, _⟩ := (all_soundC wf n).2.2.1 _ av _ σ2 s1.ok (Nat.lt_of_lt_of_le hav s1.len)
                  (okTerm_app.mpr ⟨hbo, by rw [hflen]; exact hbsl, hfresh⟩) (bindPre_compound h0) hb2
                have hch2 : Chains σ2 := by
                  have := (all_noInternal L n).2.2.1 (newVars σ bs.length).1 av (.app bo (newVars σ bs.length).2) hch1
                    (bind_ok_unbound hb2) (final_app _ _ _)
                  rw [hb2] at this
                  exact this.ch
                have s12 := s1.trans s2
                exact hunify σ2 (.var av) (.app bo bs) σ1 s2.ok hch2 (kB n σ bs.length av bo σ2 hI hb2) (s12.okTerm ha') (s12.okTerm hb') h m
            · next hskip => simp at hskip
  | app ao as =>
    rw [ea] at ha'
    obtain ⟨hao, hasl, has⟩ := okTerm_app.mp ha'
    cases eb : followT σ b with
    | app bo bs =>
      rw [eb] at hb'
      obtain ⟨hbo, hbsl, hbs⟩ := okTerm_app.mp hb'
      apply unif_of_followed L e hc1
      rw [ea, eb]
      rw [unify.eq_2, ea, eb] at h
      simp only [] at h
      split at h
      · next hbt =>
        simp only [Bool.or_eq_true, beq_iff_eq] at hbt
        injection h with h; subst h
        apply unif_app_app_of L m
        intro k
        rcases hbt with hh | hh
        · exact Or.inl hh
        · exact Or.inr (Or.inl hh)
      · split at h
        · next h0 =>
          have h0 : arityOf L ao = 0 := by simpa using h0
          apply unif_app_app_of L m
          intro k
          exact Or.inr (Or.inr (Or.inl h0))
        · split at h
          · next heq =>
            have heq : ao = bo := by simpa using heq
            subst heq
            apply unif_app_app_of L m
            intro k
            refine Or.inr (Or.inr (Or.inr (Or.inr ?_)))
            exact hlist σ _ as bs σ1 okc hc hI has hbs h k
          · cases h
    | var bv =>
      rw [eb] at hb'
      have hbv := okTerm_var.mp hb'
      have hub := hc.unbound eb
      apply unif_of_followed L e hc1
      rw [ea, eb]
      rw [unify.eq_2, ea, eb] at h
      simp only [] at h
      split at h
      · next hbot =>
        have hbot : ao = BOT := by simpa using hbot
        injection h with h; subst h
        exact unif_app_var_skip L hub (Or.inl hbot) m
      · next hbot =>
        have hbot : ao ≠ BOT := by simpa using hbot
        split at h
        · cases h
        · split at h
          · next h0 =>
            have h0 : arityOf L ao = 0 := by simpa using h0
            split at h
            · injection h with h; subst h
              exact unif_app_var_skip L hub (Or.inr h0) m
            · next hskip => simp at hskip
          · next h0 =>
            have h0 : arityOf L ao ≠ 0 := by simpa using h0
            split at h
            · split at h
              · cases h
              · next σ2 hb2 =>
                exact hskel σ ao as bv σ2 σ1 okc hc hI (okTerm_app.mpr ⟨hao, hasl, has⟩) hbv h0 hbot hb2 h m
            · next hskip => simp at hskip

/-- the lockstep theorem, modulo the skeleton branch -/
theorem all_lock {I : Store → Prop} {L : Lang} (wf : WF L) (kU : KeptU I L) (kB : KeptB I L) (hs : ∀ n, SkelR I L n) :
    ∀ n, UnifyU I L n ∧ UnifyListU I L n
  | 0 => by
    refine ⟨?_, ?_⟩
    · intro σ a b σ1 _ _ _ _ _ h; unfold unify at h; cases h
    · intro σ vs xs ys σ1 _ _ _ _ _ h; unfold unifyList at h; cases h
  | n+1 => by
    obtain ⟨h1, h2⟩ := all_lock wf kU kB hs n
    exact ⟨unify_stepU wf kB h1 h2 (hs n), unifyList_stepU wf kU h1 h2⟩

/-- the same with the skeleton branch assumed only for the fuels below `n` -/
theorem all_lock_lt {I : Store → Prop} {L : Lang} (wf : WF L) (kU : KeptU I L) (kB : KeptB I L) :
    ∀ n, (∀ k, k < n → SkelR I L k) → UnifyU I L n ∧ UnifyListU I L n
  | 0, _ => by
    refine ⟨?_, ?_⟩
    · intro σ a b σ1 _ _ _ _ _ h; unfold unify at h; cases h
    · intro σ vs xs ys σ1 _ _ _ _ _ h; unfold unifyList at h; cases h
  | n+1, hs => by
    obtain ⟨h1, h2⟩ := all_lock_lt wf kU kB n (fun k hk => hs k (by omega))
    exact ⟨unify_stepU wf kB h1 h2 (hs n (by omega)), unifyList_stepU wf kU h1 h2⟩

/-- `fulfill` on a well-formed store with ANY number of wildcards: a mark is set only when the strict matcher answers
`some true` on the resulting store, modulo the skeleton branch (`SkelR` for the fuels below the fuel of the `unify`) -/
theorem fulfill_mark_strict_lock {I : Store → Prop} {L : Lang} (wf : WF L) (kU : KeptU I L) (kB : KeptB I L) {k : Nat} {σ σ' : Store} {c : Nat} {d : Bool}
    {ref tgt : Term} {s f : Bool} (okc : OkStoreC L σ) (hc : Chains σ) (hI : I σ)
    (hr : okTerm L σ ref = true) (ht : okTerm L σ tgt = true) (hs : ∀ j, j < k → SkelR I L j)
    (hg : getConstr σ c = .sub ref tgt s f) (h : fulfill L (k+1) σ c = .ok (σ', d)) :
    (match3 L (dewild σ') (matchFuel σ') true false ref tgt = some true ∧ d = true) ∨
    (∃ σ1, unify L k σ ref tgt true true false = .ok σ1 ∧ σ' = σ1 ∧
      match3 L σ1 (matchFuel σ1) true false ref tgt = none) :=
  fulfill_mark_strict_of_pairs hg h (fun σ1 h1 =>
    unif_pairsOK L σ1 _ ref tgt ((all_lock_lt wf kU kB k hs).1 σ ref tgt σ1 okc hc hI hr ht h1 _))

end Tfv.C03X
