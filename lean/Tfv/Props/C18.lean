import Tfv.Model
namespace Tfv.C18
theorem placeholder : True := trivial
end Tfv.C18
