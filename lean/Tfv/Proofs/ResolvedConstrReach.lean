import Tfv.Proofs.ResolvedConstrMatch
/-!
# Resolution and reachable variables when the store changes

* stores with the same `followT` have the same `Res` / `Reach`;
* one new binding `v := b` (`NewBind`): a term that resolves afterwards resolved before or reached `v`
  (no deeper than its resolution is); a variable reached afterwards was reached before, or is reached from `b`
  below a place where `v` was reached;
* `directVars` finds every variable reached within its fuel.
-/
namespace Tfv.C03R
open Tfv Tfv.C03P Tfv.C03C Tfv.C16P Tfv.C17E

/-! ## 1. stores with the same `followT` -/

def FollowEq (σ σ' : Store) : Prop := ∀ t, followT σ' t = followT σ t

theorem FollowEq.refl (σ : Store) : FollowEq σ σ := fun _ => rfl

theorem FollowEq.symm {σ σ' : Store} (h : FollowEq σ σ') : FollowEq σ' σ := fun t => (h t).symm

theorem FollowEq.trans {a b c : Store} (h1 : FollowEq a b) (h2 : FollowEq b c) : FollowEq a c :=
  fun t => (h2 t).trans (h1 t)

theorem follow_congr_bound {σ σ' : Store} (h : ∀ w, (getVar σ' w).bound = (getVar σ w).bound) :
    ∀ (k : Nat) (t : Term), follow σ' k t = follow σ k t
  | 0, t => by rw [follow_zero, follow_zero]
  | k+1, .app o args => by rw [follow_app, follow_app]
  | k+1, .var v => by
    rw [follow_succ_var, follow_succ_var, h v]
    cases (getVar σ v).bound with
    | none => rfl
    | some b => exact follow_congr_bound h k b

/-- same bindings, same number of variables -/
theorem followEq_of_same {σ σ' : Store} (hl : σ'.vars.length = σ.vars.length)
    (h : ∀ w, (getVar σ' w).bound = (getVar σ w).bound) : FollowEq σ σ' := by
  intro t
  unfold followT
  rw [hl]
  exact follow_congr_bound h _ t

theorem followEq_of_sameCore {σ σ' : Store} (c : SameCore σ σ') : FollowEq σ σ' :=
  followEq_of_same c.len c.bound

/-- same bindings, more variables (the old store has enough fuel) -/
theorem followEq_of_grow {σ σ' : Store} (hc : Chains σ) (hl : σ.vars.length ≤ σ'.vars.length)
    (h : ∀ w, (getVar σ' w).bound = (getVar σ w).bound) : FollowEq σ σ' := by
  intro t
  unfold followT
  rw [follow_congr_bound h]
  obtain ⟨j, hj⟩ := Nat.exists_eq_add_of_le hl
  have : σ'.vars.length + 1 = (σ.vars.length + 1) + j := by omega
  rw [this]
  exact follow_final_more _ _ _ (hc.finalT t)

mutual
theorem FollowEq.res {σ σ' : Store} (h : FollowEq σ σ') : ∀ (τ : Ty) (t : Term), Res σ t τ → Res σ' t τ
  | .app o τs, t, hr => by
    rw [res_app] at hr ⊢
    obtain ⟨args, e, hl⟩ := hr
    exact ⟨args, (h t).trans e, FollowEq.resL h τs args hl⟩
theorem FollowEq.resL {σ σ' : Store} (h : FollowEq σ σ') : ∀ (τs : List Ty) (ts : List Term),
    ResL σ ts τs → ResL σ' ts τs
  | [], ts, hr => by rw [resL_nil_right] at hr; subst hr; exact resL_nil
  | τ :: τs, [], hr => by rw [resL_nil_left] at hr; cases hr
  | τ :: τs, t :: ts, hr => by
    rw [resL_cons] at hr ⊢
    exact ⟨FollowEq.res h τ t hr.1, FollowEq.resL h τs ts hr.2⟩
end

theorem FollowEq.reach {σ σ' : Store} (h : FollowEq σ σ') {t : Term} {u d : Nat} (hr : Reach σ t u d) :
    Reach σ' t u d := by
  induction hr with
  | here e => exact Reach.here ((h _).trans e)
  | app e hm _ ih => exact Reach.app ((h _).trans e) hm ih

/-! ## 1b. following in a later store -/

theorem Ext.follow_split {σ σ' : Store} (h : Ext σ σ') : ∀ (k : Nat) (t : Term) (j : Nat),
    ∃ j', j ≤ j' ∧ follow σ' (k + j) t = follow σ' j' (follow σ k t)
  | 0, t, j => ⟨j, Nat.le_refl _, by rw [Nat.zero_add, follow_zero]⟩
  | k+1, .app o args, j => ⟨j, Nat.le_refl _, by rw [follow_app, follow_app, follow_app]⟩
  | k+1, .var w, j => by
    rw [follow_succ_var σ k w]
    cases hb : (getVar σ w).bound with
    | none => exact ⟨k + 1 + j, by omega, rfl⟩
    | some b =>
      obtain ⟨j', hj, e⟩ := Ext.follow_split h k b j
      refine ⟨j', hj, ?_⟩
      have : k + 1 + j = (k + j) + 1 := by omega
      rw [this, follow_succ_var, h.bound w b hb]
      exact e

/-- following in a later store can start from what following in the earlier store gives -/
theorem Ext.followT_comp {σ σ' : Store} (h : Ext σ σ') (hc' : Chains σ') (t : Term) :
    followT σ' t = followT σ' (followT σ t) := by
  have hf : Final σ' (follow σ' (σ'.vars.length + 1) t) := hc'.finalT t
  obtain ⟨j', hj, e⟩ := h.follow_split (σ.vars.length + 1) t (σ'.vars.length + 1)
  have e1 : followT σ' t = follow σ' ((σ.vars.length + 1) + (σ'.vars.length + 1)) t := by
    unfold followT
    rw [Nat.add_comm (σ.vars.length + 1), follow_final_more _ _ _ hf]
  rw [e1, e]
  obtain ⟨i, hi⟩ := Nat.exists_eq_add_of_le hj
  unfold followT
  rw [hi, follow_final_more _ _ _ (hc'.finalT _)]

/-! ## 2. reached variables are allocated -/

theorem reach_lt {L : Lang} {σ : Store} (ok : OkStore L σ) {t : Term} {u d : Nat} (hr : Reach σ t u d) :
    okTerm L σ t = true → u < σ.vars.length := by
  induction hr with
  | here e =>
    intro ht
    have := okTerm_followT ok _ ht
    rw [e] at this
    exact okTerm_var.mp this
  | app e hm _ ih =>
    intro ht
    have := okTerm_followT ok _ ht
    rw [e] at this
    exact ih (okTermL_iff.mp (okTerm_app.mp this).2.2 _ hm)

/-! ## 3. `directVars` finds the reached variables -/

theorem foldl_mem_acc {α : Type} (f : List Nat → α → List Nat) (hf : ∀ acc a x, x ∈ acc → x ∈ f acc a) :
    ∀ (l : List α) (acc : List Nat) (x : Nat), x ∈ acc → x ∈ l.foldl f acc
  | [], _, _, h => h
  | a :: l, acc, x, h => by
    simp only [List.foldl_cons]
    exact foldl_mem_acc f hf l _ x (hf acc a x h)

theorem foldl_mem_elem {α : Type} (f : List Nat → α → List Nat) (hf : ∀ acc a x, x ∈ acc → x ∈ f acc a)
    {a : α} {u : Nat} (ha : ∀ acc, u ∈ f acc a) :
    ∀ (l : List α) (acc : List Nat), a ∈ l → u ∈ l.foldl f acc
  | [], _, h => nomatch h
  | b :: l, acc, h => by
    simp only [List.foldl_cons]
    rcases List.mem_cons.mp h with e | e
    · subst e
      exact foldl_mem_acc f hf l _ u (ha acc)
    · exact foldl_mem_elem f hf ha l _ e

theorem directVars_acc (σ : Store) : ∀ (k : Nat) (acc : List Nat) (t : Term) (x : Nat),
    x ∈ acc → x ∈ directVars σ k t acc
  | 0, acc, t, x, h => by rw [directVars_zero]; exact h
  | k+1, acc, t, x, h => by
    unfold directVars
    split
    · split
      · exact h
      · exact List.mem_append_left _ h
    · exact foldl_mem_acc _ (fun acc a x hx => directVars_acc σ k acc a x hx) _ acc x h

theorem directVars_reach {σ : Store} {t : Term} {u d : Nat} (hr : Reach σ t u d) :
    ∀ (k : Nat) (acc : List Nat), d < k → u ∈ directVars σ k t acc := by
  induction hr with
  | @here t u e =>
    intro k acc hk
    obtain ⟨k', rfl⟩ : ∃ k', k = k' + 1 := ⟨k - 1, by omega⟩
    unfold directVars
    rw [e]
    simp only []
    split
    · next hc => simpa using hc
    · exact List.mem_append_right _ List.mem_cons_self
  | @app t o args a u d e hm _ ih =>
    intro k acc hk
    obtain ⟨k', rfl⟩ : ∃ k', k = k' + 1 := ⟨k - 1, by omega⟩
    unfold directVars
    rw [e]
    simp only []
    exact foldl_mem_elem _ (fun acc a x hx => directVars_acc σ k' acc a x hx)
      (fun acc => ih k' acc (by omega)) args acc hm

/-! ## 4. one new binding -/

/-- `σm` is `σ` with the unresolved variable `v` bound to the final term `b` -/
structure NewBind (σ σm : Store) (v : Nat) (b : Term) : Prop where
  len : σm.vars.length = σ.vars.length
  ne : ∀ w, w ≠ v → (getVar σm w).bound = (getVar σ w).bound
  unb : (getVar σ v).bound = none
  bnd : (getVar σm v).bound = some b
  fin : Final σm b

def sb (v : Nat) (b : Term) : Term → Term
  | .var u => if u = v then b else .var u
  | t => t

theorem NewBind.follow_eq {σ σm : Store} {v : Nat} {b : Term} (N : NewBind σ σm v b) :
    ∀ (k : Nat) (t : Term), Final σ (follow σ k t) → follow σm (k+1) t = sb v b (follow σ k t)
  | k, .app o args, _ => by rw [follow_app, follow_app]; rfl
  | 0, .var w, h => by
    rw [follow_zero] at h ⊢
    rw [follow_succ_var]
    by_cases e : w = v
    · subst e
      rw [N.bnd]
      simp only [sb, if_true]
      exact follow_zero _ _
    · rw [N.ne w e]
      have h' : (getVar σ w).bound = none := h
      rw [h']
      simp only [sb, if_neg e]
  | k+1, .var w, h => by
    rw [follow_succ_var] at h
    rw [follow_succ_var σm (k+1), follow_succ_var σ k]
    by_cases e : w = v
    · subst e
      rw [N.bnd, N.unb]
      simp only [sb, if_true]
      exact follow_of_final N.fin _
    · rw [N.ne w e]
      cases hb : (getVar σ w).bound with
      | none => simp only [sb, if_neg e]
      | some b' =>
        rw [hb] at h
        exact N.follow_eq k b' h

theorem NewBind.followT_eq {σ σm : Store} {v : Nat} {b : Term} (N : NewBind σ σm v b) (hc : Chains σ) (t : Term) :
    followT σm t = sb v b (followT σ t) := by
  have hf : Final σ (follow σ σ.vars.length t) := hc.final_ge (nb_le σ) t
  unfold followT
  rw [N.len, N.follow_eq _ t hf, follow_final_more _ 1 t hf]

theorem NewBind.followT_app {σ σm : Store} {v : Nat} {b : Term} (N : NewBind σ σm v b) (hc : Chains σ) {t : Term}
    {o : Nat} {args : List Term} (e : followT σ t = .app o args) : followT σm t = .app o args := by
  rw [N.followT_eq hc, e]; rfl

theorem NewBind.followT_var {σ σm : Store} {v : Nat} {b : Term} (N : NewBind σ σm v b) (hc : Chains σ) {t : Term}
    (e : followT σ t = .var v) : followT σm t = b := by
  rw [N.followT_eq hc, e]; simp only [sb, if_true]

theorem NewBind.followT_other {σ σm : Store} {v : Nat} {b : Term} (N : NewBind σ σm v b) (hc : Chains σ) {t : Term}
    {w : Nat} (e : followT σ t = .var w) (hne : w ≠ v) : followT σm t = .var w := by
  rw [N.followT_eq hc, e]; simp only [sb, if_neg hne]

theorem followT_of_final {σ : Store} {t : Term} (h : Final σ t) : followT σ t = t := follow_of_final h _

theorem NewBind.ext {σ σm : Store} {v : Nat} {b : Term} (N : NewBind σ σm v b) : Ext σ σm := by
  refine ⟨Nat.le_of_eq N.len.symm, fun w t hw => ?_⟩
  by_cases e : w = v
  · subst e; rw [N.unb] at hw; cases hw
  · rw [N.ne w e]; exact hw

mutual
/-- a term that resolves after the binding resolved before, or reached `v` no deeper than its resolution is -/
theorem NewBind.res_back {σ σm : Store} {v : Nat} {b : Term} (N : NewBind σ σm v b) (hc : Chains σ) :
    ∀ (τ : Ty) (t : Term), Res σm t τ → Res σ t τ ∨ ∃ d, d ≤ Ty.depth τ ∧ Reach σ t v d
  | .app o τs, t, hr => by
    rw [res_app] at hr
    obtain ⟨args, e, hl⟩ := hr
    cases e0 : followT σ t with
    | var w =>
      by_cases hw : w = v
      · subst hw
        exact Or.inr ⟨0, Nat.zero_le _, Reach.here e0⟩
      · rw [N.followT_other hc e0 hw] at e; cases e
    | app o' args' =>
      rw [N.followT_app hc e0] at e
      injection e with e1 e2
      rw [e1] at e0
      rw [← e2] at hl
      rcases NewBind.resL_back N hc τs args' hl with h1 | ⟨a, d, hm, hd, hr⟩
      · exact Or.inl (res_app.mpr ⟨args', e0, h1⟩)
      · refine Or.inr ⟨d+1, ?_, Reach.app e0 hm hr⟩
        rw [Ty.depth]; exact hd
theorem NewBind.resL_back {σ σm : Store} {v : Nat} {b : Term} (N : NewBind σ σm v b) (hc : Chains σ) :
    ∀ (τs : List Ty) (ts : List Term), ResL σm ts τs →
      ResL σ ts τs ∨ ∃ a d, a ∈ ts ∧ d + 1 ≤ Ty.depthL τs ∧ Reach σ a v d
  | [], ts, hr => by rw [resL_nil_right] at hr; subst hr; exact Or.inl resL_nil
  | τ :: τs, [], hr => by rw [resL_nil_left] at hr; cases hr
  | τ :: τs, t :: ts, hr => by
    rw [resL_cons] at hr
    rw [Ty.depthL]
    rcases NewBind.res_back N hc τ t hr.1 with h1 | ⟨d, hd, hr1⟩
    · rcases NewBind.resL_back N hc τs ts hr.2 with h2 | ⟨a, d, hm, hd, hr2⟩
      · exact Or.inl (resL_cons.mpr ⟨h1, h2⟩)
      · exact Or.inr ⟨a, d, List.mem_cons_of_mem _ hm, by omega, hr2⟩
    · exact Or.inr ⟨t, d, List.mem_cons_self, by omega, hr1⟩
end

/-- a variable reached after the binding was reached before, or is reached from `b` below a place where `v` was -/
theorem NewBind.reach_back {σ σm : Store} {v : Nat} {b : Term} (N : NewBind σ σm v b) (hc : Chains σ)
    {t : Term} {u d : Nat} (hr : Reach σm t u d) :
    Reach σ t u d ∨ ∃ d1 d2, d = d1 + d2 ∧ Reach σ t v d1 ∧ Reach σm b u d2 := by
  induction hr with
  | @here t u e =>
    cases e0 : followT σ t with
    | var w =>
      by_cases hw : w = v
      · subst hw
        rw [N.followT_var hc e0] at e
        exact Or.inr ⟨0, 0, rfl, Reach.here e0, Reach.here (by rw [followT_of_final N.fin]; exact e)⟩
      · rw [N.followT_other hc e0 hw] at e
        injection e with e; subst e
        exact Or.inl (Reach.here e0)
    | app o args => rw [N.followT_app hc e0] at e; cases e
  | @app t o args a u d e hm hra ih =>
    cases e0 : followT σ t with
    | var w =>
      by_cases hw : w = v
      · subst hw
        rw [N.followT_var hc e0] at e
        exact Or.inr ⟨0, d+1, by omega, Reach.here e0,
          Reach.app (by rw [followT_of_final N.fin]; exact e) hm hra⟩
      · rw [N.followT_other hc e0 hw] at e; cases e
    | app o' args' =>
      rw [N.followT_app hc e0] at e
      injection e with e1 e2
      rw [← e2] at hm
      rcases ih with h1 | ⟨d1, d2, hd, h1, h2⟩
      · exact Or.inl (Reach.app e0 hm h1)
      · exact Or.inr ⟨d1+1, d2, by omega, Reach.app e0 hm h1, h2⟩

end Tfv.C03R
