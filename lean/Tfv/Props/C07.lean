import Tfv.Model
namespace Tfv.C07
theorem placeholder : True := trivial
end Tfv.C07
