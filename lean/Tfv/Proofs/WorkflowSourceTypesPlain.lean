import Tfv.Proofs.WorkflowSourceTypesParse
import Tfv.Proofs.FrameMain
import Tfv.Proofs.ExprTyped
import Tfv.Proofs.WorkflowRecord
/-!
# `source_types` on tool expressions without annotations, for operator signatures without constraints

Without `:` in a tool expression and with constraint-free operator signatures (of bounded size) the builder of
`parse_expr(…, unify=False)` only allocates variables: every node type is over unresolved, unbounded variables,
`Expr.fix()` changes nothing, nothing is recorded, and the numbers of variables, constraint sets and sources that
one application allocates are those of a *counting builder* that does not look at the store.
-/
namespace Tfv.C12P
open Tfv Tfv.C03P Tfv.C16P Tfv.C04P Tfv.ParseSim

/-! ## a fuel bound under which `fix` succeeds on unresolved variables -/

mutual
def tsz : Term → Nat
  | .var _ => 1
  | .app _ args => 1 + tszL args
def tszL : List Term → Nat
  | [] => 1
  | t :: ts => 1 + tsz t + tszL ts
end

theorem tszL_pos : ∀ ts, 1 ≤ tszL ts
  | [] => by rw [tszL]; omega
  | _ :: _ => by rw [tszL]; omega

mutual
theorem tsz_shift (k : Nat) : ∀ t, tsz (Term.shift k t) = tsz t
  | .var v => by rw [Term.shift, tsz, tsz]
  | .app o args => by rw [Term.shift, tsz, tsz, tszL_shift k args]
theorem tszL_shift (k : Nat) : ∀ ts, tszL (Term.shiftL k ts) = tszL ts
  | [] => by rw [Term.shiftL]
  | t :: ts => by rw [Term.shiftL, tszL, tszL, tsz_shift k t, tszL_shift k ts]
end

def FixOK (L : Lang) (n : Nat) : Prop :=
  ∀ σ t pl, tsz t ≤ n → (∀ v, VarIn v t → Inert σ v) → fix L n σ t pl = .ok (σ, t)

def FixListOK (L : Lang) (n : Nat) : Prop :=
  ∀ σ vs ps pl, tszL ps ≤ n → (∀ p, p ∈ ps → ∀ v, VarIn v p → Inert σ v) → fixList L n σ vs ps pl = .ok σ

theorem fix_stepOK {L : Lang} {n : Nat} (hlist : FixListOK L n) : FixOK L (n+1) := by
  intro σ t pl hs hin
  cases t with
  | app o args =>
    rw [tsz] at hs
    rw [fix, followT_app]
    simp only []
    rw [hlist σ _ args pl (by omega) (fun p hp v hv => hin v (VarIn.app hp hv))]
  | var v =>
    obtain ⟨hb, hl, hu⟩ := hin v VarIn.var
    rw [fix, followT_unbound hb]
    simp only [hl, hu, Option.isSome_none, Bool.and_false, Bool.false_eq_true, if_false]
    rw [followT_unbound hb]

theorem fixList_stepOK {L : Lang} {n : Nat} (hfix : FixOK L n) (hlist : FixListOK L n) : FixListOK L (n+1) := by
  intro σ vs ps pl hs hin
  match vs, ps with
  | [], ps => rw [fixList_nil_left]
  | vs, [] => rw [fixList_nil_right]
  | v :: vs, p :: ps =>
    rw [tszL] at hs
    have := tszL_pos ps
    rw [fixList_cons, hfix σ p _ (by omega) (hin p List.mem_cons_self)]
    exact hlist σ vs ps pl (by omega) (fun q hq => hin q (List.mem_cons_of_mem _ hq))

theorem all_fixOK (L : Lang) : ∀ n, FixOK L n ∧ FixListOK L n
  | 0 => by
    refine ⟨?_, ?_⟩
    · intro σ t pl hs _
      cases t with
      | var v => rw [tsz] at hs; omega
      | app o args => rw [tsz] at hs; omega
    · intro σ vs ps pl hs _
      have := tszL_pos ps
      omega
  | n+1 => by
    obtain ⟨h1, h2⟩ := all_fixOK L n
    exact ⟨fix_stepOK h2, fixList_stepOK h1 h2⟩

/-! ## plain operator tables -/

/-- operator signatures without constraints, over their own variables, small enough for the fuel of `fix` -/
def OpsPlain (L : Lang) (ops : List OperatorDecl) : Prop :=
  ∀ d ∈ ops, d.schema.constraints = [] ∧ okTermN L (d.schema.nvars + d.schema.nwild) d.schema.body = true ∧
    tsz d.schema.body ≤ exprFuel

def opsPlainB (L : Lang) (ops : List OperatorDecl) : Bool :=
  ops.all fun d => d.schema.constraints.isEmpty && okTermN L (d.schema.nvars + d.schema.nwild) d.schema.body &&
    decide (tsz d.schema.body ≤ exprFuel)

theorem opsPlainB_sound {L : Lang} {ops : List OperatorDecl} (h : opsPlainB L ops = true) : OpsPlain L ops := by
  intro d hd
  have := List.all_eq_true.mp h d hd
  simp only [Bool.and_eq_true, List.isEmpty_iff, decide_eq_true_eq] at this
  exact ⟨this.1.1, this.1.2, this.2⟩

theorem instantiate_plain {L : Lang} {σ : Store} {s : Schema} (hc : s.constraints = [])
    (hs : tsz s.body ≤ exprFuel) :
    instantiate L exprFuel σ s = .ok (allocVars σ s.nvars s.nwild, s.body.shift σ.vars.length) := by
  rw [instantiate_eq hc]
  apply (all_fixOK L exprFuel).1
  · rw [tsz_shift]; exact hs
  · intro v hv
    obtain ⟨w, _, e⟩ := varIn_shift _ hv
    exact (allocVars_spec σ s.nvars s.nwild).2.2 v (by omega)

theorem csets_newVar (σ : Store) (wc : Bool) : (newVar σ wc).1.csets.length = σ.csets.length + 1 := by
  unfold newVar; simp

theorem length_csets_allocVars (σ : Store) (a b : Nat) : (allocVars σ a b).csets.length = σ.csets.length + a + b := by
  have key : ∀ {α : Type} (wc : Bool) (l : List α) (σ : Store),
      (l.foldl (fun σ _ => (newVar σ wc).1) σ).csets.length = σ.csets.length + l.length := by
    intro α wc l
    induction l with
    | nil => intro σ; rfl
    | cons x l ih =>
      intro σ
      simp only [List.foldl_cons, List.length_cons]
      rw [ih, csets_newVar]; omega
  unfold allocVars
  simp only []
  rw [key, key, List.length_range, List.length_range]

theorem constrs_newVar (σ : Store) (wc : Bool) : (newVar σ wc).1.constrs = σ.constrs := rfl

theorem constrs_allocVars (σ : Store) (a b : Nat) : (allocVars σ a b).constrs = σ.constrs := by
  have key : ∀ {α : Type} (wc : Bool) (l : List α) (σ : Store),
      (l.foldl (fun σ _ => (newVar σ wc).1) σ).constrs = σ.constrs := by
    intro α wc l
    induction l with
    | nil => intro σ; rfl
    | cons x l ih => intro σ; simp only [List.foldl_cons]; rw [ih]; rfl
  unfold allocVars
  simp only []
  rw [key, key]

/-! ## expressions over unresolved variables -/

/-- the type is over unresolved, unbounded variables and small -/
def TyOk (σ : Store) (t : Term) : Prop := (∀ v, VarIn v t → Inert σ v) ∧ tsz t ≤ exprFuel

def NodeOk (σ : Store) : TExpr → Prop
  | .src _ _ t => TyOk σ t
  | .op _ t => TyOk σ t
  | .app f x t => NodeOk σ f ∧ NodeOk σ x ∧ TyOk σ t
  | .shared _ e => NodeOk σ e

/-- unresolved variables stay unresolved -/
def IStep (σ σ1 : Store) : Prop := ∀ v, Inert σ v → Inert σ1 v

theorem tyOk_mono {σ σ1 : Store} (h : IStep σ σ1) {t : Term} (ht : TyOk σ t) : TyOk σ1 t :=
  ⟨fun v hv => h v (ht.1 v hv), ht.2⟩

theorem nodeOk_mono {σ σ1 : Store} (h : IStep σ σ1) : ∀ {e : TExpr}, NodeOk σ e → NodeOk σ1 e
  | .src _ _ _, he => tyOk_mono h he
  | .op _ _, he => tyOk_mono h he
  | .app _ _ _, he => ⟨nodeOk_mono h he.1, nodeOk_mono h he.2.1, tyOk_mono h he.2.2⟩
  | .shared _ e, he => nodeOk_mono (e := e) h he

theorem istep_newVar (σ : Store) (wc : Bool) : IStep σ (newVar σ wc).1 := fun _ h => inert_newVar h wc

theorem istep_allocVars (σ : Store) (a b : Nat) : IStep σ (allocVars σ a b) := by
  intro v hv
  by_cases h : v < σ.vars.length
  · unfold Inert
    rw [(allocVars_spec σ a b).2.1 v h]; exact hv
  · exact (allocVars_spec σ a b).2.2 v (by omega)

theorem tyOk_fresh (σ : Store) (wc : Bool) : TyOk (newVar σ wc).1 (.var σ.vars.length) := by
  refine ⟨fun v hv => ?_, by rw [tsz]; unfold exprFuel; omega⟩
  cases hv
  exact inert_newVar (inert_of_ge (Nat.le_refl _)) wc

theorem fixExpr_nodeOk {L : Lang} : ∀ (e : TExpr) {σ : Store}, NodeOk σ e → ∃ e', fixExpr L σ e = .ok (σ, e')
  | .src i l t, σ, he => by
    rw [fixExpr, (all_fixOK L exprFuel).1 σ t false he.2 he.1]
    exact ⟨_, rfl⟩
  | .op n t, σ, _ => by
    rw [fixExpr]
    exact ⟨_, rfl⟩
  | .app f x t, σ, he => by
    obtain ⟨f1, hf⟩ := fixExpr_nodeOk (L := L) f he.1
    obtain ⟨x1, hx⟩ := fixExpr_nodeOk (L := L) x he.2.1
    rw [fixExpr, hf]
    simp only []
    rw [hx]
    simp only []
    rw [(all_fixOK L exprFuel).1 σ t true he.2.2.2 he.2.2.1]
    exact ⟨_, rfl⟩
  | .shared k e, σ, he => by
    obtain ⟨e1, h1⟩ := fixExpr_nodeOk (L := L) e he
    rw [fixExpr, h1]
    exact ⟨_, rfl⟩

/-! ## the counting builder -/

/-- what the builder allocates: variables, constraint sets, sources -/
structure CState where
  nv : Nat
  nk : Nat
  nsrc : Nat
  deriving Repr, DecidableEq

def CState.add (c d : CState) : CState := ⟨c.nv + d.nv, c.nk + d.nk, c.nsrc + d.nsrc⟩

/-- the builder of `parse_expr(…, unify=False)` on tool expressions without annotation, counting only -/
def cntBuilder (L : Lang) (ops : List OperatorDecl) : Builder CState Unit where
  mkSource c := (⟨c.nv + 1, c.nk + 1, c.nsrc + 1⟩, ())
  mkOp c name :=
    match ops.find? (fun d => d.name == name) with
    | none => .error (.undefinedToken name)
    | some d =>
      let k := d.schema.nvars + d.schema.nwild
      if isFunctionOp L d then .ok (⟨c.nv + k, c.nk + k, c.nsrc⟩, ()) else .ok (⟨c.nv + k, c.nk + k, c.nsrc + 1⟩, ())
  mkApp c _ _ := .ok (⟨c.nv + 1, c.nk + 1, c.nsrc⟩, ())
  annotate _ _ _ _ _ := .error .typeAnnotation
  varBase c := c.nv

/-- the sizes of a builder state are the counters; `K` constraints throughout -/
structure SizeOf (K : Nat) (s : XState) (c : CState) : Prop where
  nv : s.store.vars.length = c.nv
  nk : s.store.csets.length = c.nk
  nsrc : s.nsrc = c.nsrc
  nc : s.store.constrs.length = K

def XIStep (s s1 : XState) : Prop := IStep s.store s1.store

theorem untyped_cnt_sim (P : PLang) {ops : List OperatorDecl} (hops : OpsPlain P.types ops) (K : Nat) :
    BuilderSim P (untypedBuilder P.types ops) (cntBuilder P.types ops) True False
      (SizeOf K) (fun s e _ => NodeOk s.store e) XIStep where
  refl := fun _ _ h => h
  trans := fun _ _ _ h1 h2 v hv => h2 v (h1 v hv)
  mono := fun _ _ _ _ hs he => nodeOk_mono hs he
  varBase := fun h => h.elim
  annotate := fun h => h.elim
  mkSource := fun s c h => by
    show SizeOf K (mkSourceT s).1 _ ∧ XIStep s (mkSourceT s).1 ∧ NodeOk (mkSourceT s).1.store (mkSourceT s).2
    rw [mkSourceT_eq]
    refine ⟨⟨?_, ?_, ?_, ?_⟩, istep_newVar _ _, tyOk_fresh _ _⟩
    · show (newVar s.store true).1.vars.length = c.nv + 1
      rw [length_newVar, h.nv]
    · show (newVar s.store true).1.csets.length = c.nk + 1
      rw [csets_newVar, h.nk]
    · show s.nsrc + 1 = c.nsrc + 1
      rw [h.nsrc]
    · exact h.nc
  mkOp := fun s c name h => by
    show RelB True _ _ _ s (mkOpT P.types ops s name) _
    unfold mkOpT
    show RelB True _ _ _ s _ (match ops.find? (fun d => d.name == name) with
      | none => .error (.undefinedToken name)
      | some d => _)
    cases hd : ops.find? (fun d => d.name == name) with
    | none => intro _; rfl
    | some d =>
      obtain ⟨hc, _, hsz⟩ := hops d (List.mem_of_find?_eq_some hd)
      simp only [instantiate_plain hc hsz]
      have hty : TyOk (allocVars s.store d.schema.nvars d.schema.nwild) (d.schema.body.shift s.store.vars.length) := by
        refine ⟨fun v hv => ?_, by rw [tsz_shift]; exact hsz⟩
        obtain ⟨w, _, e⟩ := varIn_shift _ hv
        exact (allocVars_spec s.store _ _).2.2 v (by omega)
      have hv : (allocVars s.store d.schema.nvars d.schema.nwild).vars.length = c.nv + (d.schema.nvars + d.schema.nwild) := by
        rw [length_allocVars, h.nv]; omega
      have hk : (allocVars s.store d.schema.nvars d.schema.nwild).csets.length = c.nk + (d.schema.nvars + d.schema.nwild) := by
        rw [length_csets_allocVars, h.nk]; omega
      have hcn : (allocVars s.store d.schema.nvars d.schema.nwild).constrs.length = K := by
        rw [constrs_allocVars]; exact h.nc
      cases hf : isFunctionOp P.types d with
      | true =>
        simp only [if_true]
        exact ⟨_, (), rfl, ⟨hv, hk, h.nsrc, hcn⟩, istep_allocVars _ _ _, hty⟩
      | false =>
        simp only [Bool.false_eq_true, if_false]
        exact ⟨_, (), rfl, ⟨hv, hk, by show s.nsrc + 1 = c.nsrc + 1; rw [h.nsrc], hcn⟩, istep_allocVars _ _ _, hty⟩
  mkApp := fun s c f _ x _ h hf hx => by
    show RelB True _ _ _ s (mkAppNoUnify s f x) _
    unfold mkAppNoUnify
    refine ⟨_, (), rfl, ⟨?_, ?_, h.nsrc, h.nc⟩, istep_newVar _ _,
      nodeOk_mono (istep_newVar _ _) hf, nodeOk_mono (istep_newVar _ _) hx, tyOk_fresh _ _⟩
    · show (newVar s.store).1.vars.length = c.nv + 1
      rw [length_newVar, h.nv]
    · show (newVar s.store).1.csets.length = c.nk + 1
      rw [csets_newVar, h.nk]

/-- the counting builder does not look at its counters: two runs from different counters stay at the same distance -/
theorem cnt_cnt_sim (P : PLang) (ops : List OperatorDecl) (d : CState) :
    BuilderSim P (cntBuilder P.types ops) (cntBuilder P.types ops) True False
      (fun c c' => c' = c.add d) (fun _ _ _ => True) (fun _ _ => True) where
  refl := fun _ => trivial
  trans := fun _ _ _ _ _ => trivial
  mono := fun _ _ _ _ _ _ => trivial
  varBase := fun h => h.elim
  annotate := fun h => h.elim
  mkSource := fun c c' h => by
    subst h
    refine ⟨?_, trivial, trivial⟩
    show (⟨c.nv + d.nv + 1, c.nk + d.nk + 1, c.nsrc + d.nsrc + 1⟩ : CState) = ⟨c.nv + 1 + d.nv, c.nk + 1 + d.nk, c.nsrc + 1 + d.nsrc⟩
    congr 1 <;> omega
  mkOp := fun c c' name h => by
    subst h
    show RelB True _ _ _ c (match ops.find? (fun d => d.name == name) with
      | none => .error (.undefinedToken name)
      | some d => _) (match ops.find? (fun d => d.name == name) with
      | none => .error (.undefinedToken name)
      | some d => _)
    cases ops.find? (fun d => d.name == name) with
    | none => intro _; rfl
    | some e =>
      simp only []
      cases isFunctionOp P.types e with
      | true =>
        simp only [if_true]
        refine ⟨_, (), rfl, ?_, trivial, trivial⟩
        simp only [CState.add]
        congr 1 <;> omega
      | false =>
        simp only [Bool.false_eq_true, if_false]
        refine ⟨_, (), rfl, ?_, trivial, trivial⟩
        simp only [CState.add]
        congr 1 <;> omega
  mkApp := fun c c' _ _ _ _ h _ _ => by
    subst h
    refine ⟨_, (), rfl, ?_, trivial, trivial⟩
    simp only [CState.add]
    congr 1 <;> omega

end Tfv.C12P
