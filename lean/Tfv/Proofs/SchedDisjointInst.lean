import Tfv.Proofs.SchedDisjointApply
import Tfv.Proofs.SchedRun
/-!
# C18 — constraints over disjoint variables, part 5: instantiating a schema, whole runs

A schema whose constraints are pairwise variable-disjoint (a colouring `sc` of the schema variables gives every
variable of the `i`-th constraint the colour `i`; decidable: `disjointByB`) instantiates, in the empty store, to a
coloured store: the `i`-th constraint lives in the region of colour `i`. Registering it (`addConstraintS`) and its
first `fulfill()` stay in that region. With `applyTS_col`: the whole run on concrete arguments is the model's run
under every schedule that leaves constant lists alone.
-/
namespace Tfv.C18D
open Tfv Tfv.C03P Tfv.C16P Tfv.C03C Tfv.C18P Tfv.C16C Tfv.C18S

/-! ## the checkable condition on the schema -/

mutual
/-- every variable of the term is a schema variable `< n` of colour `i` -/
def termColB (sc : Nat → Nat) (n i : Nat) : Term → Bool
  | .var v => decide (v < n) && sc v == i
  | .app _ args => termsColB sc n i args
def termsColB (sc : Nat → Nat) (n i : Nat) : List Term → Bool
  | [] => true
  | t :: ts => termColB sc n i t && termsColB sc n i ts
end

def cAstColB (sc : Nat → Nat) (n i : Nat) : CAst → Bool
  | .sub r t _ => termColB sc n i r && termColB sc n i t
  | .elim r alts => termColB sc n i r && termsColB sc n i alts

/-- the `j`-th constraint of the list mentions variables of colour `i + j` only -/
def constraintsColB (sc : Nat → Nat) (n : Nat) : Nat → List CAst → Bool
  | _, [] => true
  | i, c :: cs => cAstColB sc n i c && constraintsColB sc n (i+1) cs

/-- THE CHECK: under the colouring `sc` of the schema variables the `i`-th constraint mentions variables of colour
`i` only (so the constraints are pairwise variable-disjoint, alternatives included), and the body mentions schema
variables only -/
def disjointByB (sc : Nat → Nat) (s : Schema) : Bool :=
  constraintsColB sc (s.nvars + s.nwild) 0 s.constraints &&
    termColB (fun _ => 0) (s.nvars + s.nwild) 0 s.body

mutual
theorem varIn_termColB {sc : Nat → Nat} {n i v : Nat} : ∀ t, termColB sc n i t = true → VarIn v t →
    v < n ∧ sc v = i
  | .var w, h, hv => by
    cases hv
    unfold termColB at h
    simpa using h
  | .app o args, h, hv => by
    unfold termColB at h
    cases hv with
    | app hu hv => exact varIn_termsColB args h _ hu hv
theorem varIn_termsColB {sc : Nat → Nat} {n i v : Nat} : ∀ ts, termsColB sc n i ts = true → ∀ u, u ∈ ts →
    VarIn v u → v < n ∧ sc v = i
  | [], _, u, hu, _ => by cases hu
  | t :: ts, h, u, hu, hv => by
    unfold termsColB at h
    rw [Bool.and_eq_true] at h
    rcases List.mem_cons.mp hu with e | e
    · rw [e] at hv; exact varIn_termColB t h.1 hv
    · exact varIn_termsColB ts h.2 u e hv
end

/-! ## the freshly allocated store -/

/-- what `allocVars` builds in the empty store: every variable unbound with its own empty constraint set, no
constraints -/
structure FreshS (σ : Store) : Prop where
  len : σ.csets.length = σ.vars.length
  var : ∀ w, w < σ.vars.length → (getVar σ w).cset = w ∧ (getVar σ w).bound = none
  cs : ∀ k, getCset σ k = []
  cn : σ.constrs = []

theorem freshS_empty : FreshS {} :=
  ⟨rfl, fun w hw => absurd hw (Nat.not_lt_zero w), fun k => by unfold getCset; simp, rfl⟩

theorem freshS_newVar {σ : Store} (h : FreshS σ) (wc : Bool) : FreshS (newVar σ wc).1 := by
  refine ⟨by rw [length_csets_newVar, length_newVar, h.len], fun w hw => ?_,
    fun k => by rw [getCset_newVar]; exact h.cs k, h.cn⟩
  rw [length_newVar] at hw
  by_cases hlt : w < σ.vars.length
  · rw [getVar_newVar_lt hlt]; exact h.var w hlt
  · have e : w = σ.vars.length := by omega
    subst e
    rw [getVar_newVar_eq]
    exact ⟨h.len, rfl⟩

theorem freshS_allocVars {σ : Store} (h : FreshS σ) (nv nw : Nat) : FreshS (allocVars σ nv nw) := by
  have aux : ∀ (wc : Bool) (l : List Nat) (σ : Store), FreshS σ →
      FreshS (l.foldl (fun σ _ => (newVar σ wc).1) σ) := by
    intro wc l
    induction l with
    | nil => intro σ h; exact h
    | cons x xs ih => intro σ h; exact ih _ (freshS_newVar h wc)
  unfold allocVars
  exact aux true _ _ (aux false _ _ h)

/-- a fresh store is coloured by ANY colouring of its variables (constraint sets coloured like their variables) -/
theorem colored_fresh {σ : Store} (h : FreshS σ) (sc cc : Nat → Nat) : Colored ⟨sc, sc, cc⟩ σ := by
  refine ⟨fun i => ⟨fun w b _ hb => ?_, fun w hw hS => ?_, fun k c _ hm => ?_, fun c u hlt _ _ => ?_,
    fun v hv => Or.inr hv, fun k hk => Or.inr hk, fun c hc => Or.inr hc⟩,
    fun i => ⟨0, fun k _ => by rw [h.cs k]; exact allEq_nil 0⟩, fun w hw => ?_⟩
  · by_cases hw : w < σ.vars.length
    · rw [(h.var w hw).2] at hb; cases hb
    · rw [getVar_oor hw] at hb; cases hb
  · rw [(h.var w hw).1]
    rcases hS with hS | hS
    · exact Or.inl hS
    · omega
  · rw [h.cs k] at hm; cases hm
  · rw [h.cn] at hlt; exact absurd hlt (Nat.not_lt_zero c)
  · rw [(h.var w hw).1, h.len]; exact hw

/-! ## registering one constraint in the region of its colour -/

variable {c0 : Nat} {R : Region}

theorem onlyC_regStore {σ : Store} (h : OnlyC c0 R σ) (x : Constr) : OnlyC c0 R (regStore σ x) :=
  ⟨fun k hk => h.only k hk, fun v hv => h.kal v hv⟩

theorem onlyC_informStore (hid : R.C c0) : ∀ (vars : List Nat) (σ : Store),
    ClosedC σ R → OnlyC c0 R σ → c0 < σ.constrs.length → (∀ x, x ∈ vars → InStore σ R.S x) →
    OnlyC c0 R (informStore c0 vars σ)
  | [], _, _, ho, _, _ => ho
  | v :: vars, σ, hc, ho, hlt, hvars => by
    have hv := hvars v List.mem_cons_self
    have hk := hc.cs v hv.2 hv.1
    have f1 : FrC R σ (setCset σ (getVar σ v).cset (insertSorted c0 (getCset σ (getVar σ v).cset))) :=
      frC_setCset hc hk (fun c hm => by
        rcases C18P.mem_insertSorted hm with h1 | h1
        · rw [h1]; exact ⟨hid, hlt⟩
        · exact hc.mem _ c hk h1)
    have o1 := onlyC_setCset ho (getVar σ v).cset (allEq_insert (ho.only _ hk))
    unfold informStore
    simp only [List.foldl_cons]
    exact onlyC_informStore hid vars _ f1.closed o1 hlt
      (fun x hx => f1.ins (hvars x (List.mem_cons_of_mem _ hx)))

/-- registering a constraint whose terms are over a closed region all of whose constraint sets are empty: the
scheduled `addConstraintS` is the model's `addConstraint`, stays in the region, and the region holds the new
constraint only -/
theorem addConstraintS_one {L : Lang} {ord : List Nat → List Nat} (hord : OrdConst ord) (fuel : Nat)
    {σ : Store} (hc : ClosedC σ R) (hk : KAlloc σ) (hE : ∀ k, R.K k → getCset σ k = []) (c : Constr)
    (hterms : TermsInR σ R.S (constrTerms c)) :
    GoodE σ.constrs.length R σ (addConstraintS L ord fuel σ c) (addConstraint L fuel σ c) := by
  rw [addConstraintS_eq, addConstraint_eq]
  simp only []
  refine goodE_ite (fun _ => goodE_error _) (fun _ => ?_)
  have hid : R.C σ.constrs.length := hc.cfr _ (Nat.le_refl _)
  have hn := termsInR_normC hc hterms
  obtain ⟨f1, hl1⟩ := frC_regStore hc hn
  have hlt : σ.constrs.length < (regStore σ (normC σ c)).constrs.length := by rw [hl1]; omega
  have hvars := varsOfTerms_in f1.closed (f1.tins hn)
  obtain ⟨f2, hl2⟩ := frC_informStore σ.constrs.length hid
    (varsOfTerms (regStore σ (normC σ c)) (constrTerms (normC σ c))) _ f1.closed hlt hvars
  have o0 : OnlyC σ.constrs.length R σ := ⟨fun k hK => by rw [hE k hK]; exact allEq_nil _, hk⟩
  have o2 := onlyC_informStore hid _ _ f1.closed (onlyC_regStore o0 _) hlt hvars
  have f12 := f1.trans f2
  have g := (blockOne (L := L) hord σ.constrs.length fuel).fulfill R _ σ.constrs.length f2.closed o2 hid
    (by rw [hl2]; exact hlt)
  exact goodE_from f12 (goodE_seqP_bool g (fun σ1 _ f3 o3 _ => goodE_ok (FrC.refl f3.closed) o3))

/-! ## the constraints of a schema, one colour after the other -/

/-- the invariant of the loop that registers the constraints: colours `≥ idx` have not been used yet (their constraint
sets are empty), the schema variables keep their colours -/
structure LoopInv (sc : Nat → Nat) (base n idx : Nat) (κ : Coloring) (σ : Store) : Prop where
  colored : Colored κ σ
  empty : ∀ j, idx ≤ j → ∀ k, (regOf κ σ j).K k → getCset σ k = []
  cols : ∀ v, v < n → κ.col (base + v) = sc v
  alloc : base + n ≤ σ.vars.length

theorem loopInv_step {sc : Nat → Nat} {base n idx : Nat} {κ : Coloring} {σ σ' : Store} {c0 : Nat}
    (inv : LoopInv sc base n idx κ σ) (f : FrC (regOf κ σ idx) σ σ') (o : OnlyC c0 (regOf κ σ idx) σ') :
    LoopInv sc base n (idx+1) (κ.extend σ idx) σ' := by
  refine ⟨colored_step inv.colored f o, fun j hj k hk => ?_, fun v hv => ?_, Nat.le_trans inv.alloc f.len⟩
  · have hij : j ≠ idx := by omega
    rcases ext_other_aux hij hk with ⟨hlt, hcol⟩ | hge
    · rw [f.kfr k (fun hK => by
        rcases hK with hK | hK
        · exact hij (hcol ▸ hK)
        · omega)]
      exact inv.empty j (by omega) k (Or.inl hcol)
    · exact getCset_oor hge
  · show (if base + v < σ.vars.length then κ.col (base + v) else idx) = sc v
    have := inv.alloc
    rw [if_pos (by omega)]
    exact inv.cols v hv

theorem termInR_shift_col {sc : Nat → Nat} {base n idx : Nat} {κ : Coloring} {σ : Store}
    (inv : LoopInv sc base n idx κ σ) {t : Term} (ht : termColB sc n idx t = true) :
    TermInR σ (regOf κ σ idx).S (t.shift base) := by
  intro v hv
  obtain ⟨w, hw, e⟩ := varIn_shift _ hv
  obtain ⟨hlt, hcol⟩ := varIn_termColB t ht hw
  have := inv.alloc
  subst e
  refine ⟨Or.inl ?_, by omega⟩
  rw [Nat.add_comm, inv.cols w hlt, hcol]

theorem termsInR_shiftL_col {sc : Nat → Nat} {base n idx : Nat} {κ : Coloring} {σ : Store}
    (inv : LoopInv sc base n idx κ σ) {ts : List Term} (hts : termsColB sc n idx ts = true) :
    TermsInR σ (regOf κ σ idx).S (Term.shiftL base ts) := by
  intro u hu v hv
  obtain ⟨w, t, ht, hw, e⟩ := varIn_shiftL ts u hu hv
  obtain ⟨hlt, hcol⟩ := varIn_termsColB ts hts t ht hw
  have := inv.alloc
  subst e
  refine ⟨Or.inl ?_, by omega⟩
  rw [Nat.add_comm, inv.cols w hlt, hcol]

theorem addConstraintsS_col {L : Lang} {ord : List Nat → List Nat} (hord : OrdConst ord) (fuel : Nat)
    (sc : Nat → Nat) (base n : Nat) : ∀ (cs : List CAst) (idx : Nat) (κ : Coloring) (σ : Store),
    LoopInv sc base n idx κ σ → constraintsColB sc n idx cs = true →
    GoodC σ (addConstraintsS L ord fuel base σ cs) (addConstraints L fuel base σ cs)
  | [], _, κ, σ, inv, _ => by
    simp only [addConstraintsS, addConstraints]
    exact goodC_ok ⟨κ, inv.colored⟩ (Nat.le_refl _)
  | c :: cs, idx, κ, σ, inv, hcs => by
    unfold constraintsColB at hcs
    rw [Bool.and_eq_true] at hcs
    have hc := inv.colored.closed idx
    have tail : ∀ c', TermsInR σ (regOf κ σ idx).S (constrTerms c') →
        GoodC σ (match addConstraintS L ord fuel σ c' with
          | .error e => .error e
          | .ok σ1 => addConstraintsS L ord fuel base σ1 cs)
        (match addConstraint L fuel σ c' with
          | .error e => .error e
          | .ok σ1 => addConstraints L fuel base σ1 cs) := by
      intro c' hterms
      have g := addConstraintS_one (L := L) hord fuel hc inv.colored.kal (inv.empty idx (Nat.le_refl _)) c' hterms
      rw [g.1]
      cases e : addConstraint L fuel σ c' with
      | error err => exact goodC_error _
      | ok σ1 =>
        obtain ⟨f1, o1⟩ := g.2 σ1 e
        have r := addConstraintsS_col (L := L) hord fuel sc base n cs (idx+1) _ σ1 (loopInv_step inv f1 o1) hcs.2
        exact ⟨r.1, fun σ' e' => ⟨(r.2 σ' e').1, Nat.le_trans f1.len (r.2 σ' e').2⟩⟩
    cases c with
    | sub r t s =>
      simp only [addConstraintsS, addConstraints]
      have h1 := hcs.1
      unfold cAstColB at h1
      rw [Bool.and_eq_true] at h1
      exact tail _ (termsInR_sub s false (termInR_shift_col inv h1.1) (termInR_shift_col inv h1.2))
    | elim r alts =>
      simp only [addConstraintsS, addConstraints]
      have h1 := hcs.1
      unfold cAstColB at h1
      rw [Bool.and_eq_true] at h1
      exact tail _ (termsInR_elim false (followT_inR hc (termInR_shift_col inv h1.1))
        (termsInR_shiftL_col inv h1.2))

/-! ## `instantiate` in the empty store -/

/-- the region of everything -/
def univR : Region := ⟨fun _ => True, fun _ => True, fun _ => True⟩

theorem closedC_univ {κ : Coloring} {σ : Store} (h : Colored κ σ) : ClosedC σ univR := by
  refine ⟨fun w b _ hb v hv => ⟨trivial, ?_⟩, fun _ _ _ => trivial, fun k c _ hm => ⟨trivial, ?_⟩,
    fun c u hlt _ hu v hv => ⟨trivial, ?_⟩, fun _ _ => trivial, fun _ _ => trivial, fun _ _ => trivial⟩
  · exact ((h.closed (κ.col w)).bnd w b (Or.inl rfl) hb v hv).2
  · exact ((h.closed (κ.kcol k)).mem k c (Or.inl rfl) hm).2
  · exact ((h.closed (κ.ccol c)).ctm c u hlt (Or.inl rfl) hu v hv).2

theorem spineFollow_alloc {κ : Coloring} {σ : Store} (h : Colored κ σ) {t : Term} (ht : AllocT σ t) :
    AllocT σ (spineFollow σ t) :=
  allocT_of_inR (spineFollow_inR (closedC_univ h) t (fun v hv => ⟨trivial, ht v hv⟩))

theorem allocT_shift_body {σ : Store} {n base : Nat} {t : Term} (ht : termColB (fun _ => 0) n 0 t = true)
    (hb : base + n ≤ σ.vars.length) : AllocT σ (t.shift base) := by
  intro v hv
  obtain ⟨w, hw, e⟩ := varIn_shift _ hv
  have := (varIn_termColB t ht hw).1
  omega

/-- instantiating, in the empty store, a schema whose constraints are pairwise variable-disjoint: the schedule does
not matter, the resulting store is coloured -/
theorem instantiateS_col {L : Lang} {ord : List Nat → List Nat} (hord : OrdConst ord) (fuel : Nat) (s : Schema)
    (sc : Nat → Nat) (hs : disjointByB sc s = true) :
    GoodCP {} (fun σ' f => AllocT σ' f) (instantiateS L ord fuel {} s) (instantiate L fuel {} s) := by
  unfold disjointByB at hs
  rw [Bool.and_eq_true] at hs
  have hfresh := freshS_allocVars freshS_empty s.nvars s.nwild
  have hlen := (frC_allocVars (closedC_fresh {}) s.nvars s.nwild).2
  have hbase : ({} : Store).vars.length = 0 := rfl
  rw [hbase] at hlen
  have inv : LoopInv sc 0 (s.nvars + s.nwild) 0 ⟨sc, sc, fun _ => 0⟩ (allocVars {} s.nvars s.nwild) :=
    ⟨colored_fresh hfresh sc _, fun _ _ k _ => hfresh.cs k, fun v _ => by rw [Nat.zero_add],
     by rw [hlen]; omega⟩
  have g := addConstraintsS_col (L := L) hord fuel sc 0 (s.nvars + s.nwild) s.constraints 0 _ _ inv hs.1
  simp only [instantiateS, instantiate, hbase]
  rw [g.1]
  cases e : addConstraints L fuel 0 (allocVars {} s.nvars s.nwild) s.constraints with
  | error err => exact goodCP_error _
  | ok σ1 =>
    obtain ⟨⟨κ1, h1⟩, l1⟩ := g.2 σ1 e
    have hb : 0 + (s.nvars + s.nwild) ≤ σ1.vars.length := by omega
    have r := (blockCol (L := L) hord fuel).fix σ1 _ true ⟨κ1, h1⟩
      (spineFollow_alloc h1 (allocT_shift_body hs.2 hb))
    exact ⟨r.1, fun σ' x e' => ⟨(r.2 σ' x e').1, Nat.zero_le _, (r.2 σ' x e').2.2⟩⟩

/-! ## whole runs -/

theorem applyArgs_col {L : Lang} {ord : List Nat → List Nat} (hord : OrdConst ord) (fuel : Nat) :
    ∀ (args : List Term) (σ : Store) (f : Term), Col σ → AllocT σ f → Term.closedL args = true →
    GoodCP σ (fun σ' r => AllocT σ' r) (applyArgsG (fun σ f x => applyTS L ord fuel σ f x) σ f args)
      (applyArgsG (fun σ f x => applyT L fuel σ f x) σ f args)
  | [], σ, f, hcol, hf, _ => by
    simp only [applyArgsG]
    exact goodCP_ok hcol (Nat.le_refl _) hf
  | a :: as, σ, f, hcol, hf, hcl => by
    rw [closedL_cons, Bool.and_eq_true] at hcl
    simp only [applyArgsG]
    exact goodCP_seqP_term (applyTS_col hord fuel σ f a true hcol hf hcl.1)
      (fun σ1 r c1 _ hr => applyArgs_col hord fuel as σ1 r c1 hr hcl.2)

/-- THE RUN THEOREM: a schema whose constraints are pairwise variable-disjoint, instantiated in the empty store and
applied to CONCRETE argument types, gives the model's run under every schedule that leaves constant lists alone -/
theorem runS_disjoint {L : Lang} {ord : List Nat → List Nat} (hord : OrdConst ord) (fuel : Nat) (s : Schema)
    (sc : Nat → Nat) (hs : disjointByB sc s = true) (args : List Term) (hargs : Term.closedL args = true) :
    runS L ord fuel s args = run L fuel s args := by
  unfold runS run runG
  exact (goodCP_seqP_term (instantiateS_col hord fuel s sc hs)
    (fun σ1 f c1 _ hf => applyArgs_col hord fuel args σ1 f c1 hf hargs)).1

end Tfv.C18D
