import Tfv.Proofs.ResolvedElimCheck
import Tfv.Proofs.ResolvedConstrExamples
/-!
# Concrete runs for the open case of C03 (kernel evaluation): fulfilled elimination records with several alternatives
-/
namespace Tfv.C03E
open Tfv Tfv.C03P Tfv.C03C Tfv.C03R Tfv.C16P Tfv.C17E Tfv.C18P

/-- `x ** y ** z ** x [x << {x, x, y}]` -/
def sXXY : Schema :=
  { nvars := 3, nwild := 0, body := .app FUN [.var 0, .app FUN [.var 1, .app FUN [.var 2, .var 0]]],
    constraints := [.elim (.var 0) [.var 0, .var 0, .var 1]] }

/-- applied to `A, A, A` the record ends FULFILLED with TWO alternatives, all resolved to `A`; the final store is acyclic -/
theorem run_sXXY : runChk exL 200 sXXY [.app 5 [], .app 5 [], .app 5 []]
    (fun σ => elimChk 0 true (.app 5 []) [.app 5 [], .app 5 []] σ && acyclicB σ) = true := by
  decide +kernel

/-- `x ** y ** x [x << {F(x), F(y), y}]`: alternatives with variables under an operator -/
def sFxy : Schema :=
  { nvars := 2, nwild := 0, body := .app FUN [.var 0, .app FUN [.var 1, .var 0]],
    constraints := [.elim (.var 0) [.app 7 [.var 0], .app 7 [.var 1], .var 1]] }

theorem multi_arises :
    ∃ σ1 f σ' r, instantiate exL 200 {} sXXY = .ok (σ1, f) ∧
      applyAll exL 200 true σ1 f [.app 5 [], .app 5 [], .app 5 []] = .ok (σ', r) ∧ Ready exL σ' ∧ Acyclic σ' ∧
      ∃ ref a1 a2, getConstr σ' 0 = .elim ref [a1, a2] true ∧ Res σ' ref (.app 5 []) ∧
        ResL σ' [a1, a2] [.app 5 [], .app 5 []] ∧ elimHoldsB exL σ' 0 = true ∧
        ∃ τ, τ ∈ [Ty.app 5 [], Ty.app 5 []] ∧ Sub exL (.app 5 []) τ := by
  obtain ⟨σ1, f, σ', r, hi, hxs, ha, hchk⟩ := runChk_elim run_sXXY
  rw [Bool.and_eq_true] at hchk
  obtain ⟨hc, ref, alts, hg, h1, h2⟩ := elimChk_elim hchk.1
  have hac := acyclicB_sound hchk.2
  have rd' := (resolved_sub_holds exL_wf (ready_empty exL) (s := sXXY) rfl (by decide) (by decide) hi hxs ha).1
  have hsub : Sub exL (.app 5 []) (.app 5 []) :=
    (sub_iff_Sub exL_wf (s := .app 5 []) (t := .app 5 []) (by decide) (by decide)).mp (by decide)
  have hex : ∃ τ, τ ∈ [Ty.app 5 [], Ty.app 5 []] ∧ Sub exL (.app 5 []) τ := ⟨_, List.mem_cons_self, hsub⟩
  have hmon := (elimHoldsB_iff exL_wf rd'.pre.okc hc hg h1 h2 (by decide) (by decide)).mpr hex
  match alts, h2, hg with
  | [a1, a2], h2, hg => exact ⟨σ1, f, σ', r, hi, ha, rd', hac, ref, a1, a2, hg, h1, h2, hmon, hex⟩
  | [], h2, _ => rw [resL_nil_left] at h2; cases h2
  | [_], h2, _ => rw [resL_cons, resL_nil_left] at h2; cases h2.2
  | _ :: _ :: _ :: _, h2, _ => rw [resL_cons, resL_cons, resL_nil_right] at h2; cases h2.2.2

end Tfv.C03E
