import Tfv.Model.InferSched
/-!
# C18 — facts about the schedules `priorityOrd perm`

`priorityOrd` is defined with `List.mergeSort` (well-founded recursion, which the kernel does not
evaluate). Its ranks are injective, so it equals every sorted permutation of its argument, in
particular the structurally recursive insertion sort `insOrd`, which `decide +kernel` evaluates.
-/
namespace Tfv.C18P

/-- the rank `priorityOrd perm` sorts by -/
def rank (perm : List Nat) (c : Nat) : Nat := (perm.idxOf? c).getD (perm.length + c)

/-- the comparison `priorityOrd perm` sorts with -/
def rankLe (perm : List Nat) (a b : Nat) : Bool := decide (rank perm a ≤ rank perm b)

theorem priorityOrd_eq (perm cs : List Nat) : priorityOrd perm cs = cs.mergeSort (rankLe perm) := rfl

theorem rank_inj (perm : List Nat) {a b : Nat} (h : rank perm a = rank perm b) : a = b := by
  unfold rank at h
  cases ha : perm.idxOf? a with
  | none =>
    cases hb : perm.idxOf? b with
    | none => rw [ha, hb] at h; simp only [Option.getD_none] at h; omega
    | some j =>
      rw [ha, hb] at h; simp only [Option.getD_none, Option.getD_some] at h
      obtain ⟨hj, _⟩ := List.idxOf?_eq_some_iff.mp hb
      omega
  | some i =>
    obtain ⟨hi, hia, _⟩ := List.idxOf?_eq_some_iff.mp ha
    cases hb : perm.idxOf? b with
    | none => rw [ha, hb] at h; simp only [Option.getD_none, Option.getD_some] at h; omega
    | some j =>
      rw [ha, hb] at h; simp only [Option.getD_some] at h
      obtain ⟨hj, hjb, _⟩ := List.idxOf?_eq_some_iff.mp hb
      subst h
      rw [← hia, ← hjb]

theorem rankLe_trans (perm : List Nat) (a b c : Nat) : rankLe perm a b = true → rankLe perm b c = true →
    rankLe perm a c = true := by
  unfold rankLe; simp only [decide_eq_true_eq]; omega

theorem rankLe_total (perm : List Nat) (a b : Nat) : (rankLe perm a b || rankLe perm b a) = true := by
  unfold rankLe; simp only [Bool.or_eq_true, decide_eq_true_eq]; omega

theorem rankLe_antisymm (perm : List Nat) (a b : Nat) : rankLe perm a b = true → rankLe perm b a = true → a = b := by
  unfold rankLe; simp only [decide_eq_true_eq]
  intro h1 h2; exact rank_inj perm (Nat.le_antisymm h1 h2)

/-- `priorityOrd perm cs` is a permutation of `cs` -/
theorem priorityOrd_perm (perm cs : List Nat) : (priorityOrd perm cs).Perm cs :=
  List.mergeSort_perm cs _

theorem priorityOrd_sorted (perm cs : List Nat) :
    (priorityOrd perm cs).Pairwise (fun a b => rankLe perm a b = true) :=
  List.pairwise_mergeSort (rankLe_trans perm) (rankLe_total perm) cs

/-- `priorityOrd perm cs` is THE rearrangement of `cs` that is sorted by rank -/
theorem priorityOrd_unique {perm cs l : List Nat} (hp : l.Perm cs)
    (hs : l.Pairwise (fun a b => rankLe perm a b = true)) : priorityOrd perm cs = l :=
  List.Perm.eq_of_pairwise (le := fun a b => rankLe perm a b = true)
    (fun a b _ _ => rankLe_antisymm perm a b) (priorityOrd_sorted perm cs) hs
    ((priorityOrd_perm perm cs).trans hp.symm)

/-- a list already sorted by rank is left alone -/
theorem priorityOrd_of_sorted {perm cs : List Nat}
    (hs : cs.Pairwise (fun a b => rankLe perm a b = true)) : priorityOrd perm cs = cs :=
  priorityOrd_unique (List.Perm.refl cs) hs

theorem rank_nil (c : Nat) : rank [] c = c := by
  unfold rank; simp

/-- with no priorities the schedule is creation order: ascending lists are left alone -/
theorem priorityOrd_nil_of_sorted {cs : List Nat} (hs : cs.Pairwise (· ≤ ·)) : priorityOrd [] cs = cs := by
  apply priorityOrd_of_sorted
  refine hs.imp ?_
  intro a b hab
  unfold rankLe; rw [rank_nil, rank_nil]; exact decide_eq_true hab

theorem priorityOrd_nil_of_strict {cs : List Nat} (hs : cs.Pairwise (· < ·)) : priorityOrd [] cs = cs :=
  priorityOrd_nil_of_sorted (hs.imp Nat.le_of_lt)

/-- every `priorityOrd perm` fixes lists with at most one element -/
theorem priorityOrd_short (perm : List Nat) {cs : List Nat} (h : cs.length ≤ 1) : priorityOrd perm cs = cs := by
  match cs, h with
  | [], _ => exact priorityOrd_of_sorted List.Pairwise.nil
  | [a], _ => exact priorityOrd_of_sorted (List.pairwise_singleton _ _)

/-! ## a kernel-evaluable form -/

def insRank (perm : List Nat) (c : Nat) : List Nat → List Nat
  | [] => [c]
  | x :: xs => if rankLe perm c x then c :: x :: xs else x :: insRank perm c xs

/-- insertion sort by rank (structural recursion) -/
def insOrd (perm : List Nat) : List Nat → List Nat
  | [] => []
  | c :: cs => insRank perm c (insOrd perm cs)

theorem insRank_perm (perm : List Nat) (c : Nat) : ∀ l, (insRank perm c l).Perm (c :: l)
  | [] => List.Perm.refl _
  | x :: xs => by
    unfold insRank
    split
    · exact List.Perm.refl _
    · exact ((insRank_perm perm c xs).cons x).trans (List.Perm.swap c x xs)

theorem insRank_sorted (perm : List Nat) (c : Nat) : ∀ l, l.Pairwise (fun a b => rankLe perm a b = true) →
    (insRank perm c l).Pairwise (fun a b => rankLe perm a b = true)
  | [], _ => List.pairwise_singleton _ _
  | x :: xs, h => by
    unfold insRank
    have hx := List.pairwise_cons.mp h
    split
    · next hc =>
      refine List.pairwise_cons.mpr ⟨?_, h⟩
      intro b hb
      rcases List.mem_cons.mp hb with rfl | hb
      · exact hc
      · exact rankLe_trans perm c x b hc (hx.1 b hb)
    · next hc =>
      refine List.pairwise_cons.mpr ⟨?_, insRank_sorted perm c xs hx.2⟩
      intro b hb
      rcases List.mem_cons.mp ((insRank_perm perm c xs).subset hb) with rfl | hb
      · have := rankLe_total perm b x
        simp only [Bool.or_eq_true] at this
        rcases this with h1 | h1
        · exact absurd h1 hc
        · exact h1
      · exact hx.1 b hb

theorem insOrd_perm (perm : List Nat) : ∀ cs, (insOrd perm cs).Perm cs
  | [] => List.Perm.refl _
  | c :: cs => by
    unfold insOrd
    exact (insRank_perm perm c _).trans ((insOrd_perm perm cs).cons c)

theorem insOrd_sorted (perm : List Nat) : ∀ cs, (insOrd perm cs).Pairwise (fun a b => rankLe perm a b = true)
  | [] => List.Pairwise.nil
  | c :: cs => by
    unfold insOrd
    exact insRank_sorted perm c _ (insOrd_sorted perm cs)

/-- `priorityOrd` is insertion sort by rank -/
theorem priorityOrd_eq_insOrd (perm cs : List Nat) : priorityOrd perm cs = insOrd perm cs :=
  priorityOrd_unique (insOrd_perm perm cs) (insOrd_sorted perm cs)

theorem priorityOrd_funext (perm : List Nat) : priorityOrd perm = insOrd perm :=
  funext (priorityOrd_eq_insOrd perm)

end Tfv.C18P
