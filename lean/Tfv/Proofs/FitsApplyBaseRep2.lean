import Tfv.Proofs.FitsApplyBaseRep1
/-!
# C06 end to end, `x ** r(x) [x << {G(b, b), F(c)}]`, part 2: applying it to `G(A₁, A₂)` (base types `A₁`, `A₂`)
-/
namespace Tfv.C06B
open Tfv Tfv.C03P Tfv.C03C Tfv.C16P Tfv.C17E Tfv.C03R Tfv.C06A Tfv.C05P

/-- `x` bound to the argument, the record `c`, the variable `b` with record `i1` and constraint set `cs1` -/
def σJX (a : Ty) (c : Constr) (i1 : VarInfo) (cs0 cs1 : List Nat) : Store :=
  { vars := [{ bound := some a.toTerm, cset := 0 }, i1, { cset := 2 }], csets := [cs0, cs1, [0]], constrs := [c] }

theorem fitsBs_vars (L : Lang) (pol : Bool) : ∀ (ws : List Nat) (vs : List Bool) (xs : List Ty),
    fitsBs L pol vs xs (ws.map Term.var) = true
  | [], vs, xs => fitsBs_nil_p L pol vs xs
  | w :: ws, [], xs => fitsBs_nil_v L pol xs _
  | w :: ws, v :: vs, [] => fitsBs_nil_x L pol _ _
  | w :: ws, v :: vs, x :: xs => by
    rw [List.map_cons, fitsBs_cons, fitsBs_vars L pol ws vs xs, fitsB]; rfl

/-- the second component `A₂` meets `b`, which already has the lower bound `A₁`: the bound is raised, kept, or the two are
incomparable and `above` fails — there are no joins -/
theorem above_second (L : Lang) (m : Nat) (a : Ty) (c : Constr) (A1 A2 : Nat) (ht : A2 ≠ TOP) :
    above L (m+3) (σJX a c { lower := some A1, cset := 1 } [0] []) 1 A2 =
      if opSub L A2 A1 true then .ok (σJX a c { lower := some A1, cset := 1 } [0] [])
      else if opSub L A1 A2 then .ok (σJX a c { lower := some A2, cset := 1 } [0] [])
      else .error .subtypeMismatch := by
  have ht' : (A2 == TOP) = false := by simpa using ht
  rw [above]
  have e1 : getVar (σJX a c { lower := some A1, cset := 1 } [0] []) 1 = { lower := some A1, cset := 1 } := rfl
  simp only [ht', Bool.false_eq_true, if_false, e1, Option.isSome_none, Option.any_none, Option.any_some, Option.all_some]
  have e2 : setVar (σJX a c { lower := some A1, cset := 1 } [0] []) 1 { lower := some A1, cset := 1 } =
      σJX a c { lower := some A1, cset := 1 } [0] [] := rfl
  rw [e2]
  cases h1 : opSub L A2 A1 true
  · simp only [Bool.false_eq_true, if_false]
    cases h2 : opSub L A1 A2
    · simp only [Bool.false_eq_true, if_false]
    · simp only [if_true]
      have e3 : setVar (σJX a c { lower := some A1, cset := 1 } [0] []) 1 { lower := some A2, cset := 1 } =
          σJX a c { lower := some A2, cset := 1 } [0] [] := rfl
      rw [e3, checkConstraints]
      have e4 : getCset (σJX a c { lower := some A2, cset := 1 } [0] [])
          (getVar (σJX a c { lower := some A2, cset := 1 } [0] []) 1).cset = [] := rfl
      rw [e4, checkList]
      simp only []
      rfl
  · simp only [if_true, e1]
    rfl


theorem unify_base_gen (L : Lang) (m : Nat) (σ : Store) (w ao : Nat) (hbd : (getVar σ w).bound = none)
    (h0 : arityOf L ao = 0) (hb : ao ≠ BOT) :
    unify L (m+1) σ (Ty.app ao []).toTerm (.var w) true false false = above L m σ w ao := by
  have hocc := occurs_closed_var (L := L) (σ := σ) (w := w) hbd (termFuel σ) _ (closed_toTerm (.app ao []))
  rw [Tfv.toTerm_app] at hocc ⊢
  rw [unify, Tfv.followT_app, C16P.followT_unbound hbd]
  simp [hb, hocc, h0]

/-- the outcome of unifying `G(A₁, A₂)` with `G(b, b)`: the record of `b` -/
def repOutcome (L : Lang) (A1 A2 : Nat) : Except Err VarInfo :=
  if opSub L A2 A1 true then .ok { lower := some A1, cset := 1 }
  else if opSub L A1 A2 then .ok { lower := some A2, cset := 1 }
  else .error .subtypeMismatch

theorem unify_rep (L : Lang) (wf : WF L) (oF oG : Nat) (ops : RepOps L oF oG) (x A1 A2 : Nat) (c : Constr)
    (hc : ∃ ref alts, c = .elim ref alts true)
    (h1 : arityOf L A1 = 0) (h2 : arityOf L A2 = 0) (b1 : A1 ≠ BOT) (t1 : A1 ≠ TOP) (b2 : A2 ≠ BOT) (t2 : A2 ≠ TOP)
    (hx : 4 ≤ x) :
    unify L (x+4) (σJX (.app oG [.app A1 [], .app A2 []]) c { cset := 1 } [0] [0])
        (Ty.app oG [.app A1 [], .app A2 []]).toTerm (R1 oG) true false false =
      (match repOutcome L A1 A2 with
       | .error e => .error e
       | .ok i => .ok (σJX (.app oG [.app A1 [], .app A2 []]) c i [0] [])) := by
  obtain ⟨m, rfl⟩ : ∃ m, x = m + 4 := ⟨x - 4, by omega⟩
  have kG : arityOf L oG ≠ 0 := by rw [ops.aG]; decide
  have hb : (oG == BOT) = false := by simpa using compound_not_bot wf kG
  have ht : (oG == TOP) = false := by simpa using compound_not_top wf kG
  have kG' : (arityOf L oG == 0) = false := by simpa using kG
  generalize hσ : σJX (.app oG [.app A1 [], .app A2 []]) c { cset := 1 } [0] [0] = σ
  rw [Tfv.toTerm_app, Tfv.toTermL_cons, Tfv.toTermL_cons, Ty.toTermL, R1, C06A.unify_app_app]
  simp only [hb, ht, Bool.or_self, Bool.false_eq_true, if_false, kG', beq_self_eq_true, if_true, ops.vG]
  rw [unifyList_cons]
  simp only [if_true]
  have hf : FreshAt σ 1 0 := by
    obtain ⟨ref, alts, rfl⟩ := hc
    rw [← hσ]
    exact ⟨show 1 < 3 by omega, rfl, rfl, _, _, rfl⟩
  rw [unify_co L m σ 1 0 (.app A1 []) hf]
  simp only []
  have hstep : argStep L σ true (.app A1 []) 1 =
      σJX (.app oG [.app A1 [], .app A2 []]) c { lower := some A1, cset := 1 } [0] [] := by
    have b1' : (A1 == BOT) = false := by simpa using b1
    have t1' : (A1 == TOP) = false := by simpa using t1
    rw [← hσ]
    simp only [argStep, if_true, hd, b1', Bool.false_eq_true, if_false, infoCo, h1, beq_self_eq_true, t1']
    rfl
  rw [hstep, unifyList_cons]
  simp only [if_true]
  rw [unify_base_gen L _ _ 1 A2 rfl h2 b2, above_second L (m+1) _ c A1 A2 t2]
  unfold repOutcome
  cases opSub L A2 A1 true
  · simp only [Bool.false_eq_true, if_false]
    cases opSub L A1 A2
    · rfl
    · simp only [if_true]
      rw [unifyList_nil_vs]
  · simp only [if_true]
    rw [unifyList_nil_vs]


/-- the argument `G(A₁, A₂)` -/
def aG (oG A1 A2 : Nat) : Ty := .app oG [.app A1 [], .app A2 []]

/-- the store after the application to `G(A₁, A₂)` -/
def repAfter (L : Lang) (oG A1 A2 : Nat) : Except Err Store :=
  match repOutcome L A1 A2 with
  | .error e => .error e
  | .ok i => .ok (σJX (aG oG A1 A2) (.elim (aG oG A1 A2).toTerm [R1 oG] true) i [] [])

theorem patFree_σJX (a : Ty) (c : Constr) (cs0 cs1 : List Nat) (p : Term) (hp : ∀ v ∈ p.vars, 1 ≤ v) :
    PatFree (σJX a c { cset := 1 } cs0 cs1) p := by
  intro v hv
  have := hp v hv
  match v, this with
  | 1, _ | 2, _ => exact ⟨rfl, rfl, rfl⟩
  | v+3, _ => exact ⟨rfl, rfl, rfl⟩

theorem σJB_inert (a : Ty) (c : Constr) (cs0 cs1 : List Nat) : Inert (σJX a c { cset := 1 } cs0 cs1) a := by
  intro v
  match v with
  | 0 => exact Or.inr rfl
  | 1 | 2 => exact Or.inl ⟨rfl, rfl, rfl⟩
  | v+3 => exact Or.inl ⟨rfl, rfl, rfl⟩

theorem size_aG (oG A1 A2 : Nat) : Ty.size (aG oG A1 A2) = 3 := by
  simp [aG, Ty.size, Ty.sizeL]

theorem check_σJB (L : Lang) (wf : WF L) (oF oG : Nat) (ops : RepOps L oF oG) (x A1 A2 : Nat)
    (h1 : arityOf L A1 = 0) (h2 : arityOf L A2 = 0) (b1 : A1 ≠ BOT) (t1 : A1 ≠ TOP) (b2 : A2 ≠ BOT) (t2 : A2 ≠ TOP)
    (hx : 18 ≤ x) :
    checkConstraints L (x+7) (σJX (aG oG A1 A2) (.elim (.var 0) [R1 oG, R2 oF] false) { cset := 1 } [0] [0]) 0 =
      repAfter L oG A1 A2 := by
  have kF : arityOf L oF ≠ 0 := by rw [ops.aF]; decide
  have kG : arityOf L oG ≠ 0 := by rw [ops.aG]; decide
  generalize ha : aG oG A1 A2 = a
  have hda : Ty.depth a < 64 := by rw [← ha]; simp [aG, Ty.depth, Ty.depthL]
  have hSa : Ty.size a = 3 := by rw [← ha]; exact size_aG oG A1 A2
  rw [checkConstraints]
  have e1 : getCset (σJX a (.elim (.var 0) [R1 oG, R2 oF] false) { cset := 1 } [0] [0])
      (getVar (σJX a (.elim (.var 0) [R1 oG, R2 oF] false) { cset := 1 } [0] [0]) 0).cset = [0] := rfl
  rw [e1, checkList, fulfill]
  have hg : getConstr (σJX a (.elim (.var 0) [R1 oG, R2 oF] false) { cset := 1 } [0] [0]) 0 =
      .elim (.var 0) [R1 oG, R2 oF] false := rfl
  simp only [hg]
  rw [show R1 oG = .app oG [.var 1, .var 1] from rfl, show R2 oF = .app oF [.var 2] from rfl] at hg ⊢
  rw [minimize_two L wf _ a oG oF _ _ kG kF ops.ne (by simp [tsz, tszL]) (by simp [tsz, tszL]) (σJB_inert a _ _ _) x
    (by omega) _ _ hg, followT_bound_toTerm rfl]
  rw [← show R1 oG = .app oG [.var 1, .var 1] from rfl, ← show R2 oF = .app oF [.var 2] from rfl]
  have e2 : setConstr (σJX a (.elim (.var 0) [R1 oG, R2 oF] false) { cset := 1 } [0] [0]) 0
      (.elim a.toTerm [R1 oG, R2 oF] false) = σJX a (.elim a.toTerm [R1 oG, R2 oF] false) { cset := 1 } [0] [0] := rfl
  rw [e2]
  have hg' : getConstr (σJX a (.elim a.toTerm [R1 oG, R2 oF] false) { cset := 1 } [0] [0]) 0 =
      .elim a.toTerm [R1 oG, R2 oF] false := rfl
  simp only [hg']
  have e3 : matchFuel (σJX a (.elim a.toTerm [R1 oG, R2 oF] false) { cset := 1 } [0] [0]) = 76 := rfl
  have k1 := match3_keep_iff L (σJX a (.elim a.toTerm [R1 oG, R2 oF] false) { cset := 1 } [0] [0]) 76 a (R1 oG)
    (patFree_σJX _ _ _ _ _ (by simp [R1, Term.vars, Term.varsL])) (by omega)
  have k2 := match3_keep_iff L (σJX a (.elim a.toTerm [R1 oG, R2 oF] false) { cset := 1 } [0] [0]) 76 a (R2 oF)
    (patFree_σJX _ _ _ _ _ (by simp [R2, Term.vars, Term.varsL])) (by omega)
  have f1 : fitsB L true a (R1 oG) = true := by
    have hb : (oG == BOT) = false := by simpa using compound_not_bot wf kG
    have ht : (oG == TOP) = false := by simpa using compound_not_top wf kG
    have kG' : (arityOf L oG == 0) = false := by simpa using kG
    rw [← ha, aG, R1, fitsB_app]
    simp only [if_true, hb, ht, Bool.or_self, Bool.false_eq_true, if_false, kG', bne_self_eq_false]
    exact fitsBs_vars L true [1, 1] _ _
  have f2 : fitsB L true a (R2 oF) = false := by
    rw [← ha, aG, show R2 oF = .app oF (varsFrom 2 1) from rfl, fitsB_flat wf oG _ oF 2 1 kG kF]
    simpa using ops.ne
  rw [f1] at k1
  rw [f2] at k2
  rw [e3]
  simp only [List.filter_cons, List.filter_nil, k1, k2, if_true, Bool.false_eq_true, if_false]
  generalize hc : List.all [R1 oG, R2 oF] _ = cnd
  have hcnd : cnd = true := by rw [← hc]; rfl
  subst hcnd
  have e4 : setConstr (σJX a (.elim a.toTerm [R1 oG, R2 oF] false) { cset := 1 } [0] [0]) 0
      (.elim a.toTerm [R1 oG] true) = σJX a (.elim a.toTerm [R1 oG] true) { cset := 1 } [0] [0] := rfl
  rw [e4]
  unfold repAfter
  rw [ha]
  subst ha
  rw [aG, unify_rep L wf oF oG ops x A1 A2 _ ⟨_, _, rfl⟩ h1 h2 b1 t1 b2 t2 (by omega), Tfv.toTerm_app]
  simp only [Bool.and_self, Bool.not_true, Bool.false_eq_true, if_false]
  cases repOutcome L A1 A2 with
  | error e => rfl
  | ok i =>
    simp only [if_true]
    rw [checkList]
    rfl

end Tfv.C06B
