"""Translator: /repo's current source -> lean/Tfv/Generated.lean.

Re-extracts the table-like facts the models depend on:
  * tokenizer special-character strings and the blank set (lang.py),
  * reserved names (lang.py, Language.add),
  * the builtin type operators with names, variances and parents (type.py),
  * RDF predicate local names emitted by graph.py, asked for by query.py and
    declared by vocab/transforge.ttl.
The extraction keys on call sites and argument positions (ast), not on line
numbers. A failure raises ExtractionError, which the runner treats as a
broken tie between model and source.
"""
from __future__ import annotations
import ast, os, re, sys


class ExtractionError(Exception):
    pass


def _src(repo, rel):
    with open(os.path.join(repo, rel), encoding="utf-8") as f:
        return f.read()


def _func(tree, cls, name):
    for node in ast.walk(tree):
        if cls and isinstance(node, ast.ClassDef) and node.name == cls:
            for sub in node.body:
                if isinstance(sub, ast.FunctionDef) and sub.name == name:
                    return sub
        if not cls and isinstance(node, ast.FunctionDef) and node.name == name:
            return node
    raise ExtractionError(f"function {cls}.{name} not found")


def _tokenize_specials(fn):
    out = []
    for node in ast.walk(fn):
        if isinstance(node, ast.Call) and isinstance(node.func, ast.Name) \
                and node.func.id == "tokenize" and len(node.args) == 2 \
                and isinstance(node.args[1], ast.Constant) \
                and isinstance(node.args[1].value, str):
            out.append(node.args[1].value)
    if len(out) != 1:
        raise ExtractionError(f"expected one tokenize(_, <str>) call in {fn.name}, got {out}")
    return out[0]


def extract(repo: str) -> dict:
    c: dict = {}
    lang_src = _src(repo, "transforge/lang.py")
    tree = ast.parse(lang_src)
    c["exprSpecials"] = _tokenize_specials(_func(tree, "Language", "parse_expr"))
    c["typeSpecials"] = _tokenize_specials(_func(tree, "Language", "parse_type"))
    # blanks: the string constant compared with `in` inside tokenize()'s lambda
    tok = _func(tree, None, "tokenize")
    blanks = [n.comparators[0].value for n in ast.walk(tok)
        if isinstance(n, ast.Compare) and isinstance(n.ops[0], ast.In)
        and isinstance(n.comparators[0], ast.Constant)
        and isinstance(n.comparators[0].value, str)]
    if len(blanks) != 1:
        raise ExtractionError(f"blank set of tokenize(): {blanks}")
    c["blanks"] = blanks[0]
    # reserved names in Language.add
    add = _func(tree, "Language", "add")
    reserved = None
    for n in ast.walk(add):
        if isinstance(n, ast.Assign) and isinstance(n.targets[0], ast.Name) \
                and n.targets[0].id == "reserved":
            reserved = [e.value for e in n.value.elts]
    if reserved is None:
        raise ExtractionError("reserved names")
    c["reserved"] = reserved
    # special tokens compared against in the parsers
    # builtins: import type.py from the repo
    sys.path.insert(0, repo)
    try:
        import importlib
        for m in list(sys.modules):
            if m == "transforge" or m.startswith("transforge."):
                f = getattr(sys.modules[m], "__file__", "") or ""
                if not f.startswith(repo):
                    del sys.modules[m]
        T = importlib.import_module("transforge.type")
    finally:
        pass
    order = ["Unit", "Top", "Bottom", "Product", "Function"]
    decls = []
    for name in order:
        op = getattr(T, name, None)
        if op is None or op not in T.builtins:
            raise ExtractionError(f"builtin {name}")
        if op.parent is not None:
            raise ExtractionError(f"builtin {name} has a parent")
        decls.append((str(op.name), [v is T.Variance.CO for v in op.variance]))
    if len(T.builtins) != 5:
        raise ExtractionError("number of builtins")
    c["builtins"] = decls
    # predicates emitted by graph.py: TF.<name> and TF["name"]
    gtree = ast.parse(_src(repo, "transforge/graph.py"))
    emitted = set()
    for n in ast.walk(gtree):
        if isinstance(n, ast.Attribute) and isinstance(n.value, ast.Name) and n.value.id == "TF":
            emitted.add(n.attr)
        if isinstance(n, ast.Subscript) and isinstance(n.value, ast.Name) and n.value.id == "TF" \
                and isinstance(n.slice, ast.Constant):
            emitted.add(n.slice.value)
    c["emitted"] = sorted(emitted)
    # predicates asked for by query.py: ':name' inside string constants of the
    # clause generators
    qtree = ast.parse(_src(repo, "transforge/query.py"))
    asked = set()
    for fname in ("types", "operators", "output_nodes", "input_nodes", "chronology", "sparql"):
        fn = _func(qtree, "TransformationQuery", fname)
        for n in ast.walk(fn):
            if isinstance(n, ast.Constant) and isinstance(n.value, str):
                for m in re.finditer(r"(?<![\w<])[\^]?:([A-Za-z]\w*)", n.value):
                    asked.add(m.group(1))
    asked -= {"Transformation"}
    c["asked"] = sorted(asked)
    membership = sorted(p for p in asked if p.startswith("contains"))
    c["membershipAsked"] = membership
    # vocabulary: ':name' subjects typed as a property
    ttl = _src(repo, "vocab/transforge.ttl")
    props = set()
    for m in re.finditer(r"^:(\w+)\s*\n?\s*a\s+(rdf|rdfs|owl):(Property|ObjectProperty|TransitiveProperty)", ttl, re.M):
        props.add(m.group(1))
    c["vocabProperties"] = sorted(props)
    return c


def lean_str(s: str) -> str:
    out = []
    for ch in s:
        if ch == "\n": out.append("\\n")
        elif ch == "\t": out.append("\\t")
        elif ch == "\r": out.append("\\r")
        elif ch == "\\": out.append("\\\\")
        elif ch == '"': out.append('\\"')
        else: out.append(ch)
    return '"' + "".join(out) + '"'


def render(c: dict) -> str:
    L = []
    L.append("/-! GENERATED by harness/gen_constants.py from /repo's current source on every run. Do not edit. -/")
    L.append("namespace Tfv.Generated")
    L.append(f"def exprSpecials : String := {lean_str(c['exprSpecials'])}")
    L.append(f"def typeSpecials : String := {lean_str(c['typeSpecials'])}")
    L.append(f"def blanks : String := {lean_str(c['blanks'])}")
    L.append("def reserved : List String := [" + ", ".join(lean_str(s) for s in c["reserved"]) + "]")
    L.append("def builtins : List (String × List Bool) := [" + ", ".join(
        f"({lean_str(n)}, [{', '.join('true' if v else 'false' for v in vs)}])" for n, vs in c["builtins"]) + "]")
    L.append("def emittedPredicates : List String := [" + ", ".join(lean_str(s) for s in c["emitted"]) + "]")
    L.append("def queriedPredicates : List String := [" + ", ".join(lean_str(s) for s in c["asked"]) + "]")
    L.append("def membershipPredicates : List String := [" + ", ".join(lean_str(s) for s in c["membershipAsked"]) + "]")
    L.append("def vocabularyProperties : List String := [" + ", ".join(lean_str(s) for s in c["vocabProperties"]) + "]")
    L.append("end Tfv.Generated")
    return "\n".join(L) + "\n"


def regenerate(repo: str, lean_dir: str) -> dict:
    c = extract(repo)
    text = render(c)
    path = os.path.join(lean_dir, "Tfv", "Generated.lean")
    old = None
    if os.path.exists(path):
        with open(path, encoding="utf-8") as f:
            old = f.read()
    if old != text:
        with open(path, "w", encoding="utf-8") as f:
            f.write(text)
    return c


if __name__ == "__main__":
    here = os.path.dirname(os.path.dirname(os.path.abspath(__file__)))
    repo = os.environ.get("VERIF_REPO", "/repo")
    c = regenerate(repo, os.path.join(here, "lean"))
    import json
    print(json.dumps(c, indent=1, ensure_ascii=False))
