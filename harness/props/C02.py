"""C02 - applying a concrete function type accepts exactly the subtypes of its input."""
from __future__ import annotations
import langgen as G
from refsub import ref_sub

RULE = ("languages as C01; triples (a,b,x): x related to a by walking the hierarchy (both directions, 10% wrong on purpose), "
        "function-typed a and x included, Top/Bottom included; a third of the triples built so that structurally equal sub-terms of f and x are one Python object; also Top and non-function types in function position; "
        "non-trivial = x != a and neither is Top/Bottom; distinct by (language, f, x)")
ASSUMPTIONS = ["types are well-formed; languages satisfy WF"]
TRUSTED = ["harness/refsub.py (oracle)"]


def ty_py_shared(t, ops, cache):
    """like G.ty_py, but structurally equal sub-terms are ONE Python object (as when a user keeps a type instance in a variable, or
    through a type alias, and uses it on both sides of an application)"""
    if t not in cache:
        o, args = t
        cache[t] = ops[o](*(ty_py_shared(a, ops, cache) for a in args))
    return cache[t]


def obs_apply(f, x, spec, ops, shared=False):
    from transforge import type as T
    try:
        if shared:
            cache = {}
            r = ty_py_shared(f, ops, cache).apply(ty_py_shared(x, ops, cache))
        else:
            r = G.ty_py(f, ops).apply(G.ty_py(x, ops))
    except T.TypingError as e:
        # class only; SubtypeMismatch / FunctionApplicationError are TypeMismatch subclasses
        return "E:" + type(e).__name__, None
    except Exception as e:  # noqa
        return "X:" + type(e).__name__, None
    return "ok " + py_ty_sexp(r, ops), r


def py_ty_sexp(t, ops):
    """a concrete transforge type -> protocol form"""
    t = t.follow()
    o = next(i for i, op in enumerate(ops) if op is t.operator)
    if not t.params:
        return f"({o})"
    return f"({o} " + " ".join(py_ty_sexp(p, ops) for p in t.params) + ")"


def run(ctx):
    rng = ctx.rng
    nlang = 10 if ctx.tier == "quick" else 120
    ntrip = 300 if ctx.tier == "quick" else 1500
    maxdepth = 3 if ctx.tier == "quick" else 5
    for li in range(nlang):
        spec = G.gen_lang(rng)
        ops = spec.build()
        ctx.setup(spec.sexp(), "ok T")
        for k in range(ntrip):
            d = rng.randint(0, maxdepth)
            a = G.gen_ty(rng, spec, d)
            b = G.gen_ty(rng, spec, rng.randint(0, 2))
            r = rng.random()
            if r < 0.35:
                x = G.perturb(rng, spec, a, up=False)
            elif r < 0.6:
                x = G.perturb(rng, spec, a, up=True)
            elif r < 0.7:
                x = a
            else:
                x = G.gen_ty(rng, spec, d)
            r2 = rng.random()
            if r2 < 0.85:
                f = (G.FUN, (a, b))
            elif r2 < 0.9:
                f = (G.TOP, ())
            else:
                f = G.gen_ty(rng, spec, 2)
            shared = k % 3 == 0       # a third of the triples are built with shared sub-objects
            o, res = obs_apply(f, x, spec, ops, shared)
            ctx.count("built_with_shared_subobjects" if shared else "built_fresh")
            nontriv = f[0] == G.FUN and x != a and x[0] not in (G.TOP, G.BOT) and a[0] not in (G.TOP, G.BOT)
            ctx.case(f"(apply {G.ty_sexp(f)} {G.ty_sexp(x)})", o,
                {"lang": spec.to_json(), "f": G.ty_str(f, spec), "x": G.ty_str(x, spec)},
                nontrivial=nontriv, key=(li, f, x))
            ctx.count("outcome_" + o.split(" ")[0])
            bad = check(spec, f, x, o)
            if bad:
                ctx.fail(f"({G.ty_str(f, spec)}).apply({G.ty_str(x, spec)}){' [equal sub-terms shared as objects]' if shared else ''} gave {o}: {bad}",
                    {"check": bad}, {"lang": spec.to_json(), "f": f, "x": x, "shared": shared})


def check(spec, f, x, o):
    """oracle: the statement of C02, from the declared order"""
    if f[0] == G.FUN:
        a, b = f[1]
        if ref_sub(spec, x, a):
            if o != "ok " + G.ty_sexp(b):
                return "subtype argument not accepted with result b"
        else:
            if not o.startswith("E:") or o[2:] not in ("TypeMismatch", "SubtypeMismatch"):
                return "non-subtype argument not rejected with a type mismatch"
    elif f[0] == G.TOP:
        if o != f"ok ({G.TOP})":
            return "applying Top does not yield Top"
    else:
        if o != "E:FunctionApplicationError":
            return "applying a non-function is not a FunctionApplicationError"
    return None


def replay(ctx, payload):
    inp = payload["input"]
    spec = G.LangSpec([(n, v, p) for n, v, p in inp["lang"]])
    ops = spec.build()
    tt = lambda x: (x[0], tuple(tt(a) for a in x[1]))  # noqa
    f, x = tt(inp["f"]), tt(inp["x"])
    o, _ = obs_apply(f, x, spec, ops, inp.get("shared", False))
    bad = check(spec, f, x, o)
    print(f"({G.ty_str(f, spec)}).apply({G.ty_str(x, spec)}) -> {o}; oracle: {bad or 'as the property states'}")
    return bad is None
