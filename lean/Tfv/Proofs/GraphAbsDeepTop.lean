import Tfv.Proofs.GraphAbsDeepMain
import Tfv.Proofs.FlowExamples
/-!
# C08 on expanded composite operators at any depth: back to the model
-/
namespace Tfv.C08P
open Tfv

/-- the parameter table is consistent with the graph: the nodes the parameters denote have been handed out by the
counter, and no internal node is attached to any of them (true of the empty table; kept by `addExprA` on the class) -/
structure ParFresh (s : AState) : Prop where
  lt : ∀ p ∈ s.params, p.2 < s.g.nextB
  no_int : ∀ q ∈ s.g.internals, ∀ p ∈ s.params, q.1 ≠ p.2

/-- the node reserved by the caller is unused in the graph (`CurFree`) and is not the node of a parameter -/
structure CurFreeA (s : AState) (m : Nat) : Prop where
  free : CurFree s.g m
  no_par : ∀ p ∈ s.params, p.2 ≠ m

theorem addExprAC_none_op {e : AExpr} {name : String} {ty : Term} (hh : headOfA e = .op name ty) (k : Core) (ps : Params) :
    addExprAC k ps e none = addExprAC k.fresh.1 ps e (some k.nextB) := by
  rw [addExprAC_spine e name ty k ps none hh, addExprAC_spine e name ty k.fresh.1 ps (some k.nextB) hh]
  rfl

theorem gCtxA_of_fresh {s : AState} {cur : Option Nat} (hg : GFresh s.g) (hp : ParFresh s)
    (hcur : ∀ m, cur = some m → CurFreeA s m) :
    GCtxA (allocNode s.g.nextB cur).1 { coreOf s.g with nextB := (allocNode s.g.nextB cur).2 } s.params := by
  have h0 := gCtx_of_fresh hg (fun m hm => (hcur m hm).free)
  refine ⟨h0.x_lt, h0.ints, h0.frm, ?_⟩
  rintro t (⟨p, hp', h⟩ | ⟨p, hp', h⟩)
  · rw [← h]; exact h0.src p hp'
  · rw [← h]
    have hlt := hp.lt p hp'
    cases cur with
    | none =>
      simp only [allocNode]
      exact ⟨by show p.2 < s.g.nextB + 1; omega, by omega⟩
    | some m =>
      simp only [allocNode]
      exact ⟨hlt, (hcur m rfl).no_par p hp'⟩

theorem noInt_of_fresh {s : AState} (hs : SrcNoInt s.g) (hp : ParFresh s) (nb : Nat) :
    NoInt { coreOf s.g with nextB := nb } s.params := by
  rintro q hq t (⟨p, hp', h⟩ | ⟨p, hp', h⟩)
  · rw [← h]; exact hs q hq p hp'
  · rw [← h]; exact hp.no_int q hq p hp'

/-- the postcondition on the graph -/
theorem addExprA_hofA_post {G : GLang} {c : GCfg} {root : Node} {origin : Option Node} (hc : c.withTypes = false)
    {s s' : AState} {e : AExpr} {cur : Option Nat} {im : Bool} {n : Nat} {name : String} {ty : Term}
    (hof : HofA e) (hh : headOfA e = .op name ty)
    (hg : GFresh s.g) (hs : SrcNoInt s.g) (hp : ParFresh s) (hcur : ∀ m, cur = some m → CurFreeA s m)
    (h : addExprA G c root origin s e cur im = .ok (s', n)) :
    SPostA (allocNode s.g.nextB cur).1 { coreOf s.g with nextB := (allocNode s.g.nextB cur).2 } s.params
      (flowHATop s.g.nextB s.g.srcNodes s.params e cur) (coreOf s'.g) s'.params n := by
  have hcore := addExprA_core hc e origin s cur im s' n h
  have hctx := gCtxA_of_fresh hg hp hcur
  have hni := noInt_of_fresh hs hp (allocNode s.g.nextB cur).2
  cases cur with
  | none =>
    rw [addExprAC_none_op hh] at hcore
    exact (addExprAC_flowHA hof).1 _ _ _ _ _ _ hctx hni hcore
  | some m => exact (addExprAC_flowHA hof).1 _ _ _ _ _ _ hctx hni hcore

/-- abstractions at any depth: the theorem on the graph -/
theorem addExprA_hofA_general {G : GLang} {c : GCfg} {root : Node} {origin : Option Node} (hc : c.withTypes = false)
    {s s' : AState} {e : AExpr} {cur : Option Nat} {im : Bool} {n : Nat} {name : String} {ty : Term}
    (hof : HofA e) (hh : headOfA e = .op name ty)
    (hg : GFresh s.g) (hs : SrcNoInt s.g) (hp : ParFresh s) (hcur : ∀ m, cur = some m → CurFreeA s m)
    (h : addExprA G c root origin s e cur im = .ok (s', n)) :
    n = (allocNode s.g.nextB cur).1 ∧
    n = (flowHATop s.g.nextB s.g.srcNodes s.params e cur).node ∧
    s'.g.nextB = (flowHATop s.g.nextB s.g.srcNodes s.params e cur).next ∧
    s'.g.srcNodes = (flowHATop s.g.nextB s.g.srcNodes s.params e cur).memo ∧
    s'.params = (flowHATop s.g.nextB s.g.srcNodes s.params e cur).params ∧
    s'.g.sharedNodes = s.g.sharedNodes ∧
    s'.g.internals = s.g.internals ++ (flowHATop s.g.nextB s.g.srcNodes s.params e cur).ints ∧
    (∀ p, p ∈ s'.g.fd.frm ↔ p ∈ s.g.fd.frm ∨ p ∈ (flowHATop s.g.nextB s.g.srcNodes s.params e cur).edges) ∧
    ((flowHATop s.g.nextB s.g.srcNodes s.params e cur).ints.map Prod.snd).Nodup ∧
    (∀ q ∈ (flowHATop s.g.nextB s.g.srcNodes s.params e cur).ints, s.g.nextB ≤ q.2 ∧ q.2 < s'.g.nextB) := by
  have post := addExprA_hofA_post hc hof hh hg hs hp hcur h
  have hn : n = (flowHATop s.g.nextB s.g.srcNodes s.params e cur).node := post.node_eq
  have hx : (flowHATop s.g.nextB s.g.srcNodes s.params e cur).node = (allocNode s.g.nextB cur).1 := by
    unfold flowHATop
    rw [flowHA_spine _ _ _ e _ name ty hh]
  have hnext : s'.g.nextB = (flowHATop s.g.nextB s.g.srcNodes s.params e cur).next := post.next_eq
  refine ⟨by rw [hn, hx], hn, hnext, post.src_eq, post.par_eq, post.shared_eq, post.ints_eq, post.frm_iff,
    post.ints_nodup, ?_⟩
  intro q hq
  have := post.ints_rng q hq
  rw [hnext]
  have hle : s.g.nextB ≤ (allocNode s.g.nextB cur).2 := by cases cur <;> simp [allocNode]
  exact ⟨Nat.le_trans hle this.2.2.1, this.2.2.2⟩

/-- an expression of the class keeps the state consistent -/
theorem addExprA_hofA_general_fresh {G : GLang} {c : GCfg} {root : Node} {origin : Option Node}
    (hc : c.withTypes = false)
    {s s' : AState} {e : AExpr} {cur : Option Nat} {im : Bool} {n : Nat} {name : String} {ty : Term}
    (hof : HofA e) (hh : headOfA e = .op name ty)
    (hg : GFresh s.g) (hs : SrcNoInt s.g) (hp : ParFresh s) (hcur : ∀ m, cur = some m → CurFreeA s m)
    (h : addExprA G c root origin s e cur im = .ok (s', n)) : GFresh s'.g ∧ SrcNoInt s'.g ∧ ParFresh s' := by
  have post := addExprA_hofA_post hc hof hh hg hs hp hcur h
  have hnext : s'.g.nextB = (flowHATop s.g.nextB s.g.srcNodes s.params e cur).next := post.next_eq
  have hle : s.g.nextB ≤ (allocNode s.g.nextB cur).2 := by cases cur <;> simp [allocNode]
  have hle2 : (allocNode s.g.nextB cur).2 ≤ (flowHATop s.g.nextB s.g.srcNodes s.params e cur).next := post.le
  have hsrc : s'.g.srcNodes = (flowHATop s.g.nextB s.g.srcNodes s.params e cur).memo := post.src_eq
  have hpar : s'.params = (flowHATop s.g.nextB s.g.srcNodes s.params e cur).params := post.par_eq
  have hni := post.noint
  generalize flowHATop s.g.nextB s.g.srcNodes s.params e cur = r at post hnext hle2 hsrc hpar
  have hx : (allocNode s.g.nextB cur).1 < r.next := by
    cases cur with
    | none => simp only [allocNode] at hle2 ⊢; omega
    | some m =>
      have := (hcur m rfl).free.lt
      simp only [allocNode] at hle2 ⊢; omega
  have htab : ∀ t, TabNode r.memo r.params t → t < s'.g.nextB := by
    intro t ht
    rcases post.tab_rng t ht with h' | h' | h'
    · rcases h' with ⟨p, hp', h''⟩ | ⟨p, hp', h''⟩
      · have := hg.src_lt p hp'
        omega
      · have := hp.lt p hp'
        omega
    · omega
    · have h'' : (allocNode s.g.nextB cur).2 ≤ t ∧ t < r.next := h'
      omega
  refine ⟨⟨?_, ?_, ?_⟩, ?_, ⟨?_, ?_⟩⟩
  · intro p hp'
    rw [hsrc] at hp'
    exact htab _ (Or.inl ⟨p, hp', rfl⟩)
  · intro p hp'
    have hi : s'.g.internals = s.g.internals ++ r.ints := post.ints_eq
    rw [hi, List.mem_append] at hp'
    rcases hp' with hp' | hp'
    · have := hg.int_lt p hp'
      omega
    · have := post.ints_rng p hp'
      omega
  · intro p hp'
    rcases (post.frm_iff p).1 hp' with h' | h'
    · have := hg.frm_lt p h'
      omega
    · have := post.edges_rng p h'
      omega
  · intro q hq p hp'
    exact hni q hq p.2 (Or.inl ⟨p, hp', rfl⟩)
  · intro p hp'
    rw [hpar] at hp'
    exact htab _ (Or.inr ⟨p, hp', rfl⟩)
  · intro q hq p hp'
    exact hni q hq p.2 (Or.inr ⟨p, hp', rfl⟩)

/-! ## from the empty state -/

theorem parFresh_nil (g : GState) : ParFresh { g := g, params := [] } :=
  { lt := fun _ h => (by cases h), no_int := fun _ _ _ h => (by cases h) }

/-- the graph of an expression of the class, built from the empty graph -/
theorem addExprA_hofA_empty {G : GLang} {c : GCfg} {root : Node} {origin : Option Node} (hc : c.withTypes = false)
    {s' : AState} {e : AExpr} {im : Bool} {n : Nat} {name : String} {ty : Term}
    (hof : HofA e) (hh : headOfA e = .op name ty)
    (h : addExprA G c root origin { g := {}, params := [] } e none im = .ok (s', n)) :
    n = 0 ∧ s'.g.nextB = (flowHATop 0 [] [] e none).next ∧ s'.g.srcNodes = (flowHATop 0 [] [] e none).memo ∧
    s'.params = (flowHATop 0 [] [] e none).params ∧
    s'.g.internals = (flowHATop 0 [] [] e none).ints ∧
    (∀ p, p ∈ s'.g.fd.frm ↔ p ∈ (flowHATop 0 [] [] e none).edges) := by
  obtain ⟨h1, _, h3, h4, h5, _, h7, h8, _, _⟩ := addExprA_hofA_general hc hof hh gfresh_empty srcNoInt_empty
    (parFresh_nil {}) (fun m hm => by cases hm) h
  refine ⟨h1, h3, h4, h5, by simpa using h7, ?_⟩
  intro p
  rw [h8 p]
  constructor
  · rintro (h' | h')
    · cases h'
    · exact h'
  · exact Or.inr

end Tfv.C08P
