import Tfv.Proofs.InferConstrCheck
import Tfv.Proofs.InferInstantiate
/-!
# The inference engine WITH deferred constraints (C03, type part): `applyT`, chains, `instantiate`

The constrained counterparts of `InferApply.lean` and `InferInstantiate.lean`: schemas may carry
constraints (`addConstraints` registers them and runs `fulfill`).
-/
namespace Tfv.C03C
open Tfv Tfv.C03P

/-! ## 1. `applyT` -/

theorem applyPre_soundC {L : Lang} (wf : WF L) {n : Nat} {σ σ1 : Store} {f0 f1 : Term}
    (okc : OkStoreC L σ) (hf : okTerm L σ f0 = true)
    (h : applyPre L n σ f0 = .ok (σ1, f1)) :
    StepC L σ σ1 ∧ okTerm L σ1 f1 = true ∧ ∀ ρ, Sat L ρ σ1 → den ρ f1 = den ρ f0 := by
  cases f0 with
  | app o args =>
    simp only [applyPre] at h
    injection h with h
    injection h with h1 h2
    subst h1; subst h2
    exact ⟨StepC.refl okc, hf, fun _ _ => rfl⟩
  | var fv =>
    simp only [applyPre] at h
    split at h
    · cases h
    · next σ3 hb =>
      injection h with h
      injection h with h1 h2
      subst h1; subst h2
      have sA := stepC_newVar (L := L) okc
      have sB := stepC_newVar (L := L) sA.ok
      have sAB := sA.trans sB
      have hfv := okTerm_var.mp (sAB.okTerm hf)
      have hterm : okTerm L (newVar (newVar σ).1).1 (.app FUN [.var (newVar σ).2, .var (newVar (newVar σ).1).2]) = true := by
        refine okTerm_app.mpr ⟨?_, ?_, ?_⟩
        · have := length_ge_five wf; unfold FUN; omega
        · rw [arity_fun wf]; rfl
        · refine okTermL_cons.mpr ⟨okTerm_var.mpr ?_, okTermL_cons.mpr ⟨okTerm_var.mpr ?_, okTermL_nil⟩⟩
          · simp only [snd_newVar, length_newVar]; omega
          · simp only [snd_newVar, length_newVar]; omega
      obtain ⟨s, hs⟩ := (all_soundC wf n).2.2.1 _ fv _ σ3 sAB.ok hfv hterm
        (bindPre_compound (by rw [arity_fun wf]; decide)) hb
      have sT := sAB.trans s
      refine ⟨sT, okTerm_followT s.ok.ok _ (sT.okTerm hf), fun ρ hρ => ?_⟩
      rw [den_followT hρ]

theorem applyPost_soundC {L : Lang} (wf : WF L) {n : Nat} {σ σ' : Store} {x0 f1 r : Term} {fixFlag : Bool}
    (okc : OkStoreC L σ) (hf : okTerm L σ f1 = true) (hx : okTerm L σ x0 = true)
    (h : applyPost L n σ x0 f1 fixFlag = .ok (σ', r)) :
    StepC L σ σ' ∧ okTerm L σ' r = true ∧ ∀ ρ, Sat L ρ σ' →
      ((∃ p, den ρ f1 = .app FUN [p, den ρ r] ∧ Sub L (den ρ x0) p) ∨
       (den ρ f1 = .app TOP [] ∧ r = .app TOP [])) := by
  have htop : okTerm L σ (.app TOP []) = true :=
    okTerm_base (by have := length_ge_five wf; unfold TOP; omega) (arity_top wf)
  unfold applyPost at h
  split at h
  · next o l r0 =>
    obtain ⟨ho, hlen, hargs⟩ := okTerm_app.mp hf
    split at h
    · next hfun =>
      have hfun : o = FUN := by simpa using hfun
      subst hfun
      obtain ⟨hl, hr0⟩ := okTermL_cons.mp hargs
      obtain ⟨hr0, _⟩ := okTermL_cons.mp hr0
      split at h
      · cases h
      · next σ1 hu =>
        obtain ⟨s1, hs1⟩ := (all_soundC wf n).1 σ x0 l false false σ1 okc hx hl hu
        split at h
        · obtain ⟨s2, hr, hs2⟩ := (all_soundC wf n).2.2.2.2.2.1 σ1 r0 true σ' r s1.ok (s1.okTerm hr0) h
          refine ⟨s1.trans s2, hr, fun ρ hρ => Or.inl ⟨den ρ l, ?_, hs1 rfl rfl ρ (s2.sat ρ hρ)⟩⟩
          rw [den_app, denL_cons, denL_cons, denL_nil, hs2 ρ hρ]
        · injection h with h
          injection h with h1 h2
          subst h1; subst h2
          refine ⟨s1, s1.okTerm hr0, fun ρ hρ => Or.inl ⟨den ρ l, ?_, hs1 rfl rfl ρ hρ⟩⟩
          rw [den_app, denL_cons, denL_cons, denL_nil]
    · split at h
      · next _ htop' =>
        have htop' : o = TOP := by simpa using htop'
        subst htop'
        rw [arity_top wf] at hlen
        simp at hlen
      · cases h
  · next o args _ =>
    obtain ⟨ho, hlen, hargs⟩ := okTerm_app.mp hf
    split at h
    · next htop' =>
      have htop' : o = TOP := by simpa using htop'
      subst htop'
      injection h with h
      injection h with h1 h2
      subst h1; subst h2
      rw [arity_top wf] at hlen
      refine ⟨StepC.refl okc, htop, fun ρ _ => Or.inr ⟨?_, rfl⟩⟩
      rw [den_app, List.eq_nil_of_length_eq_zero hlen, denL_nil]
    · cases h
  · cases h

theorem applyT_soundC {L : Lang} (wf : WF L) {n : Nat} {σ σ' : Store} {f x r : Term} {fixFlag : Bool}
    (okc : OkStoreC L σ) (hf : okTerm L σ f = true) (hx : okTerm L σ x = true)
    (h : applyT L n σ f x fixFlag = .ok (σ', r)) :
    StepC L σ σ' ∧ okTerm L σ' r = true ∧ ∀ ρ, Sat L ρ σ' →
      ((∃ p, den ρ f = .app FUN [p, den ρ r] ∧ Sub L (den ρ x) p) ∨
       (den ρ f = .app TOP [] ∧ r = .app TOP [])) := by
  rw [applyT_eq] at h
  split at h
  · cases h
  · next σ1 f1 hpre =>
    obtain ⟨s1, hf1, hd1⟩ := applyPre_soundC wf okc (okTerm_followT okc.ok f hf) hpre
    obtain ⟨s2, hr, hd2⟩ := applyPost_soundC wf s1.ok hf1 (s1.okTerm (okTerm_followT okc.ok x hx)) h
    refine ⟨s1.trans s2, hr, fun ρ hρ => ?_⟩
    have hρ1 := s2.sat ρ hρ
    have hρ0 := s1.sat ρ hρ1
    have e1 : den ρ f1 = den ρ f := by rw [hd1 ρ hρ1, den_followT hρ0]
    have e2 : den ρ (followT σ x) = den ρ x := den_followT hρ0 x
    have := hd2 ρ hρ
    rw [e1, e2] at this
    exact this

theorem applyAll_soundC {L : Lang} (wf : WF L) (n : Nat) (fixFlag : Bool) :
    ∀ (xs : List Term) (σ σ' : Store) (f r : Term),
    OkStoreC L σ → okTerm L σ f = true → okTermL L σ xs = true →
    applyAll L n fixFlag σ f xs = .ok (σ', r) →
    StepC L σ σ' ∧ okTerm L σ' r = true ∧
      ∀ ρ, Sat L ρ σ' → Accepts L (den ρ f) (denL ρ xs) (den ρ r)
  | [], σ, σ', f, r, okc, hf, _, h => by
    unfold applyAll at h
    injection h with h
    injection h with h1 h2
    subst h1; subst h2
    refine ⟨StepC.refl okc, hf, fun ρ _ => ?_⟩
    rw [denL_nil]; unfold Accepts; rfl
  | x :: xs, σ, σ', f, r, okc, hf, hxs, h => by
    unfold applyAll at h
    obtain ⟨hx, hxs'⟩ := okTermL_cons.mp hxs
    split at h
    · cases h
    · next σ1 r1 h1 =>
      obtain ⟨s1, hr1, hd1⟩ := applyT_soundC wf okc hf hx h1
      obtain ⟨s2, hr, hd2⟩ := applyAll_soundC wf n fixFlag xs σ1 σ' r1 r s1.ok hr1 (s1.okTermL hxs') h
      refine ⟨s1.trans s2, hr, fun ρ hρ => ?_⟩
      rw [denL_cons]
      unfold Accepts
      rcases hd1 ρ (s2.sat ρ hρ) with ⟨p, e, hsub⟩ | ⟨e1, e2⟩
      · exact Or.inl ⟨p, den ρ r1, e, hsub, hd2 ρ hρ⟩
      · refine Or.inr ⟨e1, ?_⟩
        have := hd2 ρ hρ
        rw [e2, den_app, denL_nil] at this
        exact this

/-! ## 2. fresh schema variables -/

theorem stepA_foldl_newVar {L : Lang} {α : Type} (wc : Bool) : ∀ (l : List α) (σ : Store),
    OkStoreC L σ →
    StepA L σ (l.foldl (fun σ _ => (newVar σ wc).1) σ) ∧
    (l.foldl (fun σ _ => (newVar σ wc).1) σ).vars.length = σ.vars.length + l.length
  | [], σ, okc => ⟨StepA.refl okc, rfl⟩
  | _ :: l, σ, okc => by
    have s1 := stepA_newVar (L := L) okc wc
    obtain ⟨s2, hl⟩ := stepA_foldl_newVar wc l (newVar σ wc).1 s1.ok
    refine ⟨s1.trans s2, ?_⟩
    simp only [List.foldl_cons, List.length_cons]
    rw [hl, length_newVar]; omega

theorem stepA_allocVars {L : Lang} {σ : Store} (okc : OkStoreC L σ) (nvars nwild : Nat) :
    StepA L σ (allocVars σ nvars nwild) ∧
    (allocVars σ nvars nwild).vars.length = σ.vars.length + nvars + nwild := by
  unfold allocVars
  simp only []
  obtain ⟨s1, h1⟩ := stepA_foldl_newVar (L := L) false (List.range nvars) σ okc
  obtain ⟨s2, h2⟩ := stepA_foldl_newVar (L := L) true (List.range nwild) _ s1.ok
  refine ⟨s1.trans s2, ?_⟩
  rw [h2, h1, List.length_range, List.length_range]

/-- without wildcards in the schema, allocation creates no wildcard -/
theorem noWild_allocVars {σ : Store} (nw : NoWild σ) (nvars : Nat) : NoWild (allocVars σ nvars 0) := by
  have key : ∀ (l : List Nat) (σ : Store), NoWild σ → NoWild (l.foldl (fun σ _ => (newVar σ false).1) σ) := by
    intro l
    induction l with
    | nil => intro σ h; exact h
    | cons _ l ih =>
      intro σ h
      simp only [List.foldl_cons]
      exact ih _ ((wildMono_newVar σ).noWild h)
  unfold allocVars
  simp only [List.range_zero, List.foldl_nil]
  exact key _ σ nw

/-! ## 3. registering a constraint -/

/-- `reference.instance()` / `target.instance()` follow their argument -/
def normC (σ : Store) : Constr → Constr
  | .sub r t s f => .sub (followT σ r) (followT σ t) s f
  | .elim r alts f => .elim r (alts.map (followT σ)) f

def regStore (σ : Store) (c : Constr) : Store := { σ with constrs := σ.constrs ++ [c] }

def informStore (id : Nat) (vars : List Nat) (σ : Store) : Store :=
  vars.foldl (fun σ v =>
    let k := (getVar σ v).cset
    setCset σ k (insertSorted id (getCset σ k))) σ

theorem addConstraint_eq (L : Lang) (fuel : Nat) (σ : Store) (c : Constr) :
    addConstraint L fuel σ c =
      let σa := regStore σ (normC σ c)
      let vars := varsOfTerms σa (constrTerms (normC σ c))
      if vars.any (fun v => (getVar σa v).bound.isSome) then .error (.internal "inform:assert not v.bound")
      else
        match fulfill L fuel (informStore σ.constrs.length vars σa) σ.constrs.length with
        | .error e => .error e
        | .ok (σ1, _) => .ok σ1 := by
  cases c <;> rfl

theorem okTermL_normC {L : Lang} {σ : Store} (ok : OkStore L σ) {c : Constr}
    (h : okTermL L σ (constrTerms c) = true) : okTermL L σ (constrTerms (normC σ c)) = true := by
  cases c with
  | sub r t s f =>
    rw [constrTerms_sub] at h
    obtain ⟨h1, h2⟩ := okTermL_cons.mp h
    obtain ⟨h2, _⟩ := okTermL_cons.mp h2
    unfold normC
    rw [constrTerms_sub]
    exact okTermL_cons.mpr ⟨okTerm_followT ok r h1, okTermL_single (okTerm_followT ok t h2)⟩
  | elim r alts f =>
    rw [constrTerms_elim] at h
    obtain ⟨h1, h2⟩ := okTermL_cons.mp h
    unfold normC
    rw [constrTerms_elim]
    exact okTermL_cons.mpr ⟨h1, okTermL_map_followT ok h2⟩

theorem getConstr_regStore_lt {σ : Store} {c : Constr} {d : Nat} (h : d < σ.constrs.length) :
    getConstr (regStore σ c) d = getConstr σ d := by
  unfold getConstr regStore
  simp only [List.getD_eq_getElem?_getD]
  rw [List.getElem?_append_left h]

theorem getConstr_regStore_eq (σ : Store) (c : Constr) : getConstr (regStore σ c) σ.constrs.length = c := by
  unfold getConstr regStore
  simp [List.getD_eq_getElem?_getD]

theorem stepC_regStore {L : Lang} {σ : Store} (okc : OkStoreC L σ) {c : Constr}
    (h : okTermL L σ (constrTerms c) = true) (hnf : ∀ r t s, c ≠ .sub r t s true) :
    StepC L σ (regStore σ c) ∧ (regStore σ c).constrs.length = σ.constrs.length + 1 := by
  have sc : SameCore σ (regStore σ c) := ⟨rfl, fun _ => rfl, fun _ => rfl, fun _ => rfl⟩
  have hlen : (regStore σ c).constrs.length = σ.constrs.length + 1 := by
    unfold regStore; simp
  have hle : σ.vars.length ≤ (regStore σ c).vars.length := Nat.le_refl _
  refine ⟨⟨⟨sc.okStore okc.ok, ?_, ?_⟩, hle, by omega, fun _ hρ => sc.sat hρ, fun _ hw => hw, ?_, ?_⟩, hlen⟩
  · intro x hx
    unfold regStore at hx
    simp only [List.mem_append, List.mem_singleton] at hx
    rcases hx with h1 | h1
    · exact okTermL_mono hle _ (okc.cterms x h1)
    · subst h1; exact okTermL_mono hle _ h
  · intro cs hcs d hd
    rw [hlen]
    exact Nat.lt_succ_of_lt (okc.crange cs hcs d hd)
  · intro d r t s f hd hg
    exact ⟨f, by rw [getConstr_regStore_lt hd]; exact hg⟩
  · intro _ d r t s hd hg
    rw [hlen] at hd
    by_cases e : d < σ.constrs.length
    · rw [getConstr_regStore_lt e] at hg
      exact Or.inl ⟨e, hg⟩
    · have e2 : d = σ.constrs.length := by omega
      subst e2
      rw [getConstr_regStore_eq] at hg
      exact absurd hg (hnf r t s)

theorem stepC_informStore {L : Lang} (id : Nat) : ∀ (vars : List Nat) (σ : Store),
    OkStoreC L σ → id < σ.constrs.length →
    StepC L σ (informStore id vars σ) ∧ (informStore id vars σ).constrs.length = σ.constrs.length
  | [], σ, okc, _ => ⟨StepC.refl okc, rfl⟩
  | v :: vars, σ, okc, hid => by
    have s1 : StepC L σ (setCset σ (getVar σ v).cset (insertSorted id (getCset σ (getVar σ v).cset))) :=
      stepC_setCset okc _ (fun c hc => by
        rcases mem_insertSorted hc with h1 | h1
        · rw [h1]; exact hid
        · exact okc.crange.get h1)
    obtain ⟨s2, h2⟩ := stepC_informStore id vars _ s1.ok hid
    unfold informStore
    simp only [List.foldl_cons]
    exact ⟨s1.trans s2, h2⟩

theorem addConstraint_soundC {L : Lang} (wf : WF L) {n : Nat} {σ σ' : Store} {c : Constr}
    (okc : OkStoreC L σ) (hc : okTermL L σ (constrTerms c) = true) (hnf : ∀ r t s, c ≠ .sub r t s true)
    (h : addConstraint L n σ c = .ok σ') : StepC L σ σ' := by
  rw [addConstraint_eq] at h
  simp only [] at h
  split at h
  · cases h
  · split at h
    · cases h
    · next σ1 d h1 =>
      injection h with h; subst h
      have hnf' : ∀ r t s, normC σ c ≠ .sub r t s true := by
        intro r t s e
        cases c with
        | sub r' t' s' f' =>
          unfold normC at e
          injection e with _ _ e3 e4
          subst e3; subst e4
          exact hnf r' t' s' rfl
        | elim r' a' f' => unfold normC at e; cases e
      obtain ⟨s1, hl1⟩ := stepC_regStore okc (okTermL_normC okc.ok hc) hnf'
      have hid : σ.constrs.length < (regStore σ (normC σ c)).constrs.length := by rw [hl1]; omega
      obtain ⟨s2, hl2⟩ := stepC_informStore (L := L) σ.constrs.length
        (varsOfTerms (regStore σ (normC σ c)) (constrTerms (normC σ c))) _ s1.ok hid
      have s3 := (all_soundC wf n).2.2.2.2.2.2.2.2.2.1 _ _ σ1 d s2.ok (by rw [hl2]; exact hid) h1
      exact s1.trans (s2.trans s3)

/-! ## 4. the constraints of a schema -/

/-- a schema constraint is well formed: variables below `k`, arities respected -/
def okCAstN (L : Lang) (k : Nat) : CAst → Bool
  | .sub r t _ => okTermN L k r && okTermN L k t
  | .elim r alts => okTermN L k r && okTermNL L k alts

theorem addConstraints_soundC {L : Lang} (wf : WF L) (n : Nat) (base k : Nat) :
    ∀ (cs : List CAst) (σ σ' : Store), OkStoreC L σ → base + k ≤ σ.vars.length →
    (∀ c, c ∈ cs → okCAstN L k c = true) →
    addConstraints L n base σ cs = .ok σ' → StepC L σ σ'
  | [], σ, σ', okc, _, _, h => by
    unfold addConstraints at h
    injection h with h; subst h; exact StepC.refl okc
  | c :: cs, σ, σ', okc, hb, hcs, h => by
    unfold addConstraints at h
    simp only [] at h
    split at h
    · cases h
    · next σ1 h1 =>
      have hc := hcs c List.mem_cons_self
      have tail : ∀ c', okTermL L σ (constrTerms c') = true → (∀ r t s, c' ≠ .sub r t s true) →
          addConstraint L n σ c' = .ok σ1 → StepC L σ σ' := fun c' hterms hnf h1' => by
        have s1 := addConstraint_soundC wf okc hterms hnf h1'
        exact s1.trans (addConstraints_soundC wf n base k cs σ1 σ' s1.ok (Nat.le_trans hb s1.len)
          (fun c'' hc' => hcs c'' (List.mem_cons_of_mem _ hc')) h)
      cases c with
      | sub r t s =>
        unfold okCAstN at hc
        rw [Bool.and_eq_true] at hc
        refine tail _ ?_ (fun _ _ _ e => by injection e with _ _ _ e4; cases e4) h1
        rw [constrTerms_sub]
        exact okTermL_cons.mpr ⟨okTerm_shift hb r hc.1, okTermL_single (okTerm_shift hb t hc.2)⟩
      | elim r alts =>
        unfold okCAstN at hc
        rw [Bool.and_eq_true] at hc
        refine tail _ ?_ (fun _ _ _ e => by cases e) h1
        rw [constrTerms_elim]
        exact okTermL_cons.mpr ⟨okTerm_followT okc.ok _ (okTerm_shift hb r hc.1), okTermL_shift hb alts hc.2⟩

/-! ## 5. `instantiate` -/

/-- `instantiate` = allocation of the schema variables (weak step: wildcards may appear), then a step of
the engine proper (constraints, `fix`) -/
theorem instantiate_steps {L : Lang} (wf : WF L) {n : Nat} {σ σ' : Store} {s : Schema} {f : Term}
    (okc : OkStoreC L σ)
    (hcs : ∀ c, c ∈ s.constraints → okCAstN L (s.nvars + s.nwild) c = true)
    (hbody : okTermN L (s.nvars + s.nwild) s.body = true)
    (h : instantiate L n σ s = .ok (σ', f)) :
    StepA L σ (allocVars σ s.nvars s.nwild) ∧ StepC L (allocVars σ s.nvars s.nwild) σ' ∧
    σ.vars.length + s.nvars + s.nwild ≤ σ'.vars.length ∧ okTerm L σ' f = true ∧
    ∀ ρ, Sat L ρ σ' → den ρ f = den ρ (s.body.shift σ.vars.length) := by
  unfold instantiate at h
  simp only [] at h
  split at h
  · cases h
  · next σ1 h1 =>
    obtain ⟨s0, hlen⟩ := stepA_allocVars (L := L) okc s.nvars s.nwild
    have hb : σ.vars.length + (s.nvars + s.nwild) ≤ (allocVars σ s.nvars s.nwild).vars.length := by
      rw [hlen]; omega
    have s1 := addConstraints_soundC wf n σ.vars.length (s.nvars + s.nwild) s.constraints _ σ1 s0.ok hb hcs h1
    have hbody1 : okTerm L σ1 (s.body.shift σ.vars.length) = true :=
      okTerm_shift (Nat.le_trans hb s1.len) s.body hbody
    obtain ⟨s2, hf, hd⟩ := (all_soundC wf n).2.2.2.2.2.1 σ1 _ true σ' f s1.ok
      (okTerm_spineFollow s1.ok.ok _ hbody1) h
    refine ⟨s0, s1.trans s2, ?_, hf, fun ρ hρ => ?_⟩
    · have := s1.len; have := s2.len; omega
    · exact (hd ρ hρ).trans (den_spineFollow (s2.sat ρ hρ) _)

theorem instantiate_soundC {L : Lang} (wf : WF L) {n : Nat} {σ σ' : Store} {s : Schema} {f : Term}
    (okc : OkStoreC L σ)
    (hcs : ∀ c, c ∈ s.constraints → okCAstN L (s.nvars + s.nwild) c = true)
    (hbody : okTermN L (s.nvars + s.nwild) s.body = true)
    (h : instantiate L n σ s = .ok (σ', f)) :
    StepA L σ σ' ∧ σ.vars.length + s.nvars + s.nwild ≤ σ'.vars.length ∧ okTerm L σ' f = true ∧
    ∀ ρ, Sat L ρ σ' → den ρ f = den ρ (s.body.shift σ.vars.length) := by
  obtain ⟨s0, s1, h3, h4, h5⟩ := instantiate_steps wf okc hcs hbody h
  exact ⟨s0.trans s1.toA, h3, h4, h5⟩

end Tfv.C03C
