import Tfv.Model
import Tfv.Proofs.GraphMemberTop
import Tfv.Proofs.GraphMemberExamples
/-!
# C07, membership part — `containsType` / `containsOperation` of the root are exactly the unions over its nodes

Statements only; the proofs are in `Tfv/Proofs/GraphMember*.lean`.

Vocabulary
* `visited g e inter` (`visitLeaves`): the source and operator leaves of `e` that `addExpr` actually processes when
  started in `g` with `intermediate = inter`: a source whose id has a node in `g.srcNodes`, and a shared (tagged)
  sub-expression whose key has a node in `g.sharedNodes`, are answered from the memo tables - nothing below them is
  visited; ids / keys registered on the way count for the rest of the traversal (function part first, then the argument).
  A visited leaf is `VLeaf.src id ty` or `VLeaf.op name ty inter` (`ty`: the STORED type; `inter`: the flag it was visited with).
* `leafType G lf`: the type the leaf is annotated with - `normT G.store ty` for a source, `normT G.store (outputType 1000 ty)`
  for an operator (read through the graph's store).
* `leafGate G c lf : Bool`: is the leaf's type annotated at all (`C07m_gate_src`, `C07m_gate_op` spell it out).
* `AnnCT G c M ty can tn`: "annotating a node with `ty` makes the root contain the type node `tn`", type nodes read in the
  table `M`: `withMembership ∧ lookupType M ty = some tn`, or `withMembershipSupertypes ∧ can ∧ ty` is not a variable `∧`
  `tn` is the registered node of one of the reported supertypes `supsOf G ty` (`C07m_annCT` spells it out).
* `Tracked t`: the predicate of `t` is `type`, `subtypeOf`, `containsType`, `containsOperation` or `via`.
* `Logged G c root g g'` (used in the proofs): the tracked triples of `g'` are those of `g` plus the ones a list of events
  (annotation of a node / operator triples of a node) stands for.
-/
namespace Tfv.C07
open Tfv Tfv.GraphEx

/-! ## 1. `containsOperation` -/

/-- **`containsOperation`, exactly.** After `addExpr` (any start graph, any flags): a `containsOperation` triple is in
the result iff it was there before, or its subject is the root, both `withOperators` and `withMembership` are on, and
its object is the operator of an operator leaf that was actually visited. -/
theorem C07m_containsOperation (G : GLang) (c : GCfg) (root : Node) (origin : Option Node) (g : GState) (e : TExpr)
    (cur : Option Nat) (inter : Bool) (g' : GState) (n : Nat)
    (h : addExpr G c root origin g e cur inter = .ok (g', n)) (a o : Node) :
    (a, Node.tf "containsOperation", o) ∈ g'.triples ↔ ((a, Node.tf "containsOperation", o) ∈ g.triples ∨
      (a = root ∧ c.withOperators = true ∧ c.withMembership = true ∧
        ∃ name ty i, VLeaf.op name ty i ∈ visited g e inter ∧ o = .ns name)) :=
  (addExpr_spec G c root origin e g cur inter g' n h).cO_iff a o

/-- non-vacuity: `k (f x) (f x)` with both arguments the same expression object: `f` and `x` are visited once; the
root contains `k` and `f` -/
example : visited (initGraph exG {}) exShared false =
      [.op "k" (tmFn tmB (tmFn tmB tmC)) false, .op "f" (tmFn tmA tmB) true, .src 0 tmA] ∧
    runShared.toOption.map (fun p => (p.1.triples.filter (fun t => t.1 == GraphEx.root), p.1.sharedNodes, p.1.srcNodes))
      = some ([(GraphEx.root, .tf "containsOperation", .ns "k"), (GraphEx.root, .tf "containsType", .ns "C"),
          (GraphEx.root, .tf "containsType", .ns "B"), (GraphEx.root, .tf "containsType", .ns "A"),
          (GraphEx.root, .tf "containsOperation", .ns "f")], [(1, 1)], [(0, 2)]) :=
  ⟨congrArg (·.1) exShared_visit, runShared_member⟩

/-- without `withMembership` or without `withOperators` no `containsOperation` triple is added -/
theorem C07m_containsOperation_off (G : GLang) (c : GCfg) (root : Node) (origin : Option Node) (g : GState)
    (e : TExpr) (cur : Option Nat) (inter : Bool) (g' : GState) (n : Nat)
    (h : addExpr G c root origin g e cur inter = .ok (g', n))
    (hoff : c.withMembership = false ∨ c.withOperators = false) (a o : Node)
    (hm : (a, Node.tf "containsOperation", o) ∈ g'.triples) : (a, Node.tf "containsOperation", o) ∈ g.triples :=
  (addExpr_logged h).cO_off hoff hm

example : ((addExpr exG { withOperators := false } GraphEx.root none (initGraph exG { withOperators := false })
        (.op "f" (tmFn tmA tmB)) (some 7) false).toOption.map (fun p => p.1.triples))
    = some [(.b 7, .tf "type", .ns "B"), (.b 7, .tf "subtypeOf", .ns "B"), (GraphEx.root, .tf "containsType", .ns "B"),
        (GraphEx.root, .tf "containsType", .ns "A"), (.b 7, .tf "subtypeOf", .ns "A")] := operatorsOff_triples

/-- the memo tables after `addExpr`: exactly the ids / keys the traversal registers -/
theorem C07m_memo (G : GLang) (c : GCfg) (root : Node) (origin : Option Node) (g : GState) (e : TExpr)
    (cur : Option Nat) (inter : Bool) (g' : GState) (n : Nat)
    (h : addExpr G c root origin g e cur inter = .ok (g', n)) :
    keysOf g'.srcNodes = (visitLeaves (keysOf g.srcNodes) (keysOf g.sharedNodes) e inter).2.1 ∧
    keysOf g'.sharedNodes = (visitLeaves (keysOf g.srcNodes) (keysOf g.sharedNodes) e inter).2.2 :=
  ⟨(addExpr_spec G c root origin e g cur inter g' n h).srcs, (addExpr_spec G c root origin e g cur inter g' n h).shareds⟩

/-! ## 2. `containsType` -/

/-- **`containsType`, exactly.** After `addExpr`: a `containsType` triple is in the result iff it was there before, or
its subject is the root and its object is - for some visited leaf whose type is annotated (`leafGate`) - the type
node of the leaf's type (`withMembership`) or of one of its reported canonical supertypes
(`withMembershipSupertypes`, canonical type). Type nodes are read in the type-node table of the result. -/
theorem C07m_containsType (G : GLang) (c : GCfg) (root : Node) (origin : Option Node) (g : GState) (e : TExpr)
    (cur : Option Nat) (inter : Bool) (g' : GState) (n : Nat)
    (h : addExpr G c root origin g e cur inter = .ok (g', n)) (a tn : Node) :
    (a, Node.tf "containsType", tn) ∈ g'.triples ↔ ((a, Node.tf "containsType", tn) ∈ g.triples ∨
      (a = root ∧ ∃ lf ∈ visited g e inter, leafGate G c lf = true ∧
        AnnCT G c g'.typeNodes (leafType G lf) (inCanon G (leafType G lf)) tn)) :=
  (addExpr_spec G c root origin e g cur inter g' n h).cT_iff a tn

/-- what `AnnCT` says -/
theorem C07m_annCT (G : GLang) (c : GCfg) (M : List (Term × Node)) (ty : Term) (can : Bool) (tn : Node) :
    AnnCT G c M ty can tn ↔ ((c.withMembership = true ∧ lookupType M ty = some tn) ∨
      (c.withMembershipSupertypes = true ∧ can = true ∧ ty.isApp = true ∧
        ∃ s ∈ dedupTy (langSucc G.types G.cfg G.canon (G.canon.length + 2) true ty.generalize true),
          lookupType M s.toTerm = some tn)) := Iff.rfl

/-- **every visited leaf whose type is annotated contributes**: its type is registered (node `tn`), a concept node
carries `type tn`, with `withMembership` the root contains `tn`, and with `withMembershipSupertypes` (canonical type)
the root contains the registered node of every reported supertype. -/
theorem C07m_leaf_annotated (G : GLang) (c : GCfg) (root : Node) (origin : Option Node) (g : GState) (e : TExpr)
    (cur : Option Nat) (inter : Bool) (g' : GState) (n : Nat)
    (h : addExpr G c root origin g e cur inter = .ok (g', n)) (lf : VLeaf) (hlf : lf ∈ visited g e inter)
    (hg : leafGate G c lf = true) :
    ∃ tn, lookupType g'.typeNodes (leafType G lf) = some tn ∧ (∃ k, (Node.b k, Node.tf "type", tn) ∈ g'.triples) ∧
      (c.withMembership = true → (root, Node.tf "containsType", tn) ∈ g'.triples) ∧
      (c.withMembershipSupertypes = true → inCanon G (leafType G lf) = true → (leafType G lf).isApp = true →
        ∀ s ∈ supsOf G (leafType G lf), ∃ sn, lookupType g'.typeNodes s.toTerm = some sn ∧
          (root, Node.tf "containsType", sn) ∈ g'.triples) :=
  (addExpr_spec G c root origin e g cur inter g' n h).leaf_annotated hlf hg

/-- every visited operator leaf contributes its operator (both switches on) -/
theorem C07m_leaf_operator (G : GLang) (c : GCfg) (root : Node) (origin : Option Node) (g : GState) (e : TExpr)
    (cur : Option Nat) (inter : Bool) (g' : GState) (n : Nat)
    (h : addExpr G c root origin g e cur inter = .ok (g', n)) (name : String) (ty : Term) (i : Bool)
    (hlf : VLeaf.op name ty i ∈ visited g e inter) (hO : c.withOperators = true) (hM : c.withMembership = true) :
    (root, Node.tf "containsOperation", Node.ns name) ∈ g'.triples :=
  (addExpr_spec G c root origin e g cur inter g' n h).leaf_operator hlf hO hM

/-! ## 2b. against the triples of the same result graph (any start graph) -/

/-- every `type` triple the call adds comes with the root's `containsType` triple for the same type node -/
theorem C07m_type_in_containsType (G : GLang) (c : GCfg) (root : Node) (origin : Option Node) (g : GState) (e : TExpr)
    (cur : Option Nat) (inter : Bool) (g' : GState) (n : Nat)
    (h : addExpr G c root origin g e cur inter = .ok (g', n)) (hM : c.withMembership = true) (a tn : Node)
    (hm : (a, Node.tf "type", tn) ∈ g'.triples) :
    (a, Node.tf "type", tn) ∈ g.triples ∨ (root, Node.tf "containsType", tn) ∈ g'.triples :=
  (addExpr_logged h).type_sub_cT hM hm

/-- every `subtypeOf` triple the call adds comes with the root's `containsType` triple for its object (both
membership switches on) -/
theorem C07m_subtypeOf_in_containsType (G : GLang) (c : GCfg) (root : Node) (origin : Option Node) (g : GState)
    (e : TExpr) (cur : Option Nat) (inter : Bool) (g' : GState) (n : Nat)
    (h : addExpr G c root origin g e cur inter = .ok (g', n)) (hM : c.withMembership = true)
    (hMS : c.withMembershipSupertypes = true) (a tn : Node) (hm : (a, Node.tf "subtypeOf", tn) ∈ g'.triples) :
    (a, Node.tf "subtypeOf", tn) ∈ g.triples ∨ (root, Node.tf "containsType", tn) ∈ g'.triples :=
  (addExpr_logged h).subtypeOf_sub_cT hM hMS hm

/-- **every `containsType` triple the call adds is justified**: its subject is the root, and either `withMembership`
is on and some concept node has `type tn`, or `withMembershipSupertypes` is on and `tn` is the registered node of a
reported supertype `s` of a type `ty` whose node `tn0` some concept node carries (with `withSupertypes` that node
also has `subtypeOf tn`). -/
theorem C07m_containsType_justified (G : GLang) (c : GCfg) (root : Node) (origin : Option Node) (g : GState)
    (e : TExpr) (cur : Option Nat) (inter : Bool) (g' : GState) (n : Nat)
    (h : addExpr G c root origin g e cur inter = .ok (g', n)) (a tn : Node)
    (hm : (a, Node.tf "containsType", tn) ∈ g'.triples) :
    (a, Node.tf "containsType", tn) ∈ g.triples ∨ (a = root ∧ ∃ k,
      (c.withMembership = true ∧ (Node.b k, Node.tf "type", tn) ∈ g'.triples) ∨
      (c.withMembershipSupertypes = true ∧ ∃ ty tn0 s, lookupType g'.typeNodes ty = some tn0 ∧
        (Node.b k, Node.tf "type", tn0) ∈ g'.triples ∧ s ∈ supsOf G ty ∧
        lookupType g'.typeNodes s.toTerm = some tn ∧
        (c.withSupertypes = true → (Node.b k, Node.tf "subtypeOf", tn) ∈ g'.triples))) :=
  (addExpr_logged h).cT_justified hm

/-- every `via` triple the call adds comes with the root's `containsOperation` triple -/
theorem C07m_via_in_containsOperation (G : GLang) (c : GCfg) (root : Node) (origin : Option Node) (g : GState)
    (e : TExpr) (cur : Option Nat) (inter : Bool) (g' : GState) (n : Nat)
    (h : addExpr G c root origin g e cur inter = .ok (g', n)) (hM : c.withMembership = true) (a o : Node)
    (hm : (a, Node.tf "via", o) ∈ g'.triples) :
    (a, Node.tf "via", o) ∈ g.triples ∨ (root, Node.tf "containsOperation", o) ∈ g'.triples :=
  (addExpr_logged h).via_sub_cO hM hm

/-- every `containsOperation` triple the call adds has the root as subject and is the operator of some concept node -/
theorem C07m_containsOperation_justified (G : GLang) (c : GCfg) (root : Node) (origin : Option Node) (g : GState)
    (e : TExpr) (cur : Option Nat) (inter : Bool) (g' : GState) (n : Nat)
    (h : addExpr G c root origin g e cur inter = .ok (g', n)) (a o : Node)
    (hm : (a, Node.tf "containsOperation", o) ∈ g'.triples) :
    (a, Node.tf "containsOperation", o) ∈ g.triples ∨ (a = root ∧ c.withOperators = true ∧
      c.withMembership = true ∧ ∃ k, (Node.b k, Node.tf "via", o) ∈ g'.triples) :=
  (addExpr_logged h).cO_justified hm

/-! ## 2b'. … and the justifying nodes belong to the call -/

/-- every `type` / `subtypeOf` / `via` triple the call adds is about a concept node of the call: the node it was given
(`cur = some k`) or a blank node it created (`g.nextB ≤ k < g'.nextB`) -/
theorem C07m_subject_node (G : GLang) (c : GCfg) (root : Node) (origin : Option Node) (g : GState) (e : TExpr)
    (cur : Option Nat) (inter : Bool) (g' : GState) (n : Nat)
    (h : addExpr G c root origin g e cur inter = .ok (g', n)) (a p o : Node)
    (hp : p = Node.tf "type" ∨ p = Node.tf "subtypeOf" ∨ p = Node.tf "via") (hm : (a, p, o) ∈ g'.triples) :
    (a, p, o) ∈ g.triples ∨ ∃ k, (cur = some k ∨ (g.nextB ≤ k ∧ k < g'.nextB)) ∧ a = Node.b k :=
  (addExpr_spec G c root origin e g cur inter g' n h).subject_inRange hp hm

/-- `C07m_containsType_justified` where the justifying concept node `k` is a node of the call -/
theorem C07m_containsType_justified_node (G : GLang) (c : GCfg) (root : Node) (origin : Option Node) (g : GState)
    (e : TExpr) (cur : Option Nat) (inter : Bool) (g' : GState) (n : Nat)
    (h : addExpr G c root origin g e cur inter = .ok (g', n)) (a tn : Node)
    (hm : (a, Node.tf "containsType", tn) ∈ g'.triples) :
    (a, Node.tf "containsType", tn) ∈ g.triples ∨ (a = root ∧ ∃ k, InRange g cur g' k ∧
      ((c.withMembership = true ∧ (Node.b k, Node.tf "type", tn) ∈ g'.triples) ∨
      (c.withMembershipSupertypes = true ∧ ∃ ty tn0 s, lookupType g'.typeNodes ty = some tn0 ∧
        (Node.b k, Node.tf "type", tn0) ∈ g'.triples ∧ s ∈ supsOf G ty ∧
        lookupType g'.typeNodes s.toTerm = some tn ∧
        (c.withSupertypes = true → (Node.b k, Node.tf "subtypeOf", tn) ∈ g'.triples)))) :=
  (addExpr_spec G c root origin e g cur inter g' n h).cT_justified_node hm

/-- **every added `containsType` triple is justified by an ADDED `type` triple** (and, for a supertype, with
`withSupertypes` by an added `subtypeOf` triple): start graph in which no triple is about a blank node that does not
exist yet (`FreshAbove`, e.g. the initial graph), no node given to the call. -/
theorem C07m_containsType_new (G : GLang) (c : GCfg) (root : Node) (origin : Option Node) (g : GState) (e : TExpr)
    (inter : Bool) (g' : GState) (n : Nat) (h : addExpr G c root origin g e none inter = .ok (g', n))
    (hwf : FreshAbove g) (a tn : Node) (hm : (a, Node.tf "containsType", tn) ∈ g'.triples) :
    (a, Node.tf "containsType", tn) ∈ g.triples ∨ (a = root ∧ ∃ k,
      ((c.withMembership = true ∧ (Node.b k, Node.tf "type", tn) ∈ g'.triples ∧
        (Node.b k, Node.tf "type", tn) ∉ g.triples) ∨
      (c.withMembershipSupertypes = true ∧ ∃ ty tn0 s, lookupType g'.typeNodes ty = some tn0 ∧
        (Node.b k, Node.tf "type", tn0) ∈ g'.triples ∧ (Node.b k, Node.tf "type", tn0) ∉ g.triples ∧
        s ∈ supsOf G ty ∧ lookupType g'.typeNodes s.toTerm = some tn ∧
        (c.withSupertypes = true → (Node.b k, Node.tf "subtypeOf", tn) ∈ g'.triples ∧
          (Node.b k, Node.tf "subtypeOf", tn) ∉ g.triples)))) :=
  (addExpr_spec G c root origin e g none inter g' n h).cT_justified_new hwf hm

/-- every added `containsOperation` triple is justified by an ADDED `via` triple (same frame condition) -/
theorem C07m_containsOperation_new (G : GLang) (c : GCfg) (root : Node) (origin : Option Node) (g : GState)
    (e : TExpr) (inter : Bool) (g' : GState) (n : Nat) (h : addExpr G c root origin g e none inter = .ok (g', n))
    (hwf : FreshAbove g) (a o : Node) (hm : (a, Node.tf "containsOperation", o) ∈ g'.triples) :
    (a, Node.tf "containsOperation", o) ∈ g.triples ∨ (a = root ∧ c.withOperators = true ∧
      c.withMembership = true ∧ ∃ k, (Node.b k, Node.tf "via", o) ∈ g'.triples ∧
        (Node.b k, Node.tf "via", o) ∉ g.triples) :=
  (addExpr_spec G c root origin e g none inter g' n h).cO_justified_new hwf hm

/-- the initial graph satisfies the frame condition -/
theorem C07m_initGraph_freshAbove (G : GLang) (c : GCfg) : FreshAbove (initGraph G c) := initGraph_freshAbove G c

/-- non-vacuity: `run1` is a call without given node from the initial graph -/
example : FreshAbove (initGraph exG {}) ∧
    (addExpr exG {} GraphEx.root none (initGraph exG {}) ex1 none false).toOption.map (·.2) = some 0 :=
  ⟨initGraph_freshAbove exG {}, by
    have := congrArg (Option.map (fun p => p.2.2.2)) run1_triples
    simpa [run1, Option.map_map, Function.comp_def] using this⟩

/-! ## 2c. the graph of an expression, from a start graph without tracked triples (e.g. `initGraph`) -/

/-- **`containsType` = ⋃ over the concept nodes of (`type` ∪ `subtypeOf`)** - `withMembership`,
`withMembershipSupertypes`, `withSupertypes` on (the defaults). -/
theorem C07m_containsType_union (G : GLang) (c : GCfg) (root : Node) (origin : Option Node) (g : GState) (e : TExpr)
    (cur : Option Nat) (inter : Bool) (g' : GState) (n : Nat)
    (h : addExpr G c root origin g e cur inter = .ok (g', n)) (hg : ∀ t ∈ g.triples, ¬ Tracked t)
    (hM : c.withMembership = true) (hMS : c.withMembershipSupertypes = true) (hS : c.withSupertypes = true)
    (tn : Node) :
    (root, Node.tf "containsType", tn) ∈ g'.triples ↔
      ∃ k, (Node.b k, Node.tf "type", tn) ∈ g'.triples ∨ (Node.b k, Node.tf "subtypeOf", tn) ∈ g'.triples :=
  (addExpr_logged h).cT_union hg hM hMS hS tn

/-- the initial graph has no triples -/
theorem C07m_initGraph_untracked (G : GLang) (c : GCfg) : ∀ t ∈ (initGraph G c).triples, ¬ Tracked t :=
  initGraph_untracked G c

example : run1.toOption.map (fun p => p.1.triples)
    = some [(.b 0, .tf "via", .ns "f"), (GraphEx.root, .tf "containsOperation", .ns "f"),
      (.b 0, .tf "type", .ns "B"), (.b 0, .tf "subtypeOf", .ns "B"), (GraphEx.root, .tf "containsType", .ns "B"),
      (GraphEx.root, .tf "containsType", .ns "A"), (.b 0, .tf "subtypeOf", .ns "A"),
      (.b 1, .tf "type", .ns "A"), (.b 1, .tf "subtypeOf", .ns "A")] := by
  have := congrArg (Option.map (·.1)) run1_triples
  simpa [Option.map_map, Function.comp_def] using this

/-- `withMembership` on, `withMembershipSupertypes` off: **`containsType` = ⋃ `type`** -/
theorem C07m_containsType_union_types (G : GLang) (c : GCfg) (root : Node) (origin : Option Node) (g : GState)
    (e : TExpr) (cur : Option Nat) (inter : Bool) (g' : GState) (n : Nat)
    (h : addExpr G c root origin g e cur inter = .ok (g', n)) (hg : ∀ t ∈ g.triples, ¬ Tracked t)
    (hM : c.withMembership = true) (hMS : c.withMembershipSupertypes = false) (tn : Node) :
    (root, Node.tf "containsType", tn) ∈ g'.triples ↔ ∃ k, (Node.b k, Node.tf "type", tn) ∈ g'.triples :=
  (addExpr_logged h).cT_union_types hg hM hMS tn

example : ((addExpr exG { withMembershipSupertypes := false } GraphEx.root none
        (initGraph exG { withMembershipSupertypes := false }) (.op "f" (tmFn tmA tmB)) (some 7) false).toOption.map
      (fun p => p.1.triples))
    = some [(.b 7, .tf "via", .ns "f"), (GraphEx.root, .tf "containsOperation", .ns "f"), (.b 7, .tf "type", .ns "B"),
        (.b 7, .tf "subtypeOf", .ns "B"), (GraphEx.root, .tf "containsType", .ns "B"),
        (.b 7, .tf "subtypeOf", .ns "A")] := membershipSupOff_triples

/-- `withMembership` on: **`containsOperation` = ⋃ `via`** -/
theorem C07m_containsOperation_union (G : GLang) (c : GCfg) (root : Node) (origin : Option Node) (g : GState)
    (e : TExpr) (cur : Option Nat) (inter : Bool) (g' : GState) (n : Nat)
    (h : addExpr G c root origin g e cur inter = .ok (g', n)) (hg : ∀ t ∈ g.triples, ¬ Tracked t)
    (hM : c.withMembership = true) (o : Node) :
    (root, Node.tf "containsOperation", o) ∈ g'.triples ↔ ∃ k, (Node.b k, Node.tf "via", o) ∈ g'.triples :=
  (addExpr_logged h).cO_union hg hM o

/-! ## 3. the switches -/

/-- a visited source is annotated iff `withTypes` and (its type, read through the store, is canonical or
`withNoncanonicalTypes`) -/
theorem C07m_gate_src (G : GLang) (c : GCfg) (id : Nat) (ty : Term) :
    leafGate G c (.src id ty) = (c.withTypes && (inCanon G (normT G.store ty) || c.withNoncanonicalTypes)) := rfl

/-- a visited operator is annotated iff `withTypes`, (`withNoncanonicalTypes` or its output type, read through the
store, is canonical) and (`withIntermediateTypes` or it was not visited as an intermediate node) -/
theorem C07m_gate_op (G : GLang) (c : GCfg) (name : String) (ty : Term) (inter : Bool) :
    leafGate G c (.op name ty inter) = (c.withTypes &&
      (c.withNoncanonicalTypes || inCanon G (normT G.store (outputType 1000 ty))) &&
      (c.withIntermediateTypes || !inter)) := rfl

/-- **which visited leaves contribute at all** (exact): a visited leaf whose type is annotated contributes some
`containsType` triple iff `withMembership` is on, or `withMembershipSupertypes` is on and its type is canonical with
at least one reported supertype. (A visited leaf whose type is not annotated - `leafGate = false` - contributes
none, by `C07m_containsType`.) -/
theorem C07m_leaf_contributes_iff (G : GLang) (c : GCfg) (root : Node) (origin : Option Node) (g : GState) (e : TExpr)
    (cur : Option Nat) (inter : Bool) (g' : GState) (n : Nat)
    (h : addExpr G c root origin g e cur inter = .ok (g', n)) (lf : VLeaf) (hlf : lf ∈ visited g e inter)
    (hg : leafGate G c lf = true) :
    (∃ tn, AnnCT G c g'.typeNodes (leafType G lf) (inCanon G (leafType G lf)) tn) ↔
      (c.withMembership = true ∨ (c.withMembershipSupertypes = true ∧ inCanon G (leafType G lf) = true ∧
        supsOf G (leafType G lf) ≠ [])) :=
  (addExpr_spec G c root origin e g cur inter g' n h).leaf_contributes_iff hlf hg

/-- `withTypes` off: no `containsType` triple is added -/
theorem C07m_containsType_withTypes_off (G : GLang) (c : GCfg) (root : Node) (origin : Option Node) (g : GState)
    (e : TExpr) (cur : Option Nat) (inter : Bool) (g' : GState) (n : Nat)
    (h : addExpr G c root origin g e cur inter = .ok (g', n)) (hT : c.withTypes = false) (a tn : Node)
    (hm : (a, Node.tf "containsType", tn) ∈ g'.triples) : (a, Node.tf "containsType", tn) ∈ g.triples :=
  (addExpr_spec G c root origin e g cur inter g' n h).cT_withTypes_off hT hm

/-- `withMembership` and `withMembershipSupertypes` both off: no `containsType` triple is added -/
theorem C07m_containsType_off (G : GLang) (c : GCfg) (root : Node) (origin : Option Node) (g : GState) (e : TExpr)
    (cur : Option Nat) (inter : Bool) (g' : GState) (n : Nat)
    (h : addExpr G c root origin g e cur inter = .ok (g', n)) (hM : c.withMembership = false)
    (hMS : c.withMembershipSupertypes = false) (a tn : Node) (hm : (a, Node.tf "containsType", tn) ∈ g'.triples) :
    (a, Node.tf "containsType", tn) ∈ g.triples :=
  (addExpr_logged h).cT_off hM hMS hm

/-- **`withMembership` alone does NOT switch `containsType` off** (model oddity, same in graph.py): with
`withMembership := false` and the other switches at their defaults, the operator leaf `f : A → B` gives the root no
`containsType B` (the node's own type) but `containsType A` (its supertype) - so
`C07m_containsType_off` needs both switches, and `containsType ⊉ ⋃ type` in this configuration. -/
theorem C07m_membership_off_counterexample :
    ((addExpr exG { withMembership := false } GraphEx.root none (initGraph exG { withMembership := false })
        (.op "f" (tmFn tmA tmB)) (some 7) false).toOption.map (fun p => p.1.triples))
    = some [(.b 7, .tf "via", .ns "f"), (.b 7, .tf "type", .ns "B"), (.b 7, .tf "subtypeOf", .ns "B"),
        (GraphEx.root, .tf "containsType", .ns "A"), (.b 7, .tf "subtypeOf", .ns "A")] := membershipOff_triples

/-- `withIntermediateTypes` off: an operator visited as intermediate node is not annotated -/
example : ((addExpr exG { withIntermediateTypes := false } GraphEx.root none
        (initGraph exG { withIntermediateTypes := false }) (.op "f" (tmFn tmA tmB)) (some 7) true).toOption.map
      (fun p => p.1.triples))
    = some [(.b 7, .tf "via", .ns "f"), (GraphEx.root, .tf "containsOperation", .ns "f")] := intermediateOff_triples

/-- `withNoncanonicalTypes` off: an operator with a non-canonical output type is not annotated; on (default): the
root contains the blank type node -/
example : ((addExpr exG { withNoncanonicalTypes := false } GraphEx.root none
        (initGraph exG { withNoncanonicalTypes := false }) (.op "u" (tmFn tmA (tmF (tmF tmA)))) (some 7) false).toOption.map
      (fun p => p.1.triples))
    = some [(.b 7, .tf "via", .ns "u"), (GraphEx.root, .tf "containsOperation", .ns "u")] ∧
    ((addExpr exG {} GraphEx.root none (initGraph exG {}) (.op "u" (tmFn tmA (tmF (tmF tmA)))) (some 7) false).toOption.map
      (fun p => p.1.triples.filter (fun t => t.1 == GraphEx.root || t.2.1 == Node.tf "type")))
    = some [(GraphEx.root, .tf "containsOperation", .ns "u"), (.b 7, .tf "type", .b 0),
        (GraphEx.root, .tf "containsType", .b 0)] :=
  ⟨noncanonicalOff_triples, noncanonicalOn_member⟩

/-- **`withIntermediateTypes` off: the first visit of a shared expression object decides** (model oddity, inherent in
the memoisation of `add_expr`): `g c` alone leaves `c`'s type `B` out of the root's `containsType` (`c` is first visited as an
argument); if the same object `c` was added on its own before, `B` is in. `visited` records the flag of the first visit. -/
theorem C07m_intermediate_first_visit :
    (addExpr exG cInter GraphEx.root none (initGraph exG cInter) exGC none false).toOption.map (fun p =>
      p.1.triples.filter (fun t => t.2.1 == Node.tf "containsType"))
      = some [(GraphEx.root, .tf "containsType", .ns "C")] ∧
    ((addExpr exG cInter GraphEx.root none (initGraph exG cInter) shC none false).toOption.bind (fun p =>
      (addExpr exG cInter GraphEx.root none p.1 exGC none false).toOption)).map (fun p =>
        p.1.triples.filter (fun t => t.2.1 == Node.tf "containsType"))
      = some [(GraphEx.root, .tf "containsType", .ns "B"), (GraphEx.root, .tf "containsType", .ns "C")] :=
  ⟨interFirst_member, interSecond_member⟩

/-! ## 4. workflows -/

/-- **In the transformation graph of a workflow** (root `workflow`; `withMembership`, `withMembershipSupertypes`,
`withSupertypes` on): the root contains a type node iff some concept node has it as `type` or as `subtypeOf`. -/
theorem C07m_workflow_containsType (P : PLang) (G : GLang) (ops : List OperatorDecl) (c : GCfg) (passthrough : Bool)
    (w : Wf) (g : GState) (out : Nat) (m : List (Nat × Nat))
    (h : addWorkflow P G ops c passthrough w = .ok (g, out, m)) (hM : c.withMembership = true)
    (hMS : c.withMembershipSupertypes = true) (hS : c.withSupertypes = true) (tn : Node) :
    (Node.res "workflow", Node.tf "containsType", tn) ∈ g.triples ↔
      ∃ k, (Node.b k, Node.tf "type", tn) ∈ g.triples ∨ (Node.b k, Node.tf "subtypeOf", tn) ∈ g.triples :=
  (addWorkflow_logged P G ops c passthrough w g out m h).cT_union (initGraph_untracked G c) hM hMS hS tn

/-- … with `withMembershipSupertypes` off: iff some concept node has it as `type` -/
theorem C07m_workflow_containsType_types (P : PLang) (G : GLang) (ops : List OperatorDecl) (c : GCfg)
    (passthrough : Bool) (w : Wf) (g : GState) (out : Nat) (m : List (Nat × Nat))
    (h : addWorkflow P G ops c passthrough w = .ok (g, out, m)) (hM : c.withMembership = true)
    (hMS : c.withMembershipSupertypes = false) (tn : Node) :
    (Node.res "workflow", Node.tf "containsType", tn) ∈ g.triples ↔
      ∃ k, (Node.b k, Node.tf "type", tn) ∈ g.triples :=
  (addWorkflow_logged P G ops c passthrough w g out m h).cT_union_types (initGraph_untracked G c) hM hMS tn

/-- **… and the root contains an operator iff some concept node is `via` it** (`withMembership` on). -/
theorem C07m_workflow_containsOperation (P : PLang) (G : GLang) (ops : List OperatorDecl) (c : GCfg)
    (passthrough : Bool) (w : Wf) (g : GState) (out : Nat) (m : List (Nat × Nat))
    (h : addWorkflow P G ops c passthrough w = .ok (g, out, m)) (hM : c.withMembership = true) (o : Node) :
    (Node.res "workflow", Node.tf "containsOperation", o) ∈ g.triples ↔
      ∃ k, (Node.b k, Node.tf "via", o) ∈ g.triples :=
  (addWorkflow_logged P G ops c passthrough w g out m h).cO_union (initGraph_untracked G c) hM o

/-- in the graph of a workflow, membership triples have the root as subject; without the switches there are none -/
theorem C07m_workflow_switches (P : PLang) (G : GLang) (ops : List OperatorDecl) (c : GCfg)
    (passthrough : Bool) (w : Wf) (g : GState) (out : Nat) (m : List (Nat × Nat))
    (h : addWorkflow P G ops c passthrough w = .ok (g, out, m)) (a o : Node) :
    ((a, Node.tf "containsType", o) ∈ g.triples →
      a = Node.res "workflow" ∧ (c.withMembership = true ∨ c.withMembershipSupertypes = true)) ∧
    ((a, Node.tf "containsOperation", o) ∈ g.triples →
      a = Node.res "workflow" ∧ c.withMembership = true ∧ c.withOperators = true) :=
  addWorkflow_member_switches P G ops c passthrough w g out m h a o

-- the parser does not reduce in the kernel; the hypothesis is checked by evaluation (with and without passthrough)
#guard ((addWorkflow wP exG wops {} true wf1).toOption.map (fun p =>
    p.1.triples.filter (fun t => t.1 == Node.res "workflow" && (t.2.1 == Node.tf "containsType" || t.2.1 == Node.tf "containsOperation"))))
  == some [(.res "workflow", .tf "containsType", .ns "A"), (.res "workflow", .tf "containsOperation", .ns "f"),
    (.res "workflow", .tf "containsType", .ns "B"), (.res "workflow", .tf "containsOperation", .ns "g"),
    (.res "workflow", .tf "containsType", .ns "C")]
#guard ((addWorkflow wP exG wops {} false wf1).toOption.map (fun p =>
    (p.1.triples.filter (fun t => t.2.1 == Node.tf "containsType")).length)) == some 3

end Tfv.C07
