import Tfv.Spec.WellTyped
import Tfv.Proofs.ParseInv
import Tfv.Proofs.ParseTypeOk
import Tfv.Proofs.InferInstantiate
import Tfv.Proofs.InferCounter
/-!
# Every expression the typed builder makes is well typed at every application node (C04)

The four operations of `typedBuilder` satisfy the premises of the generic invariant lemma of
`ParseInv.lean` with the store invariant `GoodStore` and the predicate `TypedIn`; hence so does
everything `parse_expr` returns. `Expr.fix()` and `Expr.__call__` preserve the predicate.
-/
namespace Tfv.C04P
open Tfv Tfv.C03P Tfv.ParseInv

/-! ## 1. the predicate along sound store steps -/

theorem okExpr_mono {L : Lang} {σ σ' : Store} (h : σ.vars.length ≤ σ'.vars.length) :
    ∀ e, okExpr L σ e = true → okExpr L σ' e = true
  | .src _ _ t, he => by unfold okExpr at he ⊢; exact okTerm_mono h t he
  | .op _ t, he => by unfold okExpr at he ⊢; exact okTerm_mono h t he
  | .app f x t, he => by
    unfold okExpr at he ⊢
    simp only [Bool.and_eq_true] at he ⊢
    exact ⟨⟨okExpr_mono h f he.1.1, okExpr_mono h x he.1.2⟩, okTerm_mono h t he.2⟩
  | .shared _ e, he => by unfold okExpr at he ⊢; exact okExpr_mono h e he

theorem okExpr_ty {L : Lang} {σ : Store} : ∀ e, okExpr L σ e = true → okTerm L σ e.ty = true
  | .src _ _ t, he => by unfold okExpr at he; exact he
  | .op _ t, he => by unfold okExpr at he; exact he
  | .app f x t, he => by
    unfold okExpr at he
    simp only [Bool.and_eq_true] at he
    exact he.2
  | .shared _ e, he => by unfold okExpr at he; exact okExpr_ty e he

theorem _root_.Tfv.TypedIn.mono {L : Lang} {σ σ' : Store} {e : TExpr} (s : Step L σ σ') (h : TypedIn L σ e) :
    TypedIn L σ' e :=
  ⟨okExpr_mono s.len e h.ok, fun ρ hρ => h.wt ρ (s.sat ρ hρ)⟩

theorem _root_.Tfv.TypedIn.ty {L : Lang} {σ : Store} {e : TExpr} (h : TypedIn L σ e) : okTerm L σ e.ty = true :=
  okExpr_ty e h.ok

theorem wellTyped_sub {L : Lang} {ρ : Val} {a e : TExpr} (hs : SubExpr a e) :
    WellTyped L ρ e → WellTyped L ρ a := by
  induction hs with
  | refl => exact id
  | fn _ ih => intro h; unfold WellTyped at h; exact ih h.1
  | arg _ ih => intro h; unfold WellTyped at h; exact ih h.2.1
  | shared _ ih => intro h; unfold WellTyped at h; exact ih h

/-- the specification unfolded at an arbitrary application node of the tree -/
theorem every_node {L : Lang} {σ : Store} {e f x : TExpr} {t : Term} (h : TypedIn L σ e)
    (hs : SubExpr (.app f x t) e) {ρ : Val} (hρ : Sat L ρ σ) :
    (∃ p, den ρ f.ty = .app FUN [p, den ρ t] ∧ Sub L (den ρ x.ty) p) ∨
    (den ρ f.ty = .app TOP [] ∧ den ρ t = .app TOP []) := by
  have hw := wellTyped_sub hs (h.wt ρ hρ)
  unfold WellTyped at hw
  exact hw.2.2

/-- a step between builder states is a sound step between their stores -/
def XStep (L : Lang) (s s' : XState) : Prop := Step L s.store s'.store

theorem typedIn_src {L : Lang} {σ : Store} {i : Nat} {l : Option String} {t : Term}
    (h : okTerm L σ t = true) : TypedIn L σ (.src i l t) :=
  ⟨by unfold okExpr; exact h, fun _ _ => by unfold WellTyped; trivial⟩

theorem typedIn_op {L : Lang} {σ : Store} {n : String} {t : Term}
    (h : okTerm L σ t = true) : TypedIn L σ (.op n t) :=
  ⟨by unfold okExpr; exact h, fun _ _ => by unfold WellTyped; trivial⟩

/-- a shared expression object is transparent for typing -/
theorem typedIn_shared {L : Lang} {σ : Store} {k : Nat} {e : TExpr} :
    TypedIn L σ (.shared k e) ↔ TypedIn L σ e :=
  ⟨fun h => ⟨by have := h.ok; unfold okExpr at this; exact this,
             fun ρ hρ => by have := h.wt ρ hρ; unfold WellTyped at this; exact this⟩,
   fun h => ⟨by unfold okExpr; exact h.ok, fun ρ hρ => by unfold WellTyped; exact h.wt ρ hρ⟩⟩

theorem step_of_parts {L : Lang} {σ σ' : Store} (h1 : OkStore L σ') (h2 : NoConstraints σ')
    (h3 : σ.vars.length ≤ σ'.vars.length) (h4 : ∀ ρ, Sat L ρ σ' → Sat L ρ σ) : Step L σ σ' :=
  ⟨h1, h2, h3, h4⟩

/-! ## 2. the four builder operations -/

theorem mkSourceT_eq (s : XState) :
    mkSourceT s = ({ store := (newVar s.store true).1, nsrc := s.nsrc + 1 },
      .src s.nsrc none (.var s.store.vars.length)) := rfl

theorem mkSource_typed {L : Lang} (s : XState) (g : GoodStore L s.store) :
    GoodStore L (mkSourceT s).1.store ∧ Step L s.store (mkSourceT s).1.store ∧
    TypedIn L (mkSourceT s).1.store (mkSourceT s).2 := by
  rw [mkSourceT_eq]
  have st := step_newVar (L := L) g.1 g.2 true
  refine ⟨⟨st.ok, st.nc⟩, st, typedIn_src (okTerm_var.mpr ?_)⟩
  show s.store.vars.length < (newVar s.store true).1.vars.length
  rw [length_newVar]; omega

/-- the declaration an operator token resolves to -/
theorem mkOpT_decl {L : Lang} {ops : List OperatorDecl} {s s' : XState} {name : String} {e : TExpr}
    (h : mkOpT L ops s name = .ok (s', e)) :
    ∃ d σ t, d ∈ ops ∧ d.name = name ∧ instantiate L exprFuel s.store d.schema = .ok (σ, t) ∧
      s'.store = σ ∧ (e = .op name t ∨ e = .src s.nsrc (some name) t) := by
  unfold mkOpT at h
  split at h
  · cases h
  · rename_i d hd
    split at h
    · cases h
    · rename_i σ t hi
      have hmem := List.mem_of_find?_eq_some hd
      have hname : d.name = name := by simpa using List.find?_some hd
      split at h
      · cases h; exact ⟨d, σ, t, hmem, hname, hi, rfl, Or.inl rfl⟩
      · cases h; exact ⟨d, σ, t, hmem, hname, hi, rfl, Or.inr rfl⟩

theorem mkOp_typed {L : Lang} (wf : WF L) {ops : List OperatorDecl} (hops : OpsOk L ops)
    {s s' : XState} {name : String} {e : TExpr} (g : GoodStore L s.store)
    (h : mkOpT L ops s name = .ok (s', e)) :
    GoodStore L s'.store ∧ Step L s.store s'.store ∧ TypedIn L s'.store e := by
  obtain ⟨d, σ, t, hmem, _, hi, hs, he⟩ := mkOpT_decl h
  obtain ⟨h1, h2, h3, _, h5, h6⟩ := instantiate_sound wf g.1 g.2 (hops d hmem).1 (hops d hmem).2 hi
  rw [hs]
  refine ⟨⟨h1, h2⟩, step_of_parts h1 h2 (by omega) (fun ρ hρ => (h6 ρ hρ).1), ?_⟩
  rcases he with rfl | rfl
  · exact typedIn_op h5
  · exact typedIn_src h5

theorem mkApp_typed {L : Lang} (wf : WF L) {fixFlag : Bool} {s s' : XState} {f x e : TExpr}
    (g : GoodStore L s.store) (hf : TypedIn L s.store f) (hx : TypedIn L s.store x)
    (h : mkAppT L fixFlag s f x = .ok (s', e)) :
    GoodStore L s'.store ∧ Step L s.store s'.store ∧ TypedIn L s'.store e := by
  unfold mkAppT at h
  split at h
  · cases h
  · rename_i σ t ha
    cases h
    obtain ⟨h1, h2, h3, _, h5, h6⟩ := apply_sound wf g.1 g.2 hf.ty hx.ty ha
    have st : Step L s.store σ := step_of_parts h1 h2 h3 (fun ρ hρ => (h6 ρ hρ).1)
    refine ⟨⟨h1, h2⟩, st, ?_, fun ρ hρ => ?_⟩
    · unfold okExpr
      simp only [Bool.and_eq_true]
      exact ⟨⟨(hf.mono st).ok, (hx.mono st).ok⟩, h5⟩
    · unfold WellTyped
      refine ⟨(hf.mono st).wt ρ hρ, (hx.mono st).wt ρ hρ, ?_⟩
      rcases (h6 ρ hρ).2 with hfun | ⟨htop, hr⟩
      · exact Or.inl hfun
      · exact Or.inr ⟨htop, by rw [hr, den_app, denL_nil]⟩

/-- the tree the annotation leaves on the stack -/
def annotated (previous : TExpr) (t : Term) (prevDash : Bool) : TExpr :=
  if prevDash && previous.isSource then previous.setTy t else previous

theorem annotateT_eq (L : Lang) (s : XState) (previous : TExpr) (t : Term) (nfresh : Nat) (prevDash : Bool) :
    annotateT L s previous t nfresh prevDash =
      match unify L exprFuel (allocVars s.store nfresh 0) (annotated previous t prevDash).ty t true false false with
      | .error _ => .error .typeAnnotation
      | .ok σ1 => .ok ({ s with store := σ1 }, annotated previous t prevDash) := rfl

theorem typedIn_annotated {L : Lang} {σ : Store} {previous : TExpr} {t : Term} {prevDash : Bool}
    (hp : TypedIn L σ previous) (ht : okTerm L σ t = true) : TypedIn L σ (annotated previous t prevDash) := by
  unfold annotated
  split
  · rename_i hc
    simp only [Bool.and_eq_true] at hc
    cases previous with
    | src i l t0 => exact typedIn_src ht
    | op n t0 => simp [TExpr.isSource] at hc
    | app f x t0 => simp [TExpr.isSource] at hc
    | shared k e0 => simp [TExpr.isSource] at hc
  · exact hp

/-- `: T`: the state stays good, the annotated tree is typed in the new store, and its type is a
subtype of the annotation under every solution of the new store -/
theorem annotate_typed {L : Lang} (wf : WF L) {s s' : XState} {previous e : TExpr} {t : Term}
    {nfresh : Nat} {prevDash : Bool} (g : GoodStore L s.store) (hp : TypedIn L s.store previous)
    (ht : okTerm L (allocVars s.store nfresh 0) t = true)
    (h : annotateT L s previous t nfresh prevDash = .ok (s', e)) :
    GoodStore L s'.store ∧ Step L s.store s'.store ∧ TypedIn L s'.store e ∧
    e = annotated previous t prevDash ∧
    ∀ ρ, Sat L ρ s'.store → Sub L (den ρ e.ty) (den ρ t) := by
  rw [annotateT_eq] at h
  split at h
  · cases h
  · rename_i σ1 hu
    cases h
    obtain ⟨s0, _⟩ := step_allocVars (L := L) g.1 g.2 nfresh 0
    have hp' := typedIn_annotated (prevDash := prevDash) (hp.mono s0) ht
    obtain ⟨h1, h2, h3, _, h5⟩ := unify_sound_partial wf rfl s0.ok s0.nc hp'.ty ht hu
    have s1 : Step L (allocVars s.store nfresh 0) σ1 := step_of_parts h1 h2 h3 (fun ρ hρ => (h5 ρ hρ).1)
    exact ⟨⟨h1, h2⟩, s0.trans s1, hp'.mono s1, rfl, fun ρ hρ => by simpa using (h5 ρ hρ).2⟩

theorem length_allocVars (σ : Store) (a b : Nat) : (allocVars σ a b).vars.length = σ.vars.length + a + b := by
  have key : ∀ {α : Type} (wc : Bool) (l : List α) (σ : Store),
      (l.foldl (fun σ _ => (newVar σ wc).1) σ).vars.length = σ.vars.length + l.length := by
    intro α wc l
    induction l with
    | nil => intro σ; rfl
    | cons x l ih =>
      intro σ
      simp only [List.foldl_cons, List.length_cons]
      rw [ih, length_newVar]; omega
  unfold allocVars
  simp only []
  rw [key, key, List.length_range, List.length_range]

/-- the typed builder satisfies the premises of the generic invariant lemma -/
theorem typedBuilder_inv {P : PLang} (wf : WF P.types) (ha : AliasesOk P) {ops : List OperatorDecl}
    (hops : OpsOk P.types ops) (fixFlag : Bool) :
    BuilderInv P (typedBuilder P.types ops fixFlag) (fun s => GoodStore P.types s.store)
      (fun s e => TypedIn P.types s.store e) (XStep P.types) where
  mono := fun _ _ _ hs hq => hq.mono hs
  mkSource := fun s g => mkSource_typed s g
  mkOp := fun _ _ _ _ g h => mkOp_typed wf hops g h
  mkApp := fun _ _ _ _ _ g hf hx h => mkApp_typed wf g hf hx h
  annotate := fun s prev t nfresh dash s' e toks toks' g hp hty h => by
    have hok := parseTypeLoop_init_ok wf ha hty
    have ht : okTerm P.types (allocVars s.store nfresh 0) t = true :=
      okTerm_of_okTermN (by rw [length_allocVars]; exact Nat.le_refl _) t hok
    obtain ⟨h1, h2, h3, _⟩ := annotate_typed wf g hp ht h
    exact ⟨h1, h2, h3⟩

/-! ## 3. the parser -/

theorem mkInputs_typed {L : Lang} : ∀ (n : Nat) (s s' : XState) (es : List TExpr),
    GoodStore L s.store → mkInputs n s = (s', es) →
    GoodStore L s'.store ∧ Step L s.store s'.store ∧ ∀ e ∈ es, TypedIn L s'.store e
  | 0, s, s', es, g, h => by
    unfold mkInputs at h
    cases h
    exact ⟨g, Step.refl g.1 g.2, fun _ he => by cases he⟩
  | n+1, s, s', es, g, h => by
    obtain ⟨g1, st1, t1⟩ := mkSource_typed (L := L) s g
    have e : mkInputs (n+1) s = ((mkInputs n (mkSourceT s).1).1, (mkSourceT s).2 :: (mkInputs n (mkSourceT s).1).2) := rfl
    rw [e] at h
    cases h
    obtain ⟨g2, st2, t2⟩ := mkInputs_typed n (mkSourceT s).1 _ _ g1 rfl
    refine ⟨g2, st1.trans st2, fun x hx => ?_⟩
    rcases List.mem_cons.mp hx with rfl | hx
    · exact t1.mono st2
    · exact t2 x hx

theorem empty_good (L : Lang) : GoodStore L {} := ⟨empty_ok L, empty_nc⟩

/-- main theorem: what the parser returns is typed in the final store -/
theorem parse_nodes {P : PLang} (wf : WF P.types) (ha : AliasesOk P) {ops : List OperatorDecl}
    (hops : OpsOk P.types ops) {fixFlag : Bool} {inputs : List TExpr} {s0 s : XState}
    {toks : List String} {e : TExpr} (g : GoodStore P.types s0.store)
    (hin : ∀ x ∈ inputs, TypedIn P.types s0.store x)
    (h : parseExprToks P (typedBuilder P.types ops fixFlag) inputs s0 toks = .ok (s, e)) :
    GoodStore P.types s.store ∧ (∀ x ∈ inputs, TypedIn P.types s.store x) ∧ TypedIn P.types s.store e :=
  parseExprToks_inv (typedBuilder_inv wf ha hops fixFlag) g hin h

/-- the annotation terms the parser hands to the builder are well formed in the store after allocation -/
theorem annotation_term_ok {P : PLang} (wf : WF P.types) (ha : AliasesOk P) {σ : Store} {toks rest : List String}
    {t : Term} {nfresh : Nat} (h : parseTypeLoop P false σ.vars.length {} toks = .ok (t, nfresh, rest)) :
    okTerm P.types (allocVars σ nfresh 0) t = true :=
  okTerm_of_okTermN (by rw [length_allocVars]; exact Nat.le_refl _) t (parseTypeLoop_init_ok wf ha h)

/-- the first three parts of `annotate_typed` (the premise of the invariant lemma) -/
theorem annotate_typed3 {L : Lang} (wf : WF L) {s s' : XState} {previous e : TExpr} {t : Term}
    {nfresh : Nat} {prevDash : Bool} (g : GoodStore L s.store) (hp : TypedIn L s.store previous)
    (ht : okTerm L (allocVars s.store nfresh 0) t = true)
    (h : annotateT L s previous t nfresh prevDash = .ok (s', e)) :
    GoodStore L s'.store ∧ Step L s.store s'.store ∧ TypedIn L s'.store e := by
  obtain ⟨h1, h2, h3, _⟩ := annotate_typed wf g hp ht h
  exact ⟨h1, h2, h3⟩

/-- the annotation stays a supertype in every later store -/
theorem annotation_later {L : Lang} (wf : WF L) {s s' : XState} {previous e : TExpr} {t : Term}
    {nfresh : Nat} {prevDash : Bool} (g : GoodStore L s.store) (hp : TypedIn L s.store previous)
    (ht : okTerm L (allocVars s.store nfresh 0) t = true)
    (h : annotateT L s previous t nfresh prevDash = .ok (s', e)) :
    ∀ σ'' ρ, Step L s'.store σ'' → Sat L ρ σ'' → Sub L (den ρ e.ty) (den ρ t) := by
  obtain ⟨_, _, _, _, h5⟩ := annotate_typed wf g hp ht h
  exact fun σ'' ρ st hρ => h5 ρ (st.sat ρ hρ)

/-! ## 4. `Expr.fix()` -/

theorem den_normTermL_of {ρ : Val} {σ : Store} {n : Nat}
    (h : ∀ t, den ρ (normTerm σ n t) = den ρ t) : ∀ ts, denL ρ (normTermL σ n ts) = denL ρ ts
  | [] => by rw [normTermL]
  | t :: ts => by rw [normTermL, denL_cons, denL_cons, h t, den_normTermL_of h ts]

theorem den_normTerm {L : Lang} {ρ : Val} {σ : Store} (hρ : Sat L ρ σ) :
    ∀ n t, den ρ (normTerm σ n t) = den ρ t
  | 0, t => by rw [normTerm]
  | n+1, t => by
    rw [normTerm]
    split
    · rename_i o args hf
      rw [den_app, den_normTermL_of (den_normTerm hρ n) args, ← den_app, ← hf, den_followT hρ]
    · rename_i v hf
      rw [← hf, den_followT hρ]

/-- `normalize()` keeps the meaning of a type under every solution -/
theorem den_normT {L : Lang} {ρ : Val} {σ : Store} (hρ : Sat L ρ σ) (t : Term) :
    den ρ (normT σ t) = den ρ t := den_normTerm hρ _ t

theorem okTerm_normTermL_of {L : Lang} {σ : Store} {n : Nat}
    (h : ∀ t, okTerm L σ t = true → okTerm L σ (normTerm σ n t) = true) :
    ∀ ts, okTermL L σ ts = true → okTermL L σ (normTermL σ n ts) = true ∧ (normTermL σ n ts).length = ts.length
  | [], _ => by rw [normTermL]; exact ⟨okTermL_nil, rfl⟩
  | t :: ts, hts => by
    rw [normTermL]
    have h' := okTermL_cons.mp hts
    obtain ⟨h1, h2⟩ := okTerm_normTermL_of h ts h'.2
    exact ⟨okTermL_cons.mpr ⟨h t h'.1, h1⟩, by simp [h2]⟩

theorem okTerm_normTerm {L : Lang} {σ : Store} (ok : OkStore L σ) :
    ∀ n t, okTerm L σ t = true → okTerm L σ (normTerm σ n t) = true
  | 0, t, ht => by rw [normTerm]; exact ht
  | n+1, t, ht => by
    rw [normTerm]
    have hf := okTerm_followT ok t ht
    split
    · rename_i o args he
      rw [he] at hf
      obtain ⟨h1, h2, h3⟩ := okTerm_app.mp hf
      obtain ⟨h4, h5⟩ := okTerm_normTermL_of (okTerm_normTerm ok n) args h3
      exact okTerm_app.mpr ⟨h1, by rw [h5]; exact h2, h4⟩
    · rename_i v he
      rw [he] at hf; exact hf

theorem okTerm_normT {L : Lang} {σ : Store} (ok : OkStore L σ) {t : Term} (ht : okTerm L σ t = true) :
    okTerm L σ (normT σ t) = true := okTerm_normTerm ok _ t ht

/-- the fixing pass of `Expr.fix()` keeps the tree typed, only shrinks the solutions, and the type
of the root keeps its meaning -/
theorem fixExprCore_typed {L : Lang} (wf : WF L) : ∀ (e : TExpr) (σ σ' : Store) (e' : TExpr),
    GoodStore L σ → TypedIn L σ e → fixExprCore L σ e = .ok (σ', e') →
    Step L σ σ' ∧ TypedIn L σ' e' ∧ ∀ ρ, Sat L ρ σ' → den ρ e'.ty = den ρ e.ty
  | .src i l t, σ, σ', e', g, ht, h => by
    unfold fixExprCore at h
    split at h
    · cases h
    · rename_i σ1 t1 hf
      cases h
      obtain ⟨h1, h2, h3, _, h5, h6⟩ := fix_sound wf g.1 g.2 ht.ty hf
      exact ⟨step_of_parts h1 h2 h3 (fun ρ hρ => (h6 ρ hρ).1), typedIn_src h5, fun ρ hρ => (h6 ρ hρ).2⟩
  | .op n t, σ, σ', e', g, ht, h => by
    unfold fixExprCore at h
    cases h
    exact ⟨Step.refl g.1 g.2, ht, fun _ _ => rfl⟩
  | .app f x t, σ, σ', e', g, ht, h => by
    unfold fixExprCore at h
    split at h
    · cases h
    · rename_i σ1 f1 hf1
      split at h
      · cases h
      · rename_i σ2 x1 hx1
        split at h
        · cases h
        · rename_i σ3 t1 hfix
          cases h
          have hok := ht.ok
          unfold okExpr at hok
          simp only [Bool.and_eq_true] at hok
          have tf : TypedIn L σ f := ⟨hok.1.1, fun ρ hρ => by have := ht.wt ρ hρ; unfold WellTyped at this; exact this.1⟩
          have tx : TypedIn L σ x := ⟨hok.1.2, fun ρ hρ => by have := ht.wt ρ hρ; unfold WellTyped at this; exact this.2.1⟩
          obtain ⟨st1, tf1, df1⟩ := fixExprCore_typed wf f σ σ1 f1 g tf hf1
          obtain ⟨st2, tx1, dx1⟩ := fixExprCore_typed wf x σ1 σ2 x1 ⟨st1.ok, st1.nc⟩ (tx.mono st1) hx1
          have st12 := st1.trans st2
          obtain ⟨h1, h2, h3, _, h5, h6⟩ := fix_sound wf st2.ok st2.nc (st12.okTerm hok.2) hfix
          have st3 : Step L σ2 σ' := step_of_parts h1 h2 h3 (fun ρ hρ => (h6 ρ hρ).1)
          have hden : ∀ ρ, Sat L ρ σ' → den ρ t1 = den ρ t := fun ρ hρ => (h6 ρ hρ).2
          refine ⟨st12.trans st3, ⟨?_, fun ρ hρ => ?_⟩, hden⟩
          · unfold okExpr
            simp only [Bool.and_eq_true]
            exact ⟨⟨(tf1.mono (st2.trans st3)).ok, (tx1.mono st3).ok⟩, h5⟩
          · have hρ2 := st3.sat ρ hρ
            have hρ1 := st2.sat ρ hρ2
            have hρ0 := st1.sat ρ hρ1
            have hw := ht.wt ρ hρ0
            unfold WellTyped at hw ⊢
            refine ⟨(tf1.mono (st2.trans st3)).wt ρ hρ, (tx1.mono st3).wt ρ hρ, ?_⟩
            rw [df1 ρ hρ1, dx1 ρ hρ2, hden ρ hρ]
            exact hw.2.2
  | .shared k e, σ, σ', e', g, ht, h => by
    unfold fixExprCore at h
    split at h
    · cases h
    · rename_i σ1 e1 he
      cases h
      have te : TypedIn L σ e :=
        ⟨by have := ht.ok; unfold okExpr at this; exact this,
         fun ρ hρ => by have := ht.wt ρ hρ; unfold WellTyped at this; exact this⟩
      obtain ⟨st, t1, d1⟩ := fixExprCore_typed wf e σ σ' e1 g te he
      exact ⟨st, ⟨by unfold okExpr; exact t1.ok, fun ρ hρ => by unfold WellTyped; exact t1.wt ρ hρ⟩, d1⟩

theorem normExpr_ty (σ : Store) : ∀ e, (normExpr σ e).ty = normT σ e.ty
  | .src _ _ _ => rfl
  | .op _ _ => rfl
  | .app _ _ _ => rfl
  | .shared _ e => by
    show (normExpr σ e).ty = normT σ e.ty
    exact normExpr_ty σ e

theorem okExpr_normExpr {L : Lang} {σ : Store} (ok : OkStore L σ) :
    ∀ e, okExpr L σ e = true → okExpr L σ (normExpr σ e) = true
  | .src _ _ t, he => by unfold okExpr at he; unfold normExpr okExpr; exact okTerm_normT ok he
  | .op _ t, he => by unfold okExpr at he; unfold normExpr okExpr; exact okTerm_normT ok he
  | .app f x t, he => by
    unfold okExpr at he
    simp only [Bool.and_eq_true] at he
    unfold normExpr okExpr
    simp only [Bool.and_eq_true]
    exact ⟨⟨okExpr_normExpr ok f he.1.1, okExpr_normExpr ok x he.1.2⟩, okTerm_normT ok he.2⟩
  | .shared _ e, he => by
    unfold okExpr at he
    unfold normExpr okExpr
    exact okExpr_normExpr ok e he

theorem wellTyped_normExpr {L : Lang} {ρ : Val} {σ : Store} (hρ : Sat L ρ σ) :
    ∀ e, WellTyped L ρ e → WellTyped L ρ (normExpr σ e)
  | .src _ _ _, _ => by unfold normExpr WellTyped; trivial
  | .op _ _, _ => by unfold normExpr WellTyped; trivial
  | .app f x t, h => by
    unfold WellTyped at h
    unfold normExpr WellTyped
    refine ⟨wellTyped_normExpr hρ f h.1, wellTyped_normExpr hρ x h.2.1, ?_⟩
    rw [normExpr_ty, normExpr_ty, den_normT hρ, den_normT hρ, den_normT hρ]
    exact h.2.2
  | .shared _ e, h => by
    unfold WellTyped at h
    unfold normExpr WellTyped
    exact wellTyped_normExpr hρ e h

/-- normalising every node type against the store the tree is typed in keeps it typed, and every
node type keeps its meaning -/
theorem normExpr_typed {L : Lang} {σ : Store} {e : TExpr} (ok : OkStore L σ) (h : TypedIn L σ e) :
    TypedIn L σ (normExpr σ e) ∧ ∀ ρ, Sat L ρ σ → den ρ (normExpr σ e).ty = den ρ e.ty :=
  ⟨⟨okExpr_normExpr ok e h.ok, fun ρ hρ => wellTyped_normExpr hρ e (h.wt ρ hρ)⟩,
   fun ρ hρ => by rw [normExpr_ty, den_normT hρ]⟩

/-- `Expr.fix()` (one recursion, in Python's order: children first, then the node's own type is fixed and
normalised against the store of that moment) keeps the tree typed in the final store; the type of the root
keeps its meaning. Every `fix` step only shrinks the solutions, `normT σ t` means the same as `t` under every
solution of `σ`, and a term that is well formed in a store stays so in every later store. -/
theorem fixExpr_typed {L : Lang} (wf : WF L) : ∀ (e : TExpr) (σ σ' : Store) (e' : TExpr),
    GoodStore L σ → TypedIn L σ e → fixExpr L σ e = .ok (σ', e') →
    Step L σ σ' ∧ TypedIn L σ' e' ∧ ∀ ρ, Sat L ρ σ' → den ρ e'.ty = den ρ e.ty
  | .src i l t, σ, σ', e', g, ht, h => by
    unfold fixExpr at h
    split at h
    · cases h
    · rename_i σ1 t1 hf
      cases h
      obtain ⟨h1, h2, h3, _, h5, h6⟩ := fix_sound wf g.1 g.2 ht.ty hf
      exact ⟨step_of_parts h1 h2 h3 (fun ρ hρ => (h6 ρ hρ).1), typedIn_src (okTerm_normT h1 h5),
        fun ρ hρ => by
          show den ρ (normT σ' t1) = den ρ t
          rw [den_normT hρ]; exact (h6 ρ hρ).2⟩
  | .op n t, σ, σ', e', g, ht, h => by
    unfold fixExpr at h
    cases h
    exact ⟨Step.refl g.1 g.2, typedIn_op (okTerm_normT g.1 ht.ty), fun ρ hρ => by
      show den ρ (normT σ t) = den ρ t
      exact den_normT hρ t⟩
  | .app f x t, σ, σ', e', g, ht, h => by
    unfold fixExpr at h
    split at h
    · cases h
    · rename_i σ1 f1 hf1
      split at h
      · cases h
      · rename_i σ2 x1 hx1
        split at h
        · cases h
        · rename_i σ3 t1 hfix
          cases h
          have hok := ht.ok
          unfold okExpr at hok
          simp only [Bool.and_eq_true] at hok
          have tf : TypedIn L σ f := ⟨hok.1.1, fun ρ hρ => by have := ht.wt ρ hρ; unfold WellTyped at this; exact this.1⟩
          have tx : TypedIn L σ x := ⟨hok.1.2, fun ρ hρ => by have := ht.wt ρ hρ; unfold WellTyped at this; exact this.2.1⟩
          obtain ⟨st1, tf1, df1⟩ := fixExpr_typed wf f σ σ1 f1 g tf hf1
          obtain ⟨st2, tx1, dx1⟩ := fixExpr_typed wf x σ1 σ2 x1 ⟨st1.ok, st1.nc⟩ (tx.mono st1) hx1
          have st12 := st1.trans st2
          obtain ⟨h1, h2, h3, _, h5, h6⟩ := fix_sound wf st2.ok st2.nc (st12.okTerm hok.2) hfix
          have st3 : Step L σ2 σ' := step_of_parts h1 h2 h3 (fun ρ hρ => (h6 ρ hρ).1)
          have hden : ∀ ρ, Sat L ρ σ' → den ρ (normT σ' t1) = den ρ t := fun ρ hρ => by
            rw [den_normT hρ]; exact (h6 ρ hρ).2
          refine ⟨st12.trans st3, ⟨?_, fun ρ hρ => ?_⟩, hden⟩
          · unfold okExpr
            simp only [Bool.and_eq_true]
            exact ⟨⟨(tf1.mono (st2.trans st3)).ok, (tx1.mono st3).ok⟩, okTerm_normT h1 h5⟩
          · have hρ2 := st3.sat ρ hρ
            have hρ1 := st2.sat ρ hρ2
            have hρ0 := st1.sat ρ hρ1
            have hw := ht.wt ρ hρ0
            unfold WellTyped at hw ⊢
            refine ⟨(tf1.mono (st2.trans st3)).wt ρ hρ, (tx1.mono st3).wt ρ hρ, ?_⟩
            rw [df1 ρ hρ1, dx1 ρ hρ2, hden ρ hρ]
            exact hw.2.2
  | .shared k e, σ, σ', e', g, ht, h => by
    unfold fixExpr at h
    split at h
    · cases h
    · rename_i σ1 e1 he
      cases h
      have te : TypedIn L σ e :=
        ⟨by have := ht.ok; unfold okExpr at this; exact this,
         fun ρ hρ => by have := ht.wt ρ hρ; unfold WellTyped at this; exact this⟩
      obtain ⟨st, t1, d1⟩ := fixExpr_typed wf e σ σ' e1 g te he
      exact ⟨st, ⟨by unfold okExpr; exact t1.ok, fun ρ hρ => by unfold WellTyped; exact t1.wt ρ hρ⟩, d1⟩

/-- `Language.parse` followed by `Expr.fix()` -/
theorem parseTyped_nodes {P : PLang} (wf : WF P.types) (ha : AliasesOk P) {ops : List OperatorDecl}
    (hops : OpsOk P.types ops) {n : Nat} {toks : List String} {doFix : Bool} {s : XState} {e : TExpr}
    (h : parseTyped P ops n toks doFix = .ok (s, e)) :
    GoodStore P.types s.store ∧ TypedIn P.types s.store e := by
  unfold parseTyped at h
  obtain ⟨g0, _, hin⟩ := mkInputs_typed (L := P.types) n {} _ _ (empty_good _) rfl
  generalize mkInputs n {} = r at h g0 hin
  obtain ⟨s0, inputs⟩ := r
  simp only at h g0 hin
  split at h
  · cases h
  · rename_i s1 e1 hp
    obtain ⟨g1, _, t1⟩ := parse_nodes wf ha hops g0 hin hp
    split at h
    · split at h
      · cases h
      · rename_i σ e' hf
        cases h
        obtain ⟨st, t2, _⟩ := fixExpr_typed wf e1 s1.store σ _ g1 t1 hf
        exact ⟨⟨st.ok, st.nc⟩, t2⟩
    · cases h
      exact ⟨g1, t1⟩

/-! ## 5. programmatic construction -/

theorem callT_typed {L : Lang} (wf : WF L) : ∀ (xs : List TExpr) (s s' : XState) (f e : TExpr),
    GoodStore L s.store → TypedIn L s.store f → (∀ x ∈ xs, TypedIn L s.store x) →
    callT L s f xs = .ok (s', e) →
    GoodStore L s'.store ∧ Step L s.store s'.store ∧ TypedIn L s'.store e
  | [], s, s', f, e, g, hf, _, h => by
    unfold callT at h
    cases h
    exact ⟨g, Step.refl g.1 g.2, hf⟩
  | x :: xs, s, s', f, e, g, hf, hxs, h => by
    unfold callT at h
    split at h
    · cases h
    · rename_i s1 e1 ha
      obtain ⟨g1, st1, t1⟩ := mkApp_typed wf g hf (hxs x List.mem_cons_self) ha
      obtain ⟨g2, st2, t2⟩ := callT_typed wf xs s1 s' e1 e g1 t1
        (fun y hy => (hxs y (List.mem_cons_of_mem _ hy)).mono st1) h
      exact ⟨g2, st1.trans st2, t2⟩

/-! ## 6. operator leaves are instances of the declared signature -/

mutual
theorem den_shift (ρ : Val) (k : Nat) : ∀ t, den ρ (t.shift k) = den (fun v => ρ (v + k)) t
  | .var v => by rw [Term.shift, den_var, den_var]
  | .app o args => by rw [Term.shift, den_app, den_app, denL_shift ρ k args]
theorem denL_shift (ρ : Val) (k : Nat) : ∀ ts, denL ρ (Term.shiftL k ts) = denL (fun v => ρ (v + k)) ts
  | [] => by rw [Term.shiftL, denL_nil, denL_nil]
  | t :: ts => by rw [Term.shiftL, denL_cons, denL_cons, den_shift ρ k t, denL_shift ρ k ts]
end

theorem leaf_instance {L : Lang} (wf : WF L) {ops : List OperatorDecl} (hops : OpsOk L ops)
    {s s' : XState} {name : String} {e : TExpr} (g : GoodStore L s.store)
    (h : mkOpT L ops s name = .ok (s', e)) :
    ∃ d ∈ ops, d.name = name ∧
      (e = .op name e.ty ∨ e = .src s.nsrc (some name) e.ty) ∧
      ∀ σ'' ρ, Step L s'.store σ'' → Sat L ρ σ'' →
        den ρ e.ty = den (fun v => ρ (v + s.store.vars.length)) d.schema.body := by
  obtain ⟨d, σ, t, hmem, hname, hi, hs, he⟩ := mkOpT_decl h
  obtain ⟨_, _, _, _, _, h6⟩ := instantiate_sound wf g.1 g.2 (hops d hmem).1 (hops d hmem).2 hi
  refine ⟨d, hmem, hname, ?_, fun σ'' ρ st hρ => ?_⟩
  · rcases he with rfl | rfl
    · exact Or.inl rfl
    · exact Or.inr rfl
  · have hρ' : Sat L ρ σ := hs ▸ st.sat ρ hρ
    have ety : e.ty = t := by rcases he with rfl | rfl <;> rfl
    rw [ety, (h6 ρ hρ').2, den_shift]

end Tfv.C04P
