import Tfv.Proofs.BoundsApply
/-!
# C05, part 4: `fix` yields the least instantiation within the bounds
-/
namespace Tfv.C05P

/-! ## 1. what a successful `fix` does to the store -/

theorem checkConstraints_nc_ok (L : Lang) {σ σ1 : Store} (nc : NoConstraints σ) (n v : Nat)
    (h : checkConstraints L n σ v = .ok σ1) : σ1 = σ := by
  cases n with
  | zero => unfold checkConstraints at h; cases h
  | succ n =>
    cases n with
    | zero =>
      unfold checkConstraints at h
      unfold checkList at h
      cases h
    | succ n =>
      rw [checkConstraints_nc L nc n v] at h
      injection h with h; exact h.symm

/-- a successful `bind` of a bounded variable to a base type: the record gets the binding, nothing else changes -/
theorem bind_base_ok (L : Lang) {σ σ1 : Store} (nc : NoConstraints σ) (n v o : Nat)
    (hbd : (getVar σ v).lower.isSome = true ∨ (getVar σ v).upper.isSome = true)
    (h : bind L n σ v (.app o []) = .ok σ1) :
    (getVar σ v).bound = none ∧
      σ1 = setVar σ v { getVar σ v with wildcard := false, bound := some (.app o []) } := by
  cases n with
  | zero => unfold bind at h; cases h
  | succ n =>
    unfold bind at h
    simp only at h
    split at h
    · cases h
    · rename_i hb
      refine ⟨by simpa using hb, ?_⟩
      simp only [setVar_setVar] at h
      split at h
      · split at h
        · cases h
        · split at h
          · cases h
          · exact checkConstraints_nc_ok L (noConstraints_setVar nc _ _) n v h
      · split at h
        · cases h
        · rename_i hno
          exfalso
          rcases hbd with hbd | hbd
          · simp [hbd] at hno
          · simp [hbd] at hno

mutual
/-- `Occ L t pl x q`: when `fix` enters `t` with preference flag `pl` (`true` = prefer the lower
bound), the variable `x` is met at a position whose effective flag is `q` (the flag flips in
contravariant positions, `fixList`'s `if v then pl else !pl`) -/
inductive Occ (L : Lang) : Term → Bool → Nat → Bool → Prop
  | var (x : Nat) (pl : Bool) : Occ L (.var x) pl x pl
  | app {o : Nat} {args : List Term} {pl : Bool} {x : Nat} {q : Bool} :
      OccL L (varianceOf L o) args pl x q → Occ L (.app o args) pl x q
inductive OccL (L : Lang) : List Bool → List Term → Bool → Nat → Bool → Prop
  | head {v : Bool} {vs : List Bool} {p : Term} {ps : List Term} {pl : Bool} {x : Nat} {q : Bool} :
      Occ L p (if v then pl else !pl) x q → OccL L (v :: vs) (p :: ps) pl x q
  | tail {v : Bool} {vs : List Bool} {p : Term} {ps : List Term} {pl : Bool} {x : Nat} {q : Bool} :
      OccL L vs ps pl x q → OccL L (v :: vs) (p :: ps) pl x q
end

theorem occ_var_inv {L : Lang} {y : Nat} {pl : Bool} {x : Nat} {q : Bool} (h : Occ L (.var y) pl x q) :
    x = y ∧ q = pl := by
  cases h; exact ⟨rfl, rfl⟩

theorem occL_nil_right {L : Lang} {vs : List Bool} {pl : Bool} {x : Nat} {q : Bool}
    (h : OccL L vs [] pl x q) : False := by
  cases h

theorem occL_nil_left {L : Lang} {ps : List Term} {pl : Bool} {x : Nat} {q : Bool}
    (h : OccL L [] ps pl x q) : False := by
  cases h

/-- `σ'` arises from `σ` by binding some unbound variables `w`, met at flag `q` (`W w q`), to their
lower (`q = true`) or upper (`q = false`) bound; nothing else changes -/
structure FixExt (σ σ' : Store) (W : Nat → Bool → Prop) : Prop where
  csets : σ'.csets = σ.csets
  constrs : σ'.constrs = σ.constrs
  length : σ'.vars.length = σ.vars.length
  vars : ∀ w, getVar σ' w = getVar σ w ∨
    ((getVar σ w).bound = none ∧ ∃ q b, W w q ∧
      (if q then (getVar σ w).lower else (getVar σ w).upper) = some b ∧
      getVar σ' w = { getVar σ w with wildcard := false, bound := some (.app b []) })

theorem FixExt.refl (σ : Store) (W : Nat → Bool → Prop) : FixExt σ σ W :=
  ⟨rfl, rfl, rfl, fun _ => Or.inl rfl⟩

theorem FixExt.mono {σ σ' : Store} {W W' : Nat → Bool → Prop} (h : FixExt σ σ' W)
    (hW : ∀ w q, W w q → W' w q) : FixExt σ σ' W' :=
  ⟨h.csets, h.constrs, h.length, fun w => by
    rcases h.vars w with h1 | ⟨h1, q, b, h2, h3, h4⟩
    · exact Or.inl h1
    · exact Or.inr ⟨h1, q, b, hW w q h2, h3, h4⟩⟩

theorem FixExt.trans {σ σ1 σ2 : Store} {W : Nat → Bool → Prop} (h1 : FixExt σ σ1 W)
    (h2 : FixExt σ1 σ2 W) : FixExt σ σ2 W := by
  refine ⟨h2.csets.trans h1.csets, h2.constrs.trans h1.constrs, h2.length.trans h1.length, fun w => ?_⟩
  rcases h1.vars w with a1 | ⟨a1, q, b, a2, a3, a4⟩
  · rcases h2.vars w with b1 | ⟨b1, q, b, b2, b3, b4⟩
    · exact Or.inl (b1.trans a1)
    · rw [a1] at b1 b3 b4
      exact Or.inr ⟨b1, q, b, b2, b3, b4⟩
  · rcases h2.vars w with b1 | ⟨b1, _, _, _, _, _⟩
    · exact Or.inr ⟨a1, q, b, a2, a3, b1.trans a4⟩
    · rw [a4] at b1; cases b1

theorem FixExt.noConstraints {σ σ' : Store} {W : Nat → Bool → Prop} (h : FixExt σ σ' W)
    (nc : NoConstraints σ) : NoConstraints σ' := by
  intro k
  unfold getCset
  rw [h.csets]
  exact nc k

/-- a variable the walk may meet: unbound, or already bound to a base type -/
def GoodVar (σ : Store) (x : Nat) : Prop :=
  (getVar σ x).bound = none ∨ ∃ b, (getVar σ x).bound = some (.app b [])

theorem FixExt.goodVar {σ σ' : Store} {W : Nat → Bool → Prop} (h : FixExt σ σ' W) {x : Nat}
    (hx : GoodVar σ x) : GoodVar σ' x := by
  rcases h.vars x with h1 | ⟨_, _, b, _, _, h4⟩
  · unfold GoodVar; rw [h1]; exact hx
  · exact Or.inr ⟨b, by rw [h4]⟩

theorem fixExt_bind {σ : Store} {v : Nat} {pl : Bool} {b : Nat} (L : Lang)
    (hb : (getVar σ v).bound = none)
    (hbd : (if pl then (getVar σ v).lower else (getVar σ v).upper) = some b) :
    FixExt σ (setVar σ v { getVar σ v with wildcard := false, bound := some (.app b []) })
      (Occ L (.var v) pl) := by
  have hv : v < σ.vars.length := by
    apply Classical.byContradiction
    intro hn
    have : getVar σ v = {} := by
      unfold getVar
      rw [List.getD_eq_getElem?_getD, List.getElem?_eq_none (by omega)]
      rfl
    rw [this] at hbd
    cases pl <;> simp at hbd
  refine ⟨rfl, rfl, setVar_length _ _ _, fun w => ?_⟩
  by_cases hw : v = w
  · subst hw
    exact Or.inr ⟨hb, pl, b, Occ.var v pl, hbd, getVar_setVar_same hv⟩
  · exact Or.inl (getVar_setVar_ne hw)

mutual
theorem fix_ext (L : Lang) : ∀ (n : Nat) (σ : Store) (t : Term) (pl : Bool) (σ' : Store) (t' : Term),
    NoConstraints σ → (∀ x q, Occ L t pl x q → GoodVar σ x) →
    fix L n σ t pl = .ok (σ', t') → FixExt σ σ' (Occ L t pl)
  | 0, _, _, _, _, _, _, _, h => by unfold fix at h; cases h
  | n+1, σ, .app o args, pl, σ', t', nc, tv, h => by
    unfold fix at h
    rw [followT_app] at h
    simp only at h
    cases hr : fixList L n σ (varianceOf L o) args pl with
    | error e => rw [hr] at h; cases h
    | ok σ1 =>
      rw [hr] at h
      injection h with h
      injection h with h1 h2
      subst h1
      exact (fixList_ext L n σ (varianceOf L o) args pl σ1 nc (fun x q hx => tv x q (Occ.app hx)) hr).mono
        (fun w q hw => Occ.app hw)
  | n+1, σ, .var v, pl, σ', t', nc, tv, h => by
    unfold fix at h
    rcases tv v pl (Occ.var v pl) with hb | ⟨b, hb⟩
    · rw [followT_var_unbound hb] at h
      simp only at h
      cases pl with
      | true =>
        simp only [Bool.true_and, Bool.not_true, Bool.false_and, Bool.false_eq_true, if_false] at h
        cases hl : (getVar σ v).lower with
        | none =>
          rw [hl] at h
          simp only [Option.isSome_none, Bool.false_eq_true, if_false] at h
          injection h with h; injection h with h1 _
          subst h1; exact FixExt.refl _ _
        | some l =>
          rw [hl] at h
          simp only [Option.isSome_some, if_true] at h
          cases hr : bind L n σ v (.app l []) with
          | error e => rw [hr] at h; cases h
          | ok σ1 =>
            rw [hr] at h
            injection h with h; injection h with h1 _
            subst h1
            obtain ⟨_, e⟩ := bind_base_ok L nc n v l (Or.inl (by rw [hl]; rfl)) hr
            rw [e]
            exact fixExt_bind L hb (by simpa using hl)
      | false =>
        simp only [Bool.false_and, Bool.false_eq_true, if_false, Bool.not_false, Bool.true_and] at h
        cases hl : (getVar σ v).upper with
        | none =>
          rw [hl] at h
          simp only [Option.isSome_none, Bool.false_eq_true, if_false] at h
          injection h with h; injection h with h1 _
          subst h1; exact FixExt.refl _ _
        | some l =>
          rw [hl] at h
          simp only [Option.isSome_some, if_true] at h
          cases hr : bind L n σ v (.app l []) with
          | error e => rw [hr] at h; cases h
          | ok σ1 =>
            rw [hr] at h
            injection h with h; injection h with h1 _
            subst h1
            obtain ⟨_, e⟩ := bind_base_ok L nc n v l (Or.inr (by rw [hl]; rfl)) hr
            rw [e]
            exact fixExt_bind L hb (by simpa using hl)
    · rw [followT_var_app hb] at h
      simp only at h
      cases hr : fixList L n σ (varianceOf L b) [] pl with
      | error e => rw [hr] at h; cases h
      | ok σ1 =>
        rw [hr] at h
        injection h with h; injection h with h1 _
        subst h1
        exact (fixList_ext L n σ (varianceOf L b) [] pl σ1 nc (fun x q hx => (occL_nil_right hx).elim) hr).mono
          (fun w q hw => (occL_nil_right hw).elim)
theorem fixList_ext (L : Lang) : ∀ (n : Nat) (σ : Store) (vs : List Bool) (ps : List Term) (pl : Bool)
    (σ' : Store), NoConstraints σ → (∀ x q, OccL L vs ps pl x q → GoodVar σ x) →
    fixList L n σ vs ps pl = .ok σ' → FixExt σ σ' (OccL L vs ps pl)
  | 0, _, _, _, _, _, _, _, h => by unfold fixList at h; cases h
  | n+1, σ, [], ps, pl, σ', _, _, h => by
    unfold fixList at h
    injection h with h; subst h; exact FixExt.refl _ _
  | n+1, σ, v :: vs, [], pl, σ', _, _, h => by
    unfold fixList at h
    injection h with h; subst h; exact FixExt.refl _ _
  | n+1, σ, v :: vs, p :: ps, pl, σ', nc, tv, h => by
    unfold fixList at h
    cases hr : fix L n σ p (if v then pl else !pl) with
    | error e => rw [hr] at h; cases h
    | ok r =>
      obtain ⟨σ1, t1⟩ := r
      rw [hr] at h
      simp only at h
      have e1 := fix_ext L n σ p (if v then pl else !pl) σ1 t1 nc
        (fun x q hx => tv x q (OccL.head hx)) hr
      have e2 := fixList_ext L n σ1 vs ps pl σ' (e1.noConstraints nc)
        (fun x q hx => e1.goodVar (tv x q (OccL.tail hx))) h
      exact (e1.mono (fun w q hw => OccL.head hw)).trans (e2.mono (fun w q hw => OccL.tail hw))
end

/-! ## 2. valuations -/

mutual
/-- the variable `x` occurs (anywhere) in the term -/
inductive HasVar : Term → Nat → Prop
  | var (x : Nat) : HasVar (.var x) x
  | app {o : Nat} {args : List Term} {x : Nat} : HasVarL args x → HasVar (.app o args) x
inductive HasVarL : List Term → Nat → Prop
  | head {p : Term} {ps : List Term} {x : Nat} : HasVar p x → HasVarL (p :: ps) x
  | tail {p : Term} {ps : List Term} {x : Nat} : HasVarL ps x → HasVarL (p :: ps) x
end

mutual
theorem den_congr {ρ ρ' : Val} : ∀ (t : Term), (∀ x, HasVar t x → ρ x = ρ' x) → den ρ t = den ρ' t
  | .var x, h => by unfold den; exact h x (HasVar.var x)
  | .app o args, h => by
    unfold den
    rw [denL_congr args (fun x hx => h x (HasVar.app hx))]
theorem denL_congr {ρ ρ' : Val} : ∀ (ts : List Term), (∀ x, HasVarL ts x → ρ x = ρ' x) →
    denL ρ ts = denL ρ' ts
  | [], _ => by unfold denL; rfl
  | t :: ts, h => by
    unfold denL
    rw [den_congr t (fun x hx => h x (HasVarL.head hx)), denL_congr ts (fun x hx => h x (HasVarL.tail hx))]
end

theorem denL_length (ρ : Val) : ∀ (ts : List Term), (denL ρ ts).length = ts.length
  | [] => by unfold denL; rfl
  | t :: ts => by unfold denL; simp [denL_length ρ ts]

/-- direction of `Sub` selected by the flag: `true` puts the new valuation below -/
def SubDir (L : Lang) (q : Bool) (new old : Ty) : Prop := if q then Sub L new old else Sub L old new

mutual
theorem den_sub {L : Lang} {σ : Store} {ρ ρ' : Val} : ∀ (t : Term) (pl : Bool),
    okTerm L σ t = true →
    (∀ x q, Occ L t pl x q → SubDir L q (ρ' x) (ρ x)) → SubDir L pl (den ρ' t) (den ρ t)
  | .var x, pl, _, h => by unfold den; exact h x pl (Occ.var x pl)
  | .app o args, pl, ok, h => by
    unfold okTerm at ok
    simp only [Bool.and_eq_true, decide_eq_true_eq, beq_iff_eq] at ok
    obtain ⟨⟨_, hlen⟩, okl⟩ := ok
    unfold den
    by_cases h0 : arityOf L o = 0
    · have : args = [] := List.eq_nil_of_length_eq_zero (hlen.trans h0)
      subst this
      unfold denL SubDir
      cases pl <;> exact Sub.base h0 h0 (Anc.refl o)
    · have := denL_sub (varianceOf L o) args pl okl hlen (fun x q hx => h x q (Occ.app hx))
      unfold SubDir at this ⊢
      cases pl with
      | true => exact Sub.cong h0 this
      | false => exact Sub.cong h0 this
theorem denL_sub {L : Lang} {σ : Store} {ρ ρ' : Val} : ∀ (vs : List Bool) (ps : List Term) (pl : Bool),
    okTermL L σ ps = true → ps.length = vs.length →
    (∀ x q, OccL L vs ps pl x q → SubDir L q (ρ' x) (ρ x)) →
    (if pl then SubArgs L vs (denL ρ' ps) (denL ρ ps) else SubArgs L vs (denL ρ ps) (denL ρ' ps))
  | [], [], pl, _, _, _ => by unfold denL; cases pl <;> exact SubArgs.nil
  | [], _ :: _, _, _, hl, _ => by simp at hl
  | _ :: _, [], _, _, hl, _ => by simp at hl
  | v :: vs, p :: ps, pl, ok, hl, h => by
    unfold okTermL at ok
    simp only [Bool.and_eq_true] at ok
    have ih1 := den_sub (ρ := ρ) (ρ' := ρ') p (if v then pl else !pl) ok.1 (fun x q hx => h x q (OccL.head hx))
    have ih2 := denL_sub (ρ := ρ) (ρ' := ρ') vs ps pl ok.2 (by simpa using hl) (fun x q hx => h x q (OccL.tail hx))
    unfold denL
    unfold SubDir at ih1
    cases pl <;> cases v <;> simp only [if_true, Bool.false_eq_true, if_false, Bool.not_true, Bool.not_false] at ih1 ih2 ⊢
    · exact SubArgs.contra ih1 ih2
    · exact SubArgs.co ih1 ih2
    · exact SubArgs.contra ih1 ih2
    · exact SubArgs.co ih1 ih2
end

/-! ## 3. leastness -/

/-- the valuation after `fix`: newly bound variables take the value of their binding -/
def fixVal (σ σ' : Store) (ρ : Val) : Val := fun w =>
  match (getVar σ w).bound, (getVar σ' w).bound with
  | none, some s => den ρ s
  | _, _ => ρ w

theorem fixVal_same {σ σ' : Store} {ρ : Val} {w : Nat} (h : (getVar σ' w).bound = (getVar σ w).bound) :
    fixVal σ σ' ρ w = ρ w := by
  unfold fixVal
  rw [h]
  cases (getVar σ w).bound <;> rfl

theorem fixVal_new {σ σ' : Store} {ρ : Val} {w b : Nat} (h1 : (getVar σ w).bound = none)
    (h2 : (getVar σ' w).bound = some (.app b [])) : fixVal σ σ' ρ w = .app b [] := by
  unfold fixVal
  rw [h1, h2]
  simp only [den, denL]

theorem fix_least_ext (L : Lang) {σ σ' : Store} {t : Term} {pl : Bool}
    (ext : FixExt σ σ' (Occ L t pl)) (ρ : Val) (sat : Sat L ρ σ)
    (okb : ∀ w, okBound L (getVar σ w).lower ∧ okBound L (getVar σ w).upper)
    (indep : ∀ w s x, (getVar σ w).bound = some s → HasVar s x →
      (getVar σ' x).bound = (getVar σ x).bound)
    (sp : ∀ x, Occ L t pl x true → Occ L t pl x false →
      (getVar σ x).lower = none ∧ (getVar σ x).upper = none)
    (okt : okTerm L σ t = true) :
    Sat L (fixVal σ σ' ρ) σ' ∧
    (∀ w, (getVar σ' w).bound = (getVar σ w).bound → fixVal σ σ' ρ w = ρ w) ∧
    SubDir L pl (den (fixVal σ σ' ρ) t) (den ρ t) := by
  refine ⟨⟨?_, ?_, ?_, ?_⟩, fun w h => fixVal_same h, ?_⟩
  · -- wf
    intro w
    rcases ext.vars w with h1 | ⟨h1, q, b, _, h3, h4⟩
    · rw [fixVal_same (by rw [h1])]; exact sat.wf w
    · rw [fixVal_new h1 (by rw [h4])]
      have hb : b < L.length ∧ arityOf L b = 0 := by
        cases q
        · exact (okb w).2 b (by simpa using h3)
        · exact (okb w).1 b (by simpa using h3)
      unfold wfTy wfTyL
      simp [hb.1, hb.2]
  · -- bound
    intro w s hs
    rcases ext.vars w with h1 | ⟨h1, q, b, _, h3, h4⟩
    · rw [h1] at hs
      rw [fixVal_same (by rw [h1]), sat.bound w s hs]
      exact den_congr s (fun x hx => (fixVal_same (indep w s x hs hx)).symm)
    · rw [h4] at hs
      simp only [Option.some.injEq] at hs
      subst hs
      rw [fixVal_new h1 (by rw [h4])]
      simp only [den, denL]
  · -- lower
    intro w l hb hl
    rcases ext.vars w with h1 | ⟨_, _, _, _, _, h4⟩
    · rw [h1] at hb hl
      rw [fixVal_same (by rw [h1])]
      exact sat.lower w l hb hl
    · rw [h4] at hb; cases hb
  · -- upper
    intro w u hb hu
    rcases ext.vars w with h1 | ⟨_, _, _, _, _, h4⟩
    · rw [h1] at hb hu
      rw [fixVal_same (by rw [h1])]
      exact sat.upper w u hb hu
    · rw [h4] at hb; cases hb
  · -- the order
    apply den_sub (σ := σ) t pl okt
    intro x q hx
    rcases ext.vars x with h1 | ⟨h1, q0, b, h2, h3, h4⟩
    · rw [fixVal_same (by rw [h1])]
      unfold SubDir
      cases q <;> exact sub_refl _ (sat.wf x)
    · rw [fixVal_new h1 (by rw [h4])]
      have hq : q0 = q := by
        cases q <;> cases q0
        · rfl
        · obtain ⟨hl, _⟩ := sp x h2 hx
          rw [hl] at h3; simp at h3
        · obtain ⟨_, hu⟩ := sp x hx h2
          rw [hu] at h3; simp at h3
        · rfl
      subst hq
      unfold SubDir
      cases q0
      · exact sat.upper x b h1 (by simpa using h3)
      · exact sat.lower x b h1 (by simpa using h3)

/-- a variable without bounds is left alone by `fix` -/
theorem FixExt.unbounded {σ σ' : Store} {W : Nat → Bool → Prop} (ext : FixExt σ σ' W) {x : Nat}
    (h : (getVar σ x).lower = none ∧ (getVar σ x).upper = none) : getVar σ' x = getVar σ x := by
  rcases ext.vars x with h1 | ⟨_, q, b, _, h3, _⟩
  · exact h1
  · cases q
    · rw [h.2] at h3; simp at h3
    · rw [h.1] at h3; simp at h3

/-- **leastness of `fix`** on a constraint-free store; `indep` is the exact side condition: the
variables mentioned in existing bindings are not bound by this `fix` -/
theorem fix_least (L : Lang) {σ σ' : Store} {t t' : Term} {n : Nat} (pl : Bool)
    (nc : NoConstraints σ) (hfix : fix L n σ t pl = .ok (σ', t'))
    (unb : ∀ x q, Occ L t pl x q → (getVar σ x).bound = none)
    (ρ : Val) (sat : Sat L ρ σ)
    (okb : ∀ w, okBound L (getVar σ w).lower ∧ okBound L (getVar σ w).upper)
    (indep : ∀ w s x, (getVar σ w).bound = some s → HasVar s x →
      (getVar σ' x).bound = (getVar σ x).bound)
    (sp : ∀ x, Occ L t pl x true → Occ L t pl x false →
      (getVar σ x).lower = none ∧ (getVar σ x).upper = none)
    (okt : okTerm L σ t = true) :
    ∃ ρ', Sat L ρ' σ' ∧
      (∀ w, (getVar σ' w).bound = (getVar σ w).bound → ρ' w = ρ w) ∧
      SubDir L pl (den ρ' t) (den ρ t) :=
  ⟨fixVal σ σ' ρ, fix_least_ext L
    (fix_ext L n σ t pl σ' t' nc (fun x q hx => Or.inl (unb x q hx)) hfix) ρ sat okb indep sp okt⟩

/-- the same with a side condition on `σ` alone: variables mentioned in existing bindings carry no bounds -/
theorem fix_least_static (L : Lang) {σ σ' : Store} {t t' : Term} {n : Nat} (pl : Bool)
    (nc : NoConstraints σ) (hfix : fix L n σ t pl = .ok (σ', t'))
    (unb : ∀ x q, Occ L t pl x q → (getVar σ x).bound = none)
    (ρ : Val) (sat : Sat L ρ σ)
    (okb : ∀ w, okBound L (getVar σ w).lower ∧ okBound L (getVar σ w).upper)
    (indep : ∀ w s x, (getVar σ w).bound = some s → HasVar s x →
      (getVar σ x).lower = none ∧ (getVar σ x).upper = none)
    (sp : ∀ x, Occ L t pl x true → Occ L t pl x false →
      (getVar σ x).lower = none ∧ (getVar σ x).upper = none)
    (okt : okTerm L σ t = true) :
    ∃ ρ', Sat L ρ' σ' ∧
      (∀ w, (getVar σ' w).bound = (getVar σ w).bound → ρ' w = ρ w) ∧
      SubDir L pl (den ρ' t) (den ρ t) := by
  have ext := fix_ext L n σ t pl σ' t' nc (fun x q hx => Or.inl (unb x q hx)) hfix
  exact fix_least L pl nc hfix unb ρ sat okb
    (fun w s x hs hx => by rw [ext.unbounded (indep w s x hs hx)]) sp okt

/-- the term returned by `fix` is the input read through the new store -/
theorem fix_term (L : Lang) (n : Nat) (σ : Store) (t : Term) (pl : Bool) (σ' : Store) (t' : Term)
    (unb : ∀ v, t = .var v → (getVar σ v).bound = none)
    (h : fix L n σ t pl = .ok (σ', t')) : t' = followT σ' t := by
  cases n with
  | zero => unfold fix at h; cases h
  | succ n =>
    unfold fix at h
    cases t with
    | app o args =>
      rw [followT_app] at h
      simp only at h
      cases hr : fixList L n σ (varianceOf L o) args pl with
      | error e => rw [hr] at h; cases h
      | ok σ1 =>
        rw [hr] at h
        injection h with h; injection h with h1 h2
        rw [followT_app, h2]
    | var v =>
      rw [followT_var_unbound (unb v rfl)] at h
      simp only at h
      split at h
      · cases h
      · injection h with h; injection h with h1 h2
        rw [← h1, ← h2]

theorem den_follow {L : Lang} {ρ : Val} {σ : Store} (sat : Sat L ρ σ) :
    ∀ (k : Nat) (t : Term), den ρ (follow σ k t) = den ρ t
  | 0, t => by unfold follow; rfl
  | k+1, .app o args => by unfold follow; rfl
  | k+1, .var v => by
    unfold follow
    cases hb : (getVar σ v).bound with
    | none => rfl
    | some s =>
      simp only
      rw [den_follow sat k s]
      conv => rhs; unfold den
      exact (sat.bound v s hb).symm

/-- … so it denotes the same type under every solution of the new store -/
theorem fix_term_den (L : Lang) {n : Nat} {σ : Store} {t : Term} {pl : Bool} {σ' : Store} {t' : Term}
    (unb : ∀ v, t = .var v → (getVar σ v).bound = none)
    (h : fix L n σ t pl = .ok (σ', t')) {ρ' : Val} (sat : Sat L ρ' σ') : den ρ' t' = den ρ' t := by
  rw [fix_term L n σ t pl σ' t' unb h]
  exact den_follow sat _ t

/-! ## 4. specialisations and helpers for examples -/

/-- `fix(prefer_lower = True)`: the new valuation lies below, and the returned term denotes the same -/
theorem fix_least_lower (L : Lang) {σ σ' : Store} {t t' : Term} {n : Nat}
    (nc : NoConstraints σ) (hfix : fix L n σ t true = .ok (σ', t'))
    (unb : ∀ x q, Occ L t true x q → (getVar σ x).bound = none)
    (ρ : Val) (sat : Sat L ρ σ)
    (okb : ∀ w, okBound L (getVar σ w).lower ∧ okBound L (getVar σ w).upper)
    (indep : ∀ w s x, (getVar σ w).bound = some s → HasVar s x →
      (getVar σ' x).bound = (getVar σ x).bound)
    (sp : ∀ x, Occ L t true x true → Occ L t true x false →
      (getVar σ x).lower = none ∧ (getVar σ x).upper = none)
    (okt : okTerm L σ t = true) :
    ∃ ρ', Sat L ρ' σ' ∧
      (∀ w, (getVar σ' w).bound = (getVar σ w).bound → ρ' w = ρ w) ∧
      Sub L (den ρ' t) (den ρ t) ∧ den ρ' t' = den ρ' t := by
  obtain ⟨ρ', h1, h2, h3⟩ := fix_least L true nc hfix unb ρ sat okb indep sp okt
  refine ⟨ρ', h1, h2, h3, fix_term_den L (fun v hv => ?_) hfix h1⟩
  subst hv
  exact unb v true (Occ.var v true)

theorem fix_least_lower_static (L : Lang) {σ σ' : Store} {t t' : Term} {n : Nat}
    (nc : NoConstraints σ) (hfix : fix L n σ t true = .ok (σ', t'))
    (unb : ∀ x q, Occ L t true x q → (getVar σ x).bound = none)
    (ρ : Val) (sat : Sat L ρ σ)
    (okb : ∀ w, okBound L (getVar σ w).lower ∧ okBound L (getVar σ w).upper)
    (indep : ∀ w s x, (getVar σ w).bound = some s → HasVar s x →
      (getVar σ x).lower = none ∧ (getVar σ x).upper = none)
    (sp : ∀ x, Occ L t true x true → Occ L t true x false →
      (getVar σ x).lower = none ∧ (getVar σ x).upper = none)
    (okt : okTerm L σ t = true) :
    ∃ ρ', Sat L ρ' σ' ∧
      (∀ w, (getVar σ' w).bound = (getVar σ w).bound → ρ' w = ρ w) ∧
      Sub L (den ρ' t) (den ρ t) ∧ den ρ' t' = den ρ' t := by
  have ext := fix_ext L n σ t true σ' t' nc (fun x q hx => Or.inl (unb x q hx)) hfix
  exact fix_least_lower L nc hfix unb ρ sat okb
    (fun w s x hs hx => by rw [ext.unbounded (indep w s x hs hx)]) sp okt

/-- which variables `fix` bound, and to what: the store after `fix` -/
theorem fix_store (L : Lang) {σ σ' : Store} {t t' : Term} {n : Nat} {pl : Bool}
    (nc : NoConstraints σ) (hfix : fix L n σ t pl = .ok (σ', t'))
    (unb : ∀ x q, Occ L t pl x q → (getVar σ x).bound = none) : FixExt σ σ' (Occ L t pl) :=
  fix_ext L n σ t pl σ' t' nc (fun x q hx => Or.inl (unb x q hx)) hfix

theorem occ_app2_inv {L : Lang} {o a b : Nat} {pl : Bool} {x : Nat} {q va vb : Bool}
    (hv : varianceOf L o = [va, vb]) (h : Occ L (.app o [.var a, .var b]) pl x q) :
    (x = a ∧ q = (if va then pl else !pl)) ∨ (x = b ∧ q = (if vb then pl else !pl)) := by
  cases h with
  | app h =>
    rw [hv] at h
    cases h with
    | head h => exact Or.inl (occ_var_inv h)
    | tail h =>
      cases h with
      | head h => exact Or.inr (occ_var_inv h)
      | tail h => cases h

theorem getVar_mem_or_default (σ : Store) (w : Nat) : getVar σ w ∈ σ.vars ∨ getVar σ w = {} := by
  unfold getVar
  rw [List.getD_eq_getElem?_getD]
  cases h : σ.vars[w]? with
  | none => exact Or.inr rfl
  | some i => exact Or.inl (List.mem_of_getElem? h)

theorem allUnbound_of_all {σ : Store} (h : σ.vars.all (fun i => i.bound.isNone) = true) (w : Nat) :
    (getVar σ w).bound = none := by
  rcases getVar_mem_or_default σ w with h1 | h1
  · simpa using (List.all_eq_true.mp h) _ h1
  · rw [h1]

theorem okb_of_all {L : Lang} {σ : Store}
    (h : σ.vars.all (fun i =>
      (i.lower.all fun l => decide (l < L.length) && arityOf L l == 0) &&
      (i.upper.all fun u => decide (u < L.length) && arityOf L u == 0)) = true) (w : Nat) :
    okBound L (getVar σ w).lower ∧ okBound L (getVar σ w).upper := by
  rcases getVar_mem_or_default σ w with h1 | h1
  · have := (List.all_eq_true.mp h) _ h1
    simp only [Bool.and_eq_true] at this
    constructor
    · intro o ho; rw [ho] at this; simpa using this.1
    · intro o ho; rw [ho] at this; simpa using this.2
  · rw [h1]; constructor <;> (intro o ho; cases ho)

/-! ## 5. leastness on acyclic stores: no side condition on existing bindings -/

mutual
theorem wfTy_den {L : Lang} {σ : Store} {ρ : Val} (hρ : ∀ x, wfTy L (ρ x) = true) :
    ∀ (t : Term), okTerm L σ t = true → wfTy L (den ρ t) = true
  | .var x, _ => by unfold den; exact hρ x
  | .app o args, h => by
    unfold okTerm at h
    simp only [Bool.and_eq_true, decide_eq_true_eq, beq_iff_eq] at h
    unfold den wfTy
    simp only [Bool.and_eq_true, decide_eq_true_eq, beq_iff_eq]
    exact ⟨⟨h.1.1, by rw [denL_length]; exact h.1.2⟩, wfTyL_denL hρ args h.2⟩
theorem wfTyL_denL {L : Lang} {σ : Store} {ρ : Val} (hρ : ∀ x, wfTy L (ρ x) = true) :
    ∀ (ts : List Term), okTermL L σ ts = true → wfTyL L (denL ρ ts) = true
  | [], _ => by unfold denL wfTyL; rfl
  | t :: ts, h => by
    unfold okTermL at h
    simp only [Bool.and_eq_true] at h
    unfold denL wfTyL
    simp only [Bool.and_eq_true]
    exact ⟨wfTy_den hρ t h.1, wfTyL_denL hρ ts h.2⟩
end

/-- re-evaluate the bound variables of `σ` over a changed base valuation, `k` rounds -/
def iterVal (σ : Store) (base : Val) : Nat → Val
  | 0 => base
  | k+1 => fun w =>
    match (getVar σ w).bound with
    | some s => den (iterVal σ base k) s
    | none => base w

theorem iterVal_unbound {σ : Store} {base : Val} {w : Nat} (h : (getVar σ w).bound = none) :
    ∀ k, iterVal σ base k w = base w
  | 0 => rfl
  | k+1 => by unfold iterVal; simp only [h]

theorem iterVal_stable {σ : Store} {base : Val} {rank : Nat → Nat}
    (acyc : ∀ w s x, (getVar σ w).bound = some s → HasVar s x → rank x < rank w) :
    ∀ (k w : Nat), rank w < k → iterVal σ base (k+1) w = iterVal σ base k w
  | 0, _, h => by omega
  | k+1, w, h => by
    cases hb : (getVar σ w).bound with
    | none => rw [iterVal_unbound hb, iterVal_unbound hb]
    | some s =>
      have e1 : iterVal σ base (k+2) w = den (iterVal σ base (k+1)) s := by
        conv => lhs; unfold iterVal
        simp only [hb]
      have e2 : iterVal σ base (k+1) w = den (iterVal σ base k) s := by
        conv => lhs; unfold iterVal
        simp only [hb]
      rw [e1, e2]
      apply den_congr
      intro x hx
      have := acyc w s x hb hx
      exact iterVal_stable acyc k x (by omega)

theorem le_sum_of_mem {xs : List Nat} {x : Nat} (h : x ∈ xs) : x ≤ xs.sum := by
  induction xs with
  | nil => cases h
  | cons y ys ih =>
    simp only [List.sum_cons]
    rcases List.mem_cons.mp h with h | h
    · omega
    · have := ih h; omega

theorem getVar_default {σ : Store} {w : Nat} (h : σ.vars.length ≤ w) : getVar σ w = {} := by
  unfold getVar
  rw [List.getD_eq_getElem?_getD, List.getElem?_eq_none h]
  rfl

/-- **leastness of `fix` on an acyclic store**: every solution of `σ` is dominated by a solution of
`σ'` that agrees with it on all variables still unbound -/
theorem fix_least_acyclic (L : Lang) {σ σ' : Store} {t t' : Term} {n : Nat} (pl : Bool)
    (nc : NoConstraints σ) (hfix : fix L n σ t pl = .ok (σ', t'))
    (unb : ∀ x q, Occ L t pl x q → (getVar σ x).bound = none)
    (ρ : Val) (sat : Sat L ρ σ)
    (okb : ∀ w, okBound L (getVar σ w).lower ∧ okBound L (getVar σ w).upper)
    (okbind : ∀ w s, (getVar σ w).bound = some s → okTerm L σ s = true)
    (rank : Nat → Nat)
    (acyc : ∀ w s x, (getVar σ w).bound = some s → HasVar s x → rank x < rank w)
    (sp : ∀ x, Occ L t pl x true → Occ L t pl x false →
      (getVar σ x).lower = none ∧ (getVar σ x).upper = none)
    (okt : okTerm L σ t = true) :
    ∃ ρ', Sat L ρ' σ' ∧
      (∀ w, (getVar σ' w).bound = none → ρ' w = ρ w) ∧
      SubDir L pl (den ρ' t) (den ρ t) := by
  have ext := fix_ext L n σ t pl σ' t' nc (fun x q hx => Or.inl (unb x q hx)) hfix
  let base : Val := fixVal σ σ' ρ
  let K : Nat := ((List.range σ.vars.length).map rank).sum + 1
  let ρ' : Val := iterVal σ base K
  -- the base valuation: new values at the variables just bound
  have base_same : ∀ w, getVar σ' w = getVar σ w → base w = ρ w :=
    fun w h => fixVal_same (by rw [h])
  have base_wf : ∀ w, wfTy L (base w) = true := by
    intro w
    rcases ext.vars w with h1 | ⟨h1, q, b, _, h3, h4⟩
    · rw [base_same w h1]; exact sat.wf w
    · show wfTy L (fixVal σ σ' ρ w) = true
      rw [fixVal_new h1 (by rw [h4])]
      have hb : b < L.length ∧ arityOf L b = 0 := by
        cases q
        · exact (okb w).2 b (by simpa using h3)
        · exact (okb w).1 b (by simpa using h3)
      unfold wfTy wfTyL
      simp [hb.1, hb.2]
  -- fixed point
  have fp_unbound : ∀ w, (getVar σ w).bound = none → ρ' w = base w :=
    fun w h => iterVal_unbound h K
  have fp_bound : ∀ w s, (getVar σ w).bound = some s → ρ' w = den ρ' s := by
    intro w s hb
    have hw : w < σ.vars.length := by
      apply Classical.byContradiction
      intro hn
      rw [getVar_default (by omega)] at hb
      cases hb
    have hr : rank w < K := by
      have : rank w ≤ ((List.range σ.vars.length).map rank).sum :=
        le_sum_of_mem (List.mem_map.mpr ⟨w, List.mem_range.mpr hw, rfl⟩)
      show rank w < ((List.range σ.vars.length).map rank).sum + 1
      omega
    have e1 : iterVal σ base (K+1) w = den (iterVal σ base K) s := by
      conv => lhs; unfold iterVal
      simp only [hb]
    rw [← e1]
    exact (iterVal_stable acyc K w hr).symm
  have wf_iter : ∀ k w, wfTy L (iterVal σ base k w) = true := by
    intro k
    induction k with
    | zero => exact base_wf
    | succ k ih =>
      intro w
      unfold iterVal
      cases hb : (getVar σ w).bound with
      | none => exact base_wf w
      | some s => exact wfTy_den ih s (okbind w s hb)
  refine ⟨ρ', ⟨wf_iter K, ?_, ?_, ?_⟩, ?_, ?_⟩
  · -- bound
    intro w s hs
    rcases ext.vars w with h1 | ⟨h1, q, b, _, h3, h4⟩
    · rw [h1] at hs; exact fp_bound w s hs
    · rw [h4] at hs
      simp only [Option.some.injEq] at hs
      subst hs
      rw [fp_unbound w h1]
      show fixVal σ σ' ρ w = _
      rw [fixVal_new h1 (by rw [h4])]
      simp only [den, denL]
  · -- lower
    intro w l hb hl
    rcases ext.vars w with h1 | ⟨_, _, _, _, _, h4⟩
    · rw [h1] at hb hl
      rw [fp_unbound w hb, base_same w h1]
      exact sat.lower w l hb hl
    · rw [h4] at hb; cases hb
  · -- upper
    intro w u hb hu
    rcases ext.vars w with h1 | ⟨_, _, _, _, _, h4⟩
    · rw [h1] at hb hu
      rw [fp_unbound w hb, base_same w h1]
      exact sat.upper w u hb hu
    · rw [h4] at hb; cases hb
  · -- agreement on the variables still unbound
    intro w hb
    rcases ext.vars w with h1 | ⟨_, _, _, _, _, h4⟩
    · rw [h1] at hb
      rw [fp_unbound w hb, base_same w h1]
    · rw [h4] at hb; cases hb
  · -- the order
    apply den_sub (σ := σ) t pl okt
    intro x q hx
    have hxb := unb x q hx
    rw [fp_unbound x hxb]
    rcases ext.vars x with h1 | ⟨h1, q0, b, h2, h3, h4⟩
    · rw [base_same x h1]
      unfold SubDir
      cases q <;> exact sub_refl _ (sat.wf x)
    · show SubDir L q (fixVal σ σ' ρ x) (ρ x)
      rw [fixVal_new h1 (by rw [h4])]
      have hq : q0 = q := by
        cases q <;> cases q0
        · rfl
        · obtain ⟨hl, _⟩ := sp x h2 hx
          rw [hl] at h3; simp at h3
        · obtain ⟨_, hu⟩ := sp x hx h2
          rw [hu] at h3; simp at h3
        · rfl
      subst hq
      unfold SubDir
      cases q0
      · exact sat.upper x b h1 (by simpa using h3)
      · exact sat.lower x b h1 (by simpa using h3)

/-- `prefer_lower` form, with the returned term -/
theorem fix_least_acyclic_lower (L : Lang) {σ σ' : Store} {t t' : Term} {n : Nat}
    (nc : NoConstraints σ) (hfix : fix L n σ t true = .ok (σ', t'))
    (unb : ∀ x q, Occ L t true x q → (getVar σ x).bound = none)
    (ρ : Val) (sat : Sat L ρ σ)
    (okb : ∀ w, okBound L (getVar σ w).lower ∧ okBound L (getVar σ w).upper)
    (okbind : ∀ w s, (getVar σ w).bound = some s → okTerm L σ s = true)
    (rank : Nat → Nat)
    (acyc : ∀ w s x, (getVar σ w).bound = some s → HasVar s x → rank x < rank w)
    (sp : ∀ x, Occ L t true x true → Occ L t true x false →
      (getVar σ x).lower = none ∧ (getVar σ x).upper = none)
    (okt : okTerm L σ t = true) :
    ∃ ρ', Sat L ρ' σ' ∧
      (∀ w, (getVar σ' w).bound = none → ρ' w = ρ w) ∧
      Sub L (den ρ' t) (den ρ t) ∧ den ρ' t' = den ρ' t := by
  obtain ⟨ρ', h1, h2, h3⟩ := fix_least_acyclic L true nc hfix unb ρ sat okb okbind rank acyc sp okt
  refine ⟨ρ', h1, h2, h3, fix_term_den L (fun v hv => ?_) hfix h1⟩
  subst hv
  exact unb v true (Occ.var v true)

end Tfv.C05P
