import Tfv.Model.Infer
import Tfv.Spec.Sub
/-!
# Specification: what an inference store *means*

A valuation `ρ` assigns a concrete type to every variable. `Sat L ρ σ` says
`ρ` is a solution of the store: bound variables denote their binding and
unbound variables lie within their base-type bounds. Inference is sound when
every step only *shrinks* the set of solutions and the relation it was asked
to establish holds under every remaining solution.
-/
namespace Tfv

abbrev Val := Nat → Ty

mutual
def den (ρ : Val) : Term → Ty
  | .var v => ρ v
  | .app o args => .app o (denL ρ args)
def denL (ρ : Val) : List Term → List Ty
  | [] => []
  | t :: ts => den ρ t :: denL ρ ts
end

mutual
/-- syntactic well-formedness of a term: allocated variables, arities respected -/
def okTerm (L : Lang) (σ : Store) : Term → Bool
  | .var v => v < σ.vars.length
  | .app o args => o < L.length && args.length == arityOf L o && okTermL L σ args
def okTermL (L : Lang) (σ : Store) : List Term → Bool
  | [] => true
  | t :: ts => okTerm L σ t && okTermL L σ ts
end

/-- a bound is a nullary operator of the language -/
def okBound (L : Lang) (b : Option Nat) : Prop := ∀ o, b = some o → o < L.length ∧ arityOf L o = 0

/-- the store is well-formed: bindings are well-formed terms, bounds are base types -/
structure OkStore (L : Lang) (σ : Store) : Prop where
  bound : ∀ v t, (getVar σ v).bound = some t → okTerm L σ t = true
  lower : ∀ v, okBound L (getVar σ v).lower
  upper : ∀ v, okBound L (getVar σ v).upper
  /-- a lower bound never exceeds the upper bound -/
  ordered : ∀ v l u, (getVar σ v).lower = some l → (getVar σ v).upper = some u → opSub L l u = true
  /-- a variable bounded by a base type is never bound to a compound type -/
  basic : ∀ v o args, (getVar σ v).bound = some (.app o args) →
    ((getVar σ v).lower.isSome = true ∨ (getVar σ v).upper.isSome = true) → arityOf L o = 0

/-- the store carries no deferred constraints (the constraint-free engine) -/
def NoConstraints (σ : Store) : Prop := ∀ k, getCset σ k = []

/-- `ρ` is a solution of `σ` -/
structure Sat (L : Lang) (ρ : Val) (σ : Store) : Prop where
  wf : ∀ v, wfTy L (ρ v) = true
  bound : ∀ v t, (getVar σ v).bound = some t → ρ v = den ρ t
  lower : ∀ v l, (getVar σ v).bound = none → (getVar σ v).lower = some l → Sub L (.app l []) (ρ v)
  upper : ∀ v u, (getVar σ v).bound = none → (getVar σ v).upper = some u → Sub L (ρ v) (.app u [])

end Tfv
