import Tfv.Proofs.WildConstrMatch
/-!
# The strict matcher is stronger than the test `fulfill` makes

`match3 L (dewild σ) … = some true → match3 L σ … = some true` (with `accept_wildcard = false`): the certificate
`subsStrictB` asks for MORE than the engine's own test; the difference is exactly the both-wildcards rule.
-/
namespace Tfv.C03C
open Tfv Tfv.C03P Tfv.C16P

theorem loop_strict_imp {L : Lang} {σ : Store} {n : Nat} {st : Bool}
    (ih : ∀ a b, match3 L (dewild σ) n st false a b = some true → match3 L σ n st false a b = some true) :
    ∀ (vs : List Bool) (ss ts : List Term) (acc : Option Bool),
      match3.loop L (dewild σ) n st false vs ss ts acc = some true →
      match3.loop L σ n st false vs ss ts acc = some true := by
  intro vs
  induction vs with
  | nil =>
    intro ss ts acc h
    rw [loop_not_cons _ _ _ _ _ _ _ _ _ (by rintro ⟨_, _, _, _, _, _, h, _, _⟩; cases h)] at h ⊢
    exact h
  | cons v vs ihv =>
    intro ss ts acc h
    cases ss with
    | nil =>
      rw [loop_not_cons _ _ _ _ _ _ _ _ _ (by rintro ⟨_, _, _, _, _, _, _, h, _⟩; cases h)] at h ⊢
      exact h
    | cons s ss =>
      cases ts with
      | nil =>
        rw [loop_not_cons _ _ _ _ _ _ _ _ _ (by rintro ⟨_, _, _, _, _, _, _, _, h⟩; cases h)] at h ⊢
        exact h
      | cons t ts =>
        rw [match3.loop.eq_1] at h
        split at h
        · cases h
        · exact absurd h (loop_none_ne_true L (dewild σ) n st false vs ss ts)
        · next hm =>
          have hl : (if v = true then match3 L σ n st false s t else match3 L σ n st false t s) = some true := by
            cases v with
            | true => simpa using ih s t (by simpa using hm)
            | false => simpa using ih t s (by simpa using hm)
          rw [match3.loop.eq_1, hl]
          exact ihv ss ts acc h

/-- strict `some true` implies the engine's `some true` -/
theorem match3_strict_imp (L : Lang) (σ : Store) (st : Bool) : ∀ (n : Nat) (a b : Term),
    match3 L (dewild σ) n st false a b = some true → match3 L σ n st false a b = some true
  | 0, a, b, h => by rw [match3_zero] at h; cases h
  | n+1, a, b, h => by
    rw [match3.eq_2] at h ⊢
    rw [followT_dewild, followT_dewild] at h
    cases ea : followT σ a with
    | var av =>
      cases eb : followT σ b with
      | var bv =>
        rw [ea, eb] at h
        simp only [getVar_dewild, Bool.and_self, Bool.or_false, Bool.false_eq_true, if_false] at h
        split at h
        · next e =>
          simp only [e, Bool.true_or, if_true]
        · split at h
          · split at h <;> cases h
          · cases h
      | app bo bs =>
        rw [ea, eb] at h
        simp only [getVar_dewild, Bool.false_and] at h
        simp only [Bool.false_and]
        exact h
    | app ao as =>
      cases eb : followT σ b with
      | var bv =>
        rw [ea, eb] at h
        simp only [getVar_dewild, Bool.false_and] at h
        simp only [Bool.false_and]
        exact h
      | app bo bs =>
        rw [ea, eb] at h
        simp only [] at h ⊢
        split at h
        · next e => rw [if_pos e]
        · next e =>
          rw [if_neg e]
          split at h
          · next e2 => rw [if_pos e2]; exact h
          · next e2 =>
            rw [if_neg e2]
            split at h
            · cases h
            · next e3 =>
              rw [if_neg e3]
              exact loop_strict_imp (match3_strict_imp L σ st n) _ _ _ _ h

end Tfv.C03C
