import Tfv.Spec.History
import Tfv.Spec.HistoryConstr
/-!
# Specification: a store WITH pending constraints placed behind a history (C16, shift form)

`Store.append` (Spec/History.lean) shifts the variable indices and constraint-set ids of its second argument and
DROPS its constraints. `Store.appendC σ₀ σ` keeps them: `σ` is placed after `σ₀`, all variable indices of `σ` are
shifted by `σ₀.vars.length`, all constraint-set ids by `σ₀.csets.length`, all constraint ids by `σ₀.constrs.length`
— inside variable records, constraint sets and constraint records (reference, target, alternatives).

The only other thing a run behind a history can see of the history is its SIZE, through the fuels the model computes
from the store (`followT`: `vars.length + 1`; `match`: `4 * vars.length + 64`; occurs check / `variables()`:
`vars.length + 64`; the closure over constraints: `vars.length * (constrs.length + 1) + 8`). The second half of this
file is the engine of `Tfv/Model/Infer.lean` with these fuels computed as if the store had `kv` more variables and
`kc` more constraints (GENERATED from `Infer.lean` by text substitution, suffix `E`; `match3E`/`occursE` are by
structural recursion on the fuel so the kernel evaluates them). With `kv = kc = 0` it is the model
(`Tfv.C16H.useSchemaE_zero`).
-/
namespace Tfv

/-! ## 1. placing a store behind a history -/

/-- a constraint record moved behind a history of `k` variables -/
def Constr.shift (k : Nat) : Constr → Constr
  | .sub r t s f => .sub (r.shift k) (t.shift k) s f
  | .elim r alts f => .elim (r.shift k) (Term.shiftL k alts) f

/-- a constraint set moved behind a history of `m` constraints -/
def shiftIds (m : Nat) (cs : List Nat) : List Nat := cs.map (· + m)

/-- the store `σ` (with its constraint sets and constraints) placed after the history `σ₀` -/
def Store.appendC (σ₀ σ : Store) : Store :=
  { vars := σ₀.vars ++ σ.vars.map (VarInfo.shift σ₀.vars.length σ₀.csets.length),
    csets := σ₀.csets ++ σ.csets.map (shiftIds σ₀.constrs.length),
    constrs := σ₀.constrs ++ σ.constrs.map (Constr.shift σ₀.vars.length) }

/-- the outcome of a use seen from behind a history `σ₀`: the same error, or the store (constraints included) appended
to the history and the result term shifted -/
def afterHistoryC (σ₀ : Store) : Except Err (Store × Term) → Except Err (Store × Term)
  | .error e => .error e
  | .ok (σ, t) => .ok (σ₀.appendC σ, t.shift σ₀.vars.length)

/-- the blank history of `k` unresolved variables (no constraint-set objects) and `m` inert constraint records: a
history of the given sizes with no content -/
def blankHistory (k m : Nat) : Store :=
  { vars := List.replicate k {}, csets := [], constrs := List.replicate m (.sub (.var 0) (.var 0) false true) }

/-- every variable of the term is allocated -/
def TermScoped (σ : Store) (t : Term) : Prop := ∀ v, VarIn v t → v < σ.vars.length

/-- the store is scoped: bindings and constraint records mention allocated variables only, constraint sets hold
allocated constraints only (the region "everything" is closed, `ClosedC`) -/
def ScopedC (σ : Store) : Prop := ClosedC σ ⟨fun _ => True, fun _ => True, fun _ => True⟩

/-! ## 2. the engine with fuel offsets -/

def followTE (kv : Nat) (σ : Store) (t : Term) : Term := follow σ (σ.vars.length + kv + 1) t

def matchFuelE (kv : Nat) (σ : Store) : Nat := 4 * (σ.vars.length + kv) + 64

def termFuelE (kv : Nat) (σ : Store) : Nat := σ.vars.length + kv + 64

/-- the argument loop of `match3`, over an arbitrary comparison of the arguments -/
def loopE (f : Term → Term → Option Bool) : List Bool → List Term → List Term → Option Bool → Option Bool
  | v :: vs, s :: ss, t :: ts, acc =>
    match (if v then f s t else f t s) with
    | some false => some false
    | none => loopE f vs ss ts none
    | some true => loopE f vs ss ts acc
  | _, _, _, acc => acc

/-- `match3` with `followT` fuelled as behind `kv` more variables -/
def match3E (L : Lang) (kv : Nat) (σ : Store) : Nat → Bool → Bool → Term → Term → Option Bool
  | 0, _, _, _, _ => none
  | n+1, st, aw, a, b =>
    match followTE kv σ a, followTE kv σ b with
    | .app ao as, .app bo bs =>
      if st && (ao == BOT || bo == TOP) then some true
      else if arityOf L ao == 0 then some (ao == bo || (st && opSub L ao bo))
      else if ao != bo then some false
      else loopE (fun s t => match3E L kv σ n st aw s t) (varianceOf L ao) as bs (some true)
    | .app ao _, .var bv =>
      let bi := getVar σ bv
      if st && ao == BOT then some true
      else if (bi.upper.isSome || bi.lower.isSome) && arityOf L ao != 0 then some false
      else if bi.upper.any (fun u => !opSub L ao u) then some false
      else if !st && bi.lower.any (fun l => !opSub L l ao) then some false
      else if aw && bi.wildcard then some true
      else none
    | .var av, .app bo _ =>
      let ai := getVar σ av
      if st && bo == TOP then some true
      else if (ai.upper.isSome || ai.lower.isSome) && arityOf L bo != 0 then some false
      else if ai.lower.any (fun l => !opSub L l bo) then some false
      else if !st && ai.upper.any (fun u => !opSub L u bo) then some false
      else if aw && ai.wildcard then some true
      else none
    | .var av, .var bv =>
      let ai := getVar σ av
      let bi := getVar σ bv
      if av == bv || (ai.wildcard && bi.wildcard) then some true
      else if aw && (ai.wildcard || bi.wildcard) then some true
      else match ai.lower, bi.upper with
        | some l, some u => if opSub L u l true then some false else none
        | _, _ => none

def occursE (L : Lang) (kv : Nat) (σ : Store) : Nat → Term → Term → Bool
  | 0, _, _ => false
  | n+1, a, b =>
    let a' := followTE kv σ a
    let b' := followTE kv σ b
    match a', b' with
    | .var av, .var bv => av == bv
    | _, _ =>
      match3E L kv σ (matchFuelE kv σ) false false a' b' == some true ||
        (match a' with
         | .app _ args => args.any (fun t => occursE L kv σ n t b')
         | .var _ => false)

def directVarsE (kv : Nat) (σ : Store) : Nat → Term → List Nat → List Nat
  | 0, _, acc => acc
  | n+1, t, acc =>
    match followTE kv σ t with
    | .var v => if acc.contains v then acc else acc ++ [v]
    | .app _ args => args.foldl (fun acc t => directVarsE kv σ n t acc) acc

def indirectVarsE (kv : Nat) (σ : Store) : Nat → List Nat → List Nat → List Nat
  | 0, _, seen => seen
  | _, [], seen => seen
  | n+1, v :: work, seen =>
    let cs := getCset σ (getVar σ v).cset
    let found := cs.foldl (fun acc c =>
      (constrTerms (getConstr σ c)).foldl (fun acc t => directVarsE kv σ (termFuelE kv σ) t acc) acc) seen
    let new := found.filter (fun x => !seen.contains x)
    indirectVarsE kv σ n (work ++ new) found

def varsOfTermsE (kv kc : Nat) (σ : Store) (ts : List Term) : List Nat :=
  let direct := ts.foldl (fun acc t => directVarsE kv σ (termFuelE kv σ) t acc) []
  indirectVarsE kv σ ((σ.vars.length + kv) * (σ.constrs.length + kc + 1) + 8) direct direct

mutual
/-- `unify(self=a, other=b, subtype=st, skip_basic=sb, skip_wildcard=sw)` (type.py:556-630) -/
def unifyE (L : Lang) (kv : Nat) : Nat → Store → Term → Term → Bool → Bool → Bool → R
  | 0, _, _, _, _, _, _ => .error .outOfFuel
  | n+1, σ, a, b, st, sb, sw =>
    match followTE kv σ a, followTE kv σ b with
    | .var av, .var bv =>
      if !sw || !((getVar σ av).wildcard && (getVar σ bv).wildcard) then bindE L kv n σ av (.var bv)
      else .ok σ
    | .app ao as, .app bo bs =>
      if ao == BOT || bo == TOP then .ok σ
      else if arityOf L ao == 0 then
        if sb then .ok σ
        else if st && !opSub L ao bo then .error .subtypeMismatch
        else if !st && ao != bo then .error .typeMismatch
        else .ok σ
      else if ao == bo then unifyListE L kv n σ (varianceOf L ao) as bs st sb sw
      else .error .typeMismatch
    | .var av, .app bo bs =>
      if bo == TOP then .ok σ
      else if occursE L kv σ (termFuelE kv σ) (.app bo bs) (.var av) then .error .recursiveType
      else if arityOf L bo == 0 then
        if sb || (sw && (getVar σ av).wildcard) then .ok σ
        else if st then belowE L kv n σ av bo
        else bindE L kv n σ av (.app bo bs)
      else
        if sw || sb then
          let (σ1, fresh) := newVars σ bs.length
          match bindE L kv n σ1 av (.app bo fresh) with
          | .error e => .error e
          | .ok σ2 => unifyE L kv n σ2 (.var av) (.app bo bs) st sb sw
        else bindE L kv n σ av (.app bo bs)
    | .app ao as, .var bv =>
      if ao == BOT then .ok σ
      else if occursE L kv σ (termFuelE kv σ) (.app ao as) (.var bv) then .error .recursiveType
      else if arityOf L ao == 0 then
        if sb || (sw && (getVar σ bv).wildcard) then .ok σ
        else if st then aboveE L kv n σ bv ao
        else bindE L kv n σ bv (.app ao as)
      else
        if sw || sb then
          let (σ1, fresh) := newVars σ as.length
          match bindE L kv n σ1 bv (.app ao fresh) with
          | .error e => .error e
          -- `b.unify(b, …)` in the source (type.py:627): unifies the new skeleton with itself
          | .ok σ2 => unifyE L kv n σ2 (.var bv) (.var bv) st sb sw
        else bindE L kv n σ bv (.app ao as)

def unifyListE (L : Lang) (kv : Nat) : Nat → Store → List Bool → List Term → List Term → Bool → Bool → Bool → R
  | 0, _, _, _, _, _, _, _ => .error .outOfFuel
  | n+1, σ, v :: vs, x :: xs, y :: ys, st, sb, sw =>
    match (if v then unifyE L kv n σ x y st sb sw else unifyE L kv n σ y x st sb sw) with
    | .error e => .error e
    | .ok σ1 => unifyListE L kv n σ1 vs xs ys st sb sw
  | _+1, σ, _, _, _, _, _, _ => .ok σ

/-- `TypeVariable.bind(self=v, t)` (type.py:797-830) -/
def bindE (L : Lang) (kv : Nat) : Nat → Store → Nat → Term → R
  | 0, _, _, _ => .error .outOfFuel
  | n+1, σ, v, t =>
    let i := getVar σ v
    if i.bound.isSome then .error (.internal "bind:variable cannot be unified twice")
    else
      let i := { i with wildcard := false }
      let σ := setVar σ v i
      match t with
      | .var tv =>
        if tv == v then .ok σ
        else
          let σ := setVar σ v { i with bound := some t }
          let ti := getVar σ tv
          let σ := setCset σ ti.cset (unionSorted (getCset σ ti.cset) (getCset σ i.cset))
          let σ := setVar σ v { (getVar σ v) with cset := ti.cset }
          let σ := setVar σ tv { (getVar σ tv) with wildcard := false }
          -- fix: the bounds are handed over through `unify`, which follows `t` (a constraint re-check
          -- triggered by the first bound may already have resolved it)
          match (match i.lower with | some l => unifyE L kv n σ (.app l []) (.var tv) true false false | none => .ok σ) with
          | .error e => .error e
          | .ok σ =>
            match (match i.upper with | some u => unifyE L kv n σ (.var tv) (.app u []) true false false | none => .ok σ) with
            | .error e => .error e
            | .ok σ => checkConstraintsE L kv n σ v
      | .app o args =>
        let σ := setVar σ v { i with bound := some t }
        if arityOf L o == 0 then
          if i.lower.any (fun l => opSub L o l true) then .error .subtypeMismatch
          else if i.upper.any (fun u => opSub L u o true) then .error .subtypeMismatch
          else checkConstraintsE L kv n σ v
        else
          if i.lower.isSome || i.upper.isSome then .error .subtypeMismatch
          else
            let vars := directVarsE kv σ (termFuelE kv σ) (.app o args) []
            let merged := vars.foldl (fun acc w => unionSorted acc (getCset σ (getVar σ w).cset)) (getCset σ i.cset)
            let σ := setCset σ i.cset merged
            let σ := vars.foldl (fun σ w => setVar σ w { (getVar σ w) with cset := i.cset }) σ
            checkConstraintsE L kv n σ v

/-- `above(self=v, new)` (type.py:832-861) -/
def aboveE (L : Lang) (kv : Nat) : Nat → Store → Nat → Nat → R
  | 0, _, _, _ => .error .outOfFuel
  | n+1, σ, v, new =>
    if new == TOP then bindE L kv n σ v (.app TOP [])
    else
      let i := { (getVar σ v) with wildcard := false }
      let σ := setVar σ v i
      if i.bound.isSome then .error (.internal "above:assert not self.bound")
      else
        let r : R :=
          if i.upper.any (fun u => opSub L u new true) then .error .subtypeMismatch
          else if i.upper.any (fun u => !opSub L new u) then .error .subtypeMismatch
          else if i.lower.any (fun l => opSub L new l true) then .ok σ
          else if i.lower.all (fun l => opSub L l new) then
            checkConstraintsE L kv n (setVar σ v { i with lower := some new }) v
          else .error .subtypeMismatch
        match r with
        | .error e => .error e
        | .ok σ =>
          let i := getVar σ v
          if i.bound.isNone && i.lower.isSome && i.lower == i.upper then
            match i.lower with
            | some l => bindE L kv n σ v (.app l [])
            | none => .ok σ
          else .ok σ

/-- `below(self=v, new)` (type.py:863-887) -/
def belowE (L : Lang) (kv : Nat) : Nat → Store → Nat → Nat → R
  | 0, _, _, _ => .error .outOfFuel
  | n+1, σ, v, new =>
    if new == BOT then bindE L kv n σ v (.app BOT [])
    else
      let i := { (getVar σ v) with wildcard := false }
      let σ := setVar σ v i
      if i.bound.isSome then .error (.internal "below:assert not self.bound")
      else
        let r : R :=
          if i.lower.any (fun l => opSub L new l true) then .error .subtypeMismatch
          else if i.lower.any (fun l => !opSub L l new) then .error .subtypeMismatch
          else if i.upper.any (fun u => opSub L u new true) then .ok σ
          else if i.upper.all (fun u => opSub L new u) then
            checkConstraintsE L kv n (setVar σ v { i with upper := some new }) v
          else .error .subtypeMismatch
        match r with
        | .error e => .error e
        | .ok σ =>
          let i := getVar σ v
          if i.bound.isNone && i.upper.isSome && i.upper == i.lower then
            match i.upper with
            | some u => bindE L kv n σ v (.app u [])
            | none => .ok σ
          else .ok σ

/-- `check_constraints(self=v)`: snapshot of the set, creation order -/
def checkConstraintsE (L : Lang) (kv : Nat) : Nat → Store → Nat → R
  | 0, _, _ => .error .outOfFuel
  | n+1, σ, v => checkListE L kv n σ v (getCset σ (getVar σ v).cset)

def checkListE (L : Lang) (kv : Nat) : Nat → Store → Nat → List Nat → R
  | 0, _, _, _ => .error .outOfFuel
  | _+1, σ, _, [] => .ok σ
  | n+1, σ, v, c :: cs =>
    match fulfillE L kv n σ c with
    | .error e => .error e
    | .ok (σ1, done) =>
      let σ2 := if done then
          let k := (getVar σ1 v).cset
          setCset σ1 k ((getCset σ1 k).filter (· != c))
        else σ1
      checkListE L kv n σ2 v cs

/-- `Constraint.fulfill()` for both kinds (type.py:997-1004, 1051-1086) -/
def fulfillE (L : Lang) (kv : Nat) : Nat → Store → Nat → Except Err (Store × Bool)
  | 0, _, _ => .error .outOfFuel
  | n+1, σ, c =>
    match getConstr σ c with
    | .sub ref tgt _ _ =>
      match unifyE L kv n σ ref tgt true true false with
      | .error e => .error e
      | .ok σ1 =>
        match match3E L kv σ1 (matchFuelE kv σ1) true false ref tgt with
        | some true =>
          (match getConstr σ1 c with
           | .sub r t s _ => .ok (setConstr σ1 c (.sub r t s true), true)
           | _ => .ok (σ1, true))
        | some false => .error .constraintViolation
        | none =>
          (match getConstr σ1 c with
           | .sub _ _ _ f => .ok (σ1, f)
           | _ => .ok (σ1, false))
    | .elim _ _ true => .ok (σ, true)
    | .elim _ _ false =>
      match minimizeE L kv n σ c with
      | .error e => .error e
      | .ok σ1 =>
        match getConstr σ1 c with
        | .elim ref alts ful =>
          let normalized (t : Term) : Bool := match t with
            | .var v => (getVar σ1 v).bound.isNone
            | _ => true
          if !(normalized ref && alts.all normalized) then
            .error (.internal "fulfill:assert normalized")
          else
            let alts' := alts.filter (fun t => match3E L kv σ1 (matchFuelE kv σ1) true true ref t != some false)
            match alts' with
            | [] => .error .constraintViolation
            | [only] =>
              let σ2 := setConstr σ1 c (.elim ref alts' true)
              (match unifyE L kv n σ2 ref only true false false with
               | .error e => .error e
               | .ok σ3 => .ok (σ3, true))
            | _ => .ok (setConstr σ1 c (.elim ref alts' ful), ful)
        | _ => .error (.internal "fulfill:constraint changed kind")

/-- `EliminationConstraint.minimize()` (type.py:1031-1049); the kept alternatives are followed once more at the end: fixing a
later alternative may have bound a variable that is an earlier alternative -/
def minimizeE (L : Lang) (kv : Nat) : Nat → Store → Nat → R
  | 0, _, _ => .error .outOfFuel
  | n+1, σ, c =>
    match getConstr σ c with
    | .elim ref alts _ =>
      match minLoopE L kv n σ alts [] with
      | .error e => .error e
      | .ok (σ1, minimized) =>
        (match getConstr σ1 c with
         | .elim _ _ ful => .ok (setConstr σ1 c (.elim (followTE kv σ1 ref) (minimized.map (followTE kv σ1)) ful))
         | _ => .ok σ1)
    | _ => .ok σ

def minLoopE (L : Lang) (kv : Nat) : Nat → Store → List Term → List Term → Except Err (Store × List Term)
  | 0, _, _, _ => .error .outOfFuel
  | _+1, σ, [], minimized => .ok (σ, minimized)
  | n+1, σ, obj :: rest, minimized =>
    -- for i in range(len(minimized)): …
    let step (acc : List Term × Bool) (m : Term) : List Term × Bool :=
      let m' := if match3E L kv σ (matchFuelE kv σ) true false m obj == some true then followTE kv σ obj else m
      let add' := if match3E L kv σ (matchFuelE kv σ) true false obj m' == some true then false else acc.2
      (acc.1 ++ [m'], add')
    let (minimized', add) := minimized.foldl step ([], true)
    if add then
      match fixE L kv n σ (followTE kv σ obj) true with
      | .error e => .error e
      | .ok (σ1, t) => minLoopE L kv n σ1 rest (minimized' ++ [t])
    else minLoopE L kv n σ rest minimized'

/-- `fix(self=t, prefer_lower)` (type.py:394-409) -/
def fixE (L : Lang) (kv : Nat) : Nat → Store → Term → Bool → Except Err (Store × Term)
  | 0, _, _, _ => .error .outOfFuel
  | n+1, σ, t, pl =>
    match followTE kv σ t with
    | .app o args =>
      match fixListE L kv n σ (varianceOf L o) args pl with
      | .error e => .error e
      | .ok σ1 => .ok (σ1, .app o args)
    | .var v =>
      let i := getVar σ v
      let r : R :=
        if pl && i.lower.isSome then
          match i.lower with
          | some l => bindE L kv n σ v (.app l [])
          | none => .ok σ
        else if !pl && i.upper.isSome then
          match i.upper with
          | some u => bindE L kv n σ v (.app u [])
          | none => .ok σ
        else .ok σ
      match r with
      | .error e => .error e
      | .ok σ1 => .ok (σ1, followTE kv σ1 (.var v))

def fixListE (L : Lang) (kv : Nat) : Nat → Store → List Bool → List Term → Bool → R
  | 0, _, _, _, _ => .error .outOfFuel
  | n+1, σ, v :: vs, p :: ps, pl =>
    -- prefer_lower ^ (v == Variance.CONTRA)
    match fixE L kv n σ p (if v then pl else !pl) with
    | .error e => .error e
    | .ok (σ1, _) => fixListE L kv n σ1 vs ps pl
  | _+1, σ, _, _, _ => .ok σ
end

/-- `Constraint.__init__`: register, `inform()`, first `fulfill()` -/
def addConstraintE (L : Lang) (kv kc : Nat) (fuel : Nat) (σ : Store) (c : Constr) : R :=
  let id := σ.constrs.length
  -- `reference.instance()` / `target.instance()` follow their argument
  let c := match c with
    | .sub r t s f => Constr.sub (followTE kv σ r) (followTE kv σ t) s f
    | .elim r alts f => Constr.elim r (alts.map (followTE kv σ)) f
  let σ := { σ with constrs := σ.constrs ++ [c] }
  let vars := varsOfTermsE kv kc σ (constrTerms c)
  if vars.any (fun v => (getVar σ v).bound.isSome) then .error (.internal "inform:assert not v.bound")
  else
    let σ := vars.foldl (fun σ v =>
      let k := (getVar σ v).cset
      setCset σ k (insertSorted id (getCset σ k))) σ
    match fulfillE L kv fuel σ id with
    | .error e => .error e
    | .ok (σ1, _) => .ok σ1

def addConstraintsE (L : Lang) (kv kc : Nat) (fuel : Nat) (base : Nat) : Store → List CAst → R
  | σ, [] => .ok σ
  | σ, c :: cs =>
    let c' := match c with
      | .sub r t s => Constr.sub (r.shift base) (t.shift base) s false
      | .elim r alts => Constr.elim (followTE kv σ (r.shift base)) (Term.shiftL base alts) false
    match addConstraintE L kv kc fuel σ c' with
    | .error e => .error e
    | .ok σ1 => addConstraintsE L kv kc fuel base σ1 cs
def spineFollowE (kv : Nat) (σ : Store) : Term → Term
  | .app o [l, r] =>
    if o == FUN then
      .app o [(match l with | .var v => followTE kv σ (.var v) | t => t), spineFollowE kv σ r]
    else .app o [l, r]
  | .var v => followTE kv σ (.var v)
  | t => t

/-- `TypeSchema.instance()`: fresh variables, constraints in source order, `fix(prefer_lower=True)` -/
def instantiateE (L : Lang) (kv kc : Nat) (fuel : Nat) (σ : Store) (s : Schema) : Except Err (Store × Term) :=
  let base := σ.vars.length
  let σ := allocVars σ s.nvars s.nwild
  match addConstraintsE L kv kc fuel base σ s.constraints with
  | .error e => .error e
  | .ok σ1 => fixE L kv fuel σ1 (spineFollowE kv σ1 (s.body.shift base)) true

/-- `Type.apply(self=f, arg=x, fix)` (type.py:134-157) -/
def applyTE (L : Lang) (kv : Nat) (fuel : Nat) (σ : Store) (f x : Term) (fixFlag : Bool := true) : Except Err (Store × Term) :=
  let f0 := followTE kv σ f
  let x0 := followTE kv σ x
  let pre : Except Err (Store × Term) :=
    match f0 with
    | .var fv =>
      let (σ1, a) := newVar σ
      let (σ2, b) := newVar σ1
      match bindE L kv fuel σ2 fv (.app FUN [.var a, .var b]) with
      | .error e => .error e
      | .ok σ3 => .ok (σ3, followTE kv σ3 (.var fv))
    | t => .ok (σ, t)
  match pre with
  | .error e => .error e
  | .ok (σ, f1) =>
    match f1 with
    | .app o [l, r] =>
      if o == FUN then
        match unifyE L kv fuel σ x0 l true false false with
        | .error e => .error e
        | .ok σ1 =>
          let isFun := match r with
            | .app o' _ => o' == FUN
            | _ => false
          if fixFlag && !isFun then fixE L kv fuel σ1 r true else .ok (σ1, r)
      else if o == TOP then .ok (σ, .app TOP []) else .error .functionApplication
    | .app o _ => if o == TOP then .ok (σ, .app TOP []) else .error .functionApplication
    | .var _ => .error .functionApplication
/-- `f.apply(x₁).apply(x₂)…` with fuel offsets -/
def applyAllE (L : Lang) (kv : Nat) (fuel : Nat) (fixFlag : Bool) : Store → Term → List Term → Except Err (Store × Term)
  | σ, f, [] => .ok (σ, f)
  | σ, f, x :: xs =>
    match applyTE L kv fuel σ f x fixFlag with
    | .error e => .error e
    | .ok (σ1, r) => applyAllE L kv fuel fixFlag σ1 r xs

/-- one use of a definition, every store-size fuel computed as behind `kv` more variables and `kc` more constraints -/
def useSchemaE (L : Lang) (kv kc : Nat) (fuel : Nat) (fixFlag : Bool) (σ : Store) (s : Schema) (xs : List Term) :
    Except Err (Store × Term) :=
  match instantiateE L kv kc fuel σ s with
  | .error e => .error e
  | .ok (σ1, f) => applyAllE L kv fuel fixFlag σ1 f xs

end Tfv
