"""Seeded generators for languages and concrete types, as *data*.

A language is a list of operator declarations (name, variance, parent index);
indices 0-4 are the builtins Unit, Top, Bottom, Product, Function.  A concrete
type is a nested tuple (o, (arg, ...)).  Both are rendered to real transforge
objects and to protocol lines, so that model and implementation receive the
same thing by construction.
"""
from __future__ import annotations
import random
from dataclasses import dataclass, field

UNIT, TOP, BOT, PROD, FUN = 0, 1, 2, 3, 4
BUILTIN_DECLS = [("Unit", [], None), ("Top", [], None), ("Bottom", [], None),
    ("Product", [True, True], None), ("Function", [False, True], None)]

BASE_NAMES = ["A", "B", "C", "D", "E", "H", "I", "J", "K", "M", "N", "P"]
OP_NAMES = ["F", "G", "R", "S"]


@dataclass
class LangSpec:
    decls: list  # (name, variance list[bool], parent index | None)

    def arity(self, o):
        return len(self.decls[o][1])

    def variance(self, o):
        return self.decls[o][1]

    def parent(self, o):
        return self.decls[o][2]

    def name(self, o):
        return self.decls[o][0]

    def bases(self, builtin=False):
        return [i for i, d in enumerate(self.decls) if not d[1] and (builtin or i >= 5)]

    def compounds(self, builtin=True):
        return [i for i, d in enumerate(self.decls) if d[1] and (builtin or i >= 5)]

    def ancestors(self, o):
        out = []
        while self.parent(o) is not None:
            o = self.parent(o)
            out.append(o)
        return out

    def descendants(self, o):
        out = []
        for i in range(len(self.decls)):
            if o in self.ancestors(i):
                out.append(i)
        return out

    def sexp(self):
        parts = []
        for name, var, par in self.decls:
            v = " ".join("+" if x else "-" for x in var)
            parts.append(f"({name} ({v}) {'-' if par is None else par})")
        return "(lang " + " ".join(parts) + ")"

    def build(self):
        """Real transforge objects for this language: list of TypeOperator."""
        from transforge import type as T
        ops = [T.Unit, T.Top, T.Bottom, T.Product, T.Function]
        for name, var, par in self.decls[5:]:
            if var:
                ops.append(T.TypeOperator(name, params=[T.Variance.CO if v else T.Variance.CONTRA for v in var]))
            else:
                ops.append(T.TypeOperator(name, supertype=ops[par] if par is not None else None))
        return ops

    def to_json(self):
        return [[n, v, p] for n, v, p in self.decls]


def gen_lang(rng: random.Random, max_base=8, max_ops=3, max_arity=3, max_depth=4) -> LangSpec:
    decls = list(BUILTIN_DECLS)
    nbase = rng.randint(1, max_base)
    depth = {}
    for i in range(nbase):
        idx = len(decls)
        cands = [j for j in range(5, idx) if not decls[j][1] and depth[j] < max_depth - 1]
        if cands and rng.random() < 0.7:
            p = rng.choice(cands)
            depth[idx] = depth[p] + 1
        else:
            p = None
            depth[idx] = 0
        decls.append((BASE_NAMES[i], [], p))
    # compound operators interleaved after bases (order is irrelevant to parents)
    for k in range(rng.randint(0, max_ops)):
        ar = rng.randint(1, max_arity)
        decls.append((OP_NAMES[k], [rng.random() < 0.65 for _ in range(ar)], None))
    return LangSpec(decls)


def ty_sexp(t) -> str:
    o, args = t
    if not args:
        return f"({o})"
    return "(" + str(o) + " " + " ".join(ty_sexp(a) for a in args) + ")"


def ty_py(t, ops):
    o, args = t
    return ops[o](*(ty_py(a, ops) for a in args))


def ty_depth(t):
    return 0 if not t[1] else 1 + max(ty_depth(a) for a in t[1])


def ty_str(t, spec: LangSpec) -> str:
    o, args = t
    if not args:
        return spec.name(o)
    return spec.name(o) + "(" + ", ".join(ty_str(a, spec) for a in args) + ")"


def ty_text(t, spec: LangSpec) -> str:
    """type text that Language.parse_type accepts (products as `(a * b)`; no functions)"""
    o, args = t
    if o == PROD:
        return "(" + ty_text(args[0], spec) + " * " + ty_text(args[1], spec) + ")"
    if not args:
        return spec.name(o)
    return spec.name(o) + "(" + ", ".join(ty_text(a, spec) for a in args) + ")"


def gen_ty(rng, spec: LangSpec, depth: int, p_special=0.12, allow_fun=True, allow_prod=True):
    """random well-formed concrete type of nesting <= depth"""
    comps = spec.compounds()
    if not allow_fun:
        comps = [c for c in comps if c != FUN]
    if not allow_prod:
        comps = [c for c in comps if c != PROD]
    if depth > 0 and comps and rng.random() < 0.6:
        o = rng.choice(comps)
        return (o, tuple(gen_ty(rng, spec, depth - 1, p_special, allow_fun, allow_prod) for _ in range(spec.arity(o))))
    r = rng.random()
    if r < p_special:
        return (rng.choice([TOP, BOT, UNIT]), ())
    bases = spec.bases()
    return (rng.choice(bases), ()) if bases else (UNIT, ())


def perturb(rng, spec: LangSpec, t, up: bool, p=0.5, wrong=0.1):
    """Walk the hierarchy: produce a type related to `t` (a supertype when
    `up`, a subtype otherwise), occasionally breaking variance on purpose."""
    o, args = t
    if rng.random() < 0.06:
        return (TOP, ()) if up else (BOT, ())
    if not args:
        if o in (TOP, BOT, UNIT) or rng.random() > p:
            return t
        if rng.random() < wrong:
            up = not up
        cands = spec.ancestors(o) if up else spec.descendants(o)
        return (rng.choice(cands), ()) if cands else t
    var = spec.variance(o)
    new = []
    for v, a in zip(var, args):
        d = up if v else not up
        if rng.random() < wrong:
            d = not d
        new.append(perturb(rng, spec, a, d, p, wrong))
    return (o, tuple(new))


def build_language(spec: LangSpec, ops, canon=None, include_top=False, include_bottom=False,
        operators=None, aliases=None, namespace=None):
    """A real transforge.Language over the operators `ops` (built by spec.build()).
    canon: list of type data (tuples) or None for the default canon."""
    from transforge.lang import Language
    from transforge import type as T
    scope = {spec.name(i): ops[i] for i in range(5, len(spec.decls))}
    if operators:
        scope.update(operators)
    if aliases:
        scope.update(aliases)
    kw = {}
    if namespace is not None:
        kw["namespace"] = namespace
    if canon is None and not include_top and not include_bottom:
        return Language(scope=scope, **kw)
    c = []
    if include_top:
        c.append(T.Top)
    if include_bottom:
        c.append(T.Bottom)
    for t in canon or []:
        if not t[1]:
            c.append(ops[t[0]])
        else:
            c.append(ty_py(t, ops))
    return Language(scope=scope, canon=c, **kw)


def gen_canon(rng, spec: LangSpec, max_items=4, depth=2):
    """canon specification: root and non-root base types and nested compound types (no functions)"""
    items = []
    bases = spec.bases()
    for _ in range(rng.randint(1, max_items)):
        if rng.random() < 0.5 and bases:
            items.append((rng.choice(bases), ()))
        else:
            t = gen_ty(rng, spec, rng.randint(1, depth), p_special=0.0, allow_fun=False)
            items.append(t)
    return items


def closure_estimate(spec: LangSpec, t, up=True):
    """upper bound on the number of types `Language.expand_canon` reaches from `t` in one direction (with Top/Bottom included):
    the library enumerates every combination of sub/supertypes of the parameters, so the closure of a type nested three deep with
    parameters of arity 2-3 can run to millions of types and minutes of construction - nothing a property is stated about"""
    o, args = t
    if not args:
        return len(spec.ancestors(o) if up else spec.descendants(o)) + 2
    n = 1
    for a, co in zip(args, spec.variance(o)):
        n *= closure_estimate(spec, a, up if co else not up) + 1
    return n + 1


def bound_canon(spec: LangSpec, canon, limit=20000):
    """drop the listed types whose closure estimate (either direction) exceeds `limit` (deterministic; keeps at least the base types)"""
    kept = [t for t in canon if max(closure_estimate(spec, t, True), closure_estimate(spec, t, False)) <= limit]
    return kept or [t for t in canon if not t[1]] or [(spec.bases()[0], ())]


def py_to_data(t, ops):
    """concrete transforge type -> data tuple"""
    t = t.follow()
    o = next(i for i, op in enumerate(ops) if op is t.operator)
    return (o, tuple(py_to_data(p, ops) for p in t.params))


def str_sexp(s: str) -> str:
    return "(s" + "".join(f" {ord(c)}" for c in s) + ")"
