import Tfv.Proofs.GraphOrder
/-!
# The `subtypeOf` annotations of a node: its own type node and the type nodes of the reported supertypes
-/
namespace Tfv
open Tfv.Tax

theorem supStep_spec {G : GLang} {c : GCfg} {root : Node} {cur : Nat} {g : GState} {s : Ty} {g' : GState}
    (h : supStep G c root cur g s = .ok g') :
    ∃ g1 sn, addType G c typeFuel g s.toTerm = .ok (g1, sn) ∧ g' = emitSup c root cur g1 sn := by
  unfold supStep at h
  split at h
  · cases h
  · rename_i g1 sn h1
    simp only [Except.ok.injEq] at h
    exact ⟨g1, sn, h1, h.symm⟩

theorem emitSup_step (c : GCfg) (root : Node) (cur : Nat) (g : GState) (sn : Node) :
    TStep (AnnPred root cur) AnyQ g (emitSup c root cur g sn) := by
  unfold emitSup
  exact .trans (.iteAdd _ _ _ (.inr (.inr ⟨rfl, rfl⟩))) (.iteAdd _ _ _ (.inr (.inl ⟨rfl, .inr rfl⟩)))

theorem emitOwn_step (G : GLang) (c : GCfg) (root : Node) (cur : Nat) (ty : Term) (g : GState) (tn : Node) :
    TStep (AnnPred root cur) AnyQ g (emitOwn G c root cur ty g tn) := by
  unfold emitOwn
  exact .trans (.add _ _ (.inr (.inl ⟨rfl, .inl rfl⟩)))
    (.trans (.iteAdd _ _ _ (.inr (.inl ⟨rfl, .inr rfl⟩))) (.iteAdd _ _ _ (.inr (.inr ⟨rfl, rfl⟩))))

theorem not_typePred_subtypeOf (a o : Node) : ¬ TypePred (a, Node.tf "subtypeOf", o) := fun h => h "subtypeOf" rfl

/-- `addType` adds no `subtypeOf` triple -/
theorem addType_subtypeOf {G : GLang} {c : GCfg} {n : Nat} {g : GState} {t : Term} {g1 : GState} {node : Node}
    (h : addType G c n g t = .ok (g1, node)) {a o : Node} (hm : (a, Node.tf "subtypeOf", o) ∈ g1.triples) :
    (a, Node.tf "subtypeOf", o) ∈ g.triples := by
  rcases (addType_step G c n g t g1 node h).new_triples _ hm with h | h
  · exact h
  · exact absurd h (not_typePred_subtypeOf a o)

/-- what the supertype loop leaves behind -/
structure SupFoldSpec (c : GCfg) (root : Node) (cur : Nat) (sups : List Ty) (g g' : GState) : Prop where
  step : TStep (AnnPred root cur) AnyQ g g'
  each : ∀ s ∈ sups, ∃ sn, lookupType g'.typeNodes s.toTerm = some sn ∧
    (c.withSupertypes = true → (Node.b cur, Node.tf "subtypeOf", sn) ∈ g'.triples) ∧
    (c.withMembershipSupertypes = true → (root, Node.tf "containsType", sn) ∈ g'.triples)
  only : ∀ o, (Node.b cur, Node.tf "subtypeOf", o) ∈ g'.triples →
    (Node.b cur, Node.tf "subtypeOf", o) ∈ g.triples ∨ ∃ s ∈ sups, lookupType g'.typeNodes s.toTerm = some o

theorem supFold_spec (G : GLang) (c : GCfg) (root : Node) (cur : Nat) : ∀ (sups : List Ty) (g g' : GState),
    sups.foldlM (supStep G c root cur) g = .ok g' → SupFoldSpec c root cur sups g g' := by
  intro sups
  induction sups with
  | nil =>
    intro g g' h
    simp only [List.foldlM_nil, pure, Except.pure, Except.ok.injEq] at h
    subst h
    exact ⟨.refl g, by simp, fun o h => .inl h⟩
  | cons s sups ih =>
    intro g g' h
    simp only [List.foldlM_cons] at h
    cases hx : supStep G c root cur g s with
    | error e => rw [hx] at h; cases h
    | ok ga =>
      rw [hx] at h
      obtain ⟨g1, sn, h1, rfl⟩ := supStep_spec hx
      obtain ⟨st, each, only⟩ := ih _ g' h
      have s1 : TStep (AnnPred root cur) AnyQ g g1 :=
        (addType_step G c _ _ _ _ _ h1).mono (fun _ h => .inl h) (fun _ _ => trivial)
      have hl1 : lookupType (emitSup c root cur g1 sn).typeNodes s.toTerm = some sn := by
        rw [(emitSup_sameBut c root cur g1 sn).typeNodes]
        exact addType_memo G c _ g _ g1 sn h1
      refine ⟨.trans s1 (.trans (emitSup_step c root cur g1 sn) st), ?_, ?_⟩
      · intro s' hs'
        rcases List.mem_cons.1 hs' with rfl | hs'
        · refine ⟨sn, st.lookup_stable hl1, ?_, ?_⟩
          · intro hc
            exact st.triples_mono _ (mem_emitSup.2 (.inr (.inr ⟨hc, rfl⟩)))
          · intro hc
            exact st.triples_mono _ (mem_emitSup.2 (.inr (.inl ⟨hc, rfl⟩)))
        · exact each s' hs'
      · intro o ho
        rcases only o ho with ho | ⟨s', hs', hl⟩
        · rcases mem_emitSup.1 ho with ho | ⟨_, he⟩ | ⟨_, he⟩
          · exact .inl (addType_subtypeOf h1 ho)
          · simp only [Prod.mk.injEq, Node.tf.injEq] at he
            exact absurd he.2.1 (by decide)
          · simp only [Prod.mk.injEq, true_and] at he
            subst he
            exact .inr ⟨s, List.mem_cons_self, st.lookup_stable hl1⟩
        · exact .inr ⟨s', List.mem_cons_of_mem _ hs', hl⟩

/-- what `annotateType` leaves behind for a node with a canonical type (`with_supertypes` on) -/
structure AnnotateSpec (root : Node) (cur : Nat) (ty : Term) (sups : List Ty) (g g' : GState) : Prop where
  step : TStep (AnnPred root cur) AnyQ g g'
  own : ∃ tn, lookupType g'.typeNodes ty = some tn ∧ (Node.b cur, Node.tf "type", tn) ∈ g'.triples ∧
    (Node.b cur, Node.tf "subtypeOf", tn) ∈ g'.triples
  each : ∀ s ∈ sups, ∃ sn, lookupType g'.typeNodes s.toTerm = some sn ∧
    (Node.b cur, Node.tf "subtypeOf", sn) ∈ g'.triples
  only : ∀ o, (Node.b cur, Node.tf "subtypeOf", o) ∈ g'.triples →
    (Node.b cur, Node.tf "subtypeOf", o) ∈ g.triples ∨ lookupType g'.typeNodes ty = some o ∨
      ∃ s ∈ sups, lookupType g'.typeNodes s.toTerm = some o

theorem inCanon_var (G : GLang) (v : Nat) : inCanon G (.var v) = false := by
  unfold inCanon
  rw [Term.isClosed, Bool.false_and]

theorem annotateTypeWith_spec (G : GLang) (c : GCfg) (g : GState) (root : Node) (cur : Nat) (ty : Term)
    (sups : List Ty) (g' : GState) (hS : c.withSupertypes = true) (hC : inCanon G ty = true)
    (h : annotateTypeWith G c g root cur ty sups = .ok g') : AnnotateSpec root cur ty sups g g' := by
  unfold annotateTypeWith at h
  cases ha : addType G c typeFuel g ty with
  | error e => rw [ha] at h; cases h
  | ok r =>
    obtain ⟨ga, tn⟩ := r
    rw [ha] at h
    simp only [] at h
    cases ty with
    | var v => rw [inCanon_var] at hC; cases hC
    | app o args =>
      simp only [Option.getD_none] at h
      rw [if_pos hC] at h
      obtain ⟨st, each, only⟩ := supFold_spec G c root cur sups _ g' h
      have s1 : TStep (AnnPred root cur) AnyQ g ga :=
        (addType_step G c _ _ _ _ _ ha).mono (fun _ h => .inl h) (fun _ _ => trivial)
      have hl1 : lookupType (emitOwn G c root cur (.app o args) ga tn).typeNodes (.app o args) = some tn := by
        rw [(emitOwn_sameBut G c root cur _ ga tn).typeNodes]
        exact addType_memo G c _ g _ ga tn ha
      refine ⟨.trans s1 (.trans (emitOwn_step G c root cur _ ga tn) st), ⟨tn, st.lookup_stable hl1, ?_, ?_⟩, ?_, ?_⟩
      · exact st.triples_mono _ (mem_emitOwn.2 (.inr (.inl rfl)))
      · exact st.triples_mono _ (mem_emitOwn.2 (.inr (.inr (.inl ⟨by rw [hS, hC]; rfl, rfl⟩))))
      · intro s hs
        obtain ⟨sn, a, b, _⟩ := each s hs
        exact ⟨sn, a, b hS⟩
      · intro x hx
        rcases only x hx with hx | hx
        · rcases mem_emitOwn.1 hx with hx | he | ⟨_, he⟩ | ⟨_, he⟩
          · exact .inl (addType_subtypeOf ha hx)
          · simp only [Prod.mk.injEq, Node.tf.injEq] at he
            exact absurd he.2.1 (by decide)
          · simp only [Prod.mk.injEq, true_and] at he
            subst he
            exact .inr (.inl (st.lookup_stable hl1))
          · simp only [Prod.mk.injEq, Node.tf.injEq] at he
            exact absurd he.2.1 (by decide)
        · exact .inr (.inr hx)

theorem annotateType_spec (G : GLang) (c : GCfg) (g : GState) (root : Node) (cur : Nat) (ty : Term) (mf : Bool)
    (g' : GState) (hS : c.withSupertypes = true) (hC : inCanon G ty = true)
    (h : annotateType G c g root cur ty mf = .ok g') : AnnotateSpec root cur ty (supsOf G ty) g g' := by
  rw [annotateType_eq] at h
  exact annotateTypeWith_spec G c g root cur ty _ g' hS hC h

theorem mem_supsOf_toTerm (G : GLang) (t s : Ty) :
    s ∈ supsOf G t.toTerm ↔ s ∈ langSucc G.types G.cfg G.canon (G.canon.length + 2) true t true := by
  unfold supsOf
  rw [mem_dedupTy, generalize_toTerm]

/-- `annotateType_spec` for a concrete type, with the list of supertypes spelled out -/
theorem annotateType_subtypeOf_spec (G : GLang) (c : GCfg) (g : GState) (root : Node) (cur : Nat) (t : Ty)
    (mf : Bool) (g' : GState) (hS : c.withSupertypes = true) (hC : inCanon G t.toTerm = true)
    (h : annotateType G c g root cur t.toTerm mf = .ok g') :
    (∃ tn, lookupType g'.typeNodes t.toTerm = some tn ∧ (Node.b cur, Node.tf "type", tn) ∈ g'.triples ∧
      (Node.b cur, Node.tf "subtypeOf", tn) ∈ g'.triples) ∧
    (∀ s ∈ langSucc G.types G.cfg G.canon (G.canon.length + 2) true t true,
      ∃ sn, lookupType g'.typeNodes s.toTerm = some sn ∧ (Node.b cur, Node.tf "subtypeOf", sn) ∈ g'.triples) ∧
    (∀ o, (Node.b cur, Node.tf "subtypeOf", o) ∈ g'.triples →
      (Node.b cur, Node.tf "subtypeOf", o) ∈ g.triples ∨ lookupType g'.typeNodes t.toTerm = some o ∨
        ∃ s ∈ langSucc G.types G.cfg G.canon (G.canon.length + 2) true t true,
          lookupType g'.typeNodes s.toTerm = some o) := by
  have sp := annotateType_spec G c g root cur t.toTerm mf g' hS hC h
  refine ⟨sp.own, fun s hs => sp.each s ((mem_supsOf_toTerm G t s).2 hs), fun o ho => ?_⟩
  rcases sp.only o ho with h | h | ⟨s, hs, h⟩
  · exact .inl h
  · exact .inr (.inl h)
  · exact .inr (.inr ⟨s, (mem_supsOf_toTerm G t s).1 hs, h⟩)

/-- in a graph extending the initial one the registered node of a canonical type is its URI -/
theorem lookup_canonical_ext (G : GLang) (c : GCfg) (hc : c.withCanonicalTypes = false) (g : GState)
    (l : List (Term × Node)) (hg : g.typeNodes = (initGraph G c).typeNodes ++ l) (s : Ty)
    (h : memTy s G.canon = true) : ∃ uri, typeUri G s.toTerm = .ok uri ∧ lookupType g.typeNodes s.toTerm = some uri := by
  obtain ⟨uri, hu⟩ := typeUri_canonical G s h
  exact ⟨uri, hu, by rw [hg]; exact lookupType_append_some (initGraph_lookup G c hc s h uri hu)⟩

/-- **the `subtypeOf` objects of a node with a canonical type**, default node table: exactly the URIs of the type
itself and of the reported (transitive) canonical supertypes -/
theorem annotateType_subtypeOf_exact (G : GLang) (c : GCfg) (hcT : c.withCanonicalTypes = false)
    (hS : c.withSupertypes = true) (g : GState) (l : List (Term × Node))
    (hg : g.typeNodes = (initGraph G c).typeNodes ++ l) (root : Node) (cur : Nat) (t : Ty)
    (hC : memTy t G.canon = true) (mf : Bool) (g' : GState)
    (h : annotateType G c g root cur t.toTerm mf = .ok g') (o : Node) :
    (Node.b cur, Node.tf "subtypeOf", o) ∈ g'.triples ↔
      ((Node.b cur, Node.tf "subtypeOf", o) ∈ g.triples ∨
        ∃ s, (s = t ∨ s ∈ langSucc G.types G.cfg G.canon (G.canon.length + 2) true t true) ∧
          typeUri G s.toTerm = .ok o) := by
  obtain ⟨st, own, each, only⟩ := annotateType_spec G c g root cur t.toTerm mf g' hS
    (by rw [inCanon_toTerm]; exact hC) h
  obtain ⟨l', hl', _⟩ := st.typeNodes_ext
  have hg' : g'.typeNodes = (initGraph G c).typeNodes ++ (l ++ l') := by
    rw [hl', hg, List.append_assoc]
  have key : ∀ s, memTy s G.canon = true → ∀ n, lookupType g'.typeNodes s.toTerm = some n →
      typeUri G s.toTerm = .ok n := by
    intro s hs n hn
    obtain ⟨uri, hu, hl⟩ := lookup_canonical_ext G c hcT g' _ hg' s hs
    rw [hl] at hn
    cases hn
    exact hu
  constructor
  · intro ho
    rcases only o ho with ho | ho | ⟨s, hs, ho⟩
    · exact .inl ho
    · exact .inr ⟨t, .inl rfl, key t hC o ho⟩
    · exact .inr ⟨s, .inr ((mem_supsOf_toTerm G t s).1 hs), key s (supsOf_canon G _ s hs) o ho⟩
  · rintro (ho | ⟨s, rfl | hs, hu⟩)
    · exact st.triples_mono _ ho
    · obtain ⟨tn, hl, _, htr⟩ := own
      have := key s hC tn hl
      rw [hu] at this
      cases this
      exact htr
    · have hs' := (mem_supsOf_toTerm G t s).2 hs
      obtain ⟨sn, hl, htr⟩ := each s hs'
      have := key s (supsOf_canon G _ s hs') sn hl
      rw [hu] at this
      cases this
      exact htr

end Tfv
