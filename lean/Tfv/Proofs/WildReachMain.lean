import Tfv.Proofs.WildReachFulfill
import Tfv.Proofs.WildReachDeep
import Tfv.Proofs.WildReachExt
/-!
# The certificate on reachable stores: the end-to-end statement, as far as it is proved

`reach_cert_partial`: for a run `instantiate` + `applyAll` from the empty store the certificate of the final store follows
from the certificate after `instantiate`, stability (`Ext` through the engine: WildReachExt.lean; the depth proviso `ReflD` stays), and the statement that marks set during `applyAll` pass the strict matcher.
Executable forms of the side conditions and kernel-evaluated runs for the examples.
-/
namespace Tfv.C03X
open Tfv Tfv.C03P Tfv.C03C Tfv.C03R Tfv.C16P Tfv.C17E Tfv.C18P

theorem reach_cert_partial {L : Lang} {n : Nat} {fixFlag : Bool} {s : Schema} {xs : List Term} {σ σ' : Store}
    {f r : Term} {k d : Nat} (hi : instantiate L n {} s = .ok (σ, f))
    (ha : applyAll L n fixFlag σ f xs = .ok (σ', r))
    (cert0 : subsStrictAt L σ k = true) (hr : ReflD L (dewild σ') true d)
    (hfuel : k + d ≤ matchFuel σ')
    (hnew : ∀ c r t s, c < σ'.constrs.length → getConstr σ' c = .sub r t s true →
      (c < σ.constrs.length ∧ getConstr σ c = .sub r t s true) ∨
      match3 L (dewild σ') (matchFuel σ') true false r t = some true) :
    subsStrictB L σ' = true := by
  have c1 : Chains σ := (instantiate_good L n s chains_empty).chains hi
  have c2 : Chains σ' := ((applyAll_good L n fixFlag xs σ f c1).step ha).ch
  rw [← subsStrictAt_matchFuel]
  exact cert_step cert0 (applyAll_keeps_bindings ha) c2 hr hfuel hnew

/-- a constraint that passes the strict matcher before a chain of applications passes it afterwards -/
theorem applyAll_strict_stable {L : Lang} {fuel : Nat} {fixFlag : Bool} {xs : List Term} {σ σ' : Store} {f r : Term}
    {st : Bool} {d n m : Nat} (hc : Chains σ) (h : applyAll L fuel fixFlag σ f xs = .ok (σ', r))
    (hr : ReflD L (dewild σ') st d) (hfuel : n + d ≤ m) (a b : Term)
    (hm : match3 L (dewild σ) n st false a b = some true) :
    match3 L (dewild σ') m st false a b = some true :=
  strict_stable (applyAll_keeps_bindings h) ((applyAll_good L fuel fixFlag xs σ f hc).step h).ch hr hfuel a b hm

theorem wildLe1_mono {σ σ' : Store} (hw : WildMono σ σ') (h : WildLe1 σ) : WildLe1 σ' :=
  fun u v hu hv => h u v (hw u hu) (hw v hv)

/-- executable form of `WildLe1` -/
def wildLe1B' (σ : Store) : Bool :=
  (List.range σ.vars.length).all (fun u => (List.range σ.vars.length).all (fun v =>
    !((getVar σ u).wildcard && (getVar σ v).wildcard) || u == v))

theorem wildLe1B'_sound {σ : Store} (h : wildLe1B' σ = true) : WildLe1 σ := by
  intro u v hu hv
  have lu : u < σ.vars.length := by
    apply Classical.byContradiction; intro hn
    rw [getVar_ge (Nat.le_of_not_lt hn)] at hu; cases hu
  have lv : v < σ.vars.length := by
    apply Classical.byContradiction; intro hn
    rw [getVar_ge (Nat.le_of_not_lt hn)] at hv; cases hv
  have := List.all_eq_true.mp (List.all_eq_true.mp h u (List.mem_range.mpr lu)) v (List.mem_range.mpr lv)
  rw [hu, hv] at this
  simpa using this

/-- `reflDB` over the kernel matcher -/
def reflDK (L : Lang) (σ : Store) (st : Bool) (d : Nat) : Bool :=
  (List.range σ.vars.length).all (fun v => match3K L σ (d+1) st false (.var v) (.var v) == some true)

theorem reflDK_eq (L : Lang) (σ : Store) (st : Bool) (d : Nat) : reflDK L σ st d = reflDB L σ st d := by
  unfold reflDK reflDB
  simp only [match3K_eq]

theorem reflDK_sound {L : Lang} {σ : Store} {st : Bool} {d : Nat} (h : reflDK L σ st d = true) : ReflD L σ st d :=
  reflDB_sound (by rw [← reflDK_eq]; exact h)

/-- `subsStrictAt` over the kernel matcher -/
def certAtK (L : Lang) (σ : Store) (n : Nat) : Bool :=
  (List.range σ.constrs.length).all (fun c => match getConstr σ c with
    | .sub r t _ true => match3K L (dewild σ) n true false r t == some true
    | _ => true)

theorem certAtK_eq (L : Lang) (σ : Store) (n : Nat) : certAtK L σ n = subsStrictAt L σ n := by
  unfold certAtK subsStrictAt
  simp only [match3K_eq]
  rfl

/-- all variables unbound -/
def unboundB (σ : Store) : Bool := (List.range σ.vars.length).all (fun v => (getVar σ v).bound.isNone)

theorem unboundB_sound {σ : Store} (h : unboundB σ = true) (v : Nat) : (getVar σ v).bound = none := by
  by_cases hv : v < σ.vars.length
  · have := List.all_eq_true.mp h v (List.mem_range.mpr hv)
    simpa using this
  · rw [getVar_ge (Nat.le_of_not_lt hv)]

/-- `(x ** x)[x ≤ x]` applied to `F(F(F(A)))`: after `instantiate` one unbound variable and the certificate (already with fuel 1); at the end the
certificate, bindings three operators deep, at least one variable -/
theorem run_refl_3 : runChk2 exL 400 sRefl [deepT 3 (.app 5 [])]
    (fun σ => certAtK exL σ 1 && unboundB σ && decide (σ.vars.length = 1) && decide (0 < fulSubs σ))
    (fun σ => certK exL σ && reflDK exL (dewild σ) true 3 && decide (1 ≤ σ.vars.length)) = true := by
  decide +kernel

/-- the store after `wS1` applied to `F(_)`, `F(G(_))` (the skeleton-branch run of C03Wild): one flagged variable left -/
def oneWildLeft (r : Except Err (Store × Term)) : Bool :=
  match r with
  | .ok (σ, _) => wildLe1B' σ && decide (0 < liveWilds σ) && decide (0 < fulSubs σ)
  | .error _ => false

theorem wrun_ex1_oneWild : oneWildLeft (wrun wL 60 wS1 [wArgF, wArgFG]) = true := by
  rw [wrun_eq_K]; decide +kernel

end Tfv.C03X
