import Tfv.Proofs.FitsApplyBaseOwn5
/-!
# C06 end to end, alternatives with their own variables, part 6: the clauses
-/
namespace Tfv.C06B
open Tfv Tfv.C03P Tfv.C03C Tfv.C16P Tfv.C17E Tfv.C03R Tfv.C06A Tfv.C05P

theorem lt_of_arity_ne_zero {L : Lang} {o : Nat} (h : arityOf L o ≠ 0) : o < L.length := by
  by_cases hlt : o < L.length
  · exact hlt
  · exfalso; apply h
    unfold arityOf varianceOf
    rw [List.getElem?_eq_none (by omega)]; rfl

theorem wfTm_P1 {L : Lang} {o1 : Nat} (h : arityOf L o1 = 1) : wfTm L (P1 o1) = true := by
  have := lt_of_arity_ne_zero (L := L) (o := o1) (by rw [h]; decide)
  simp [P1, wfTm, wfTmL, h, this]

theorem wfTm_P2 {L : Lang} {o2 : Nat} (h : arityOf L o2 = 2) : wfTm L (P2 o2) = true := by
  have := lt_of_arity_ne_zero (L := L) (o := o2) (by rw [h]; decide)
  simp [P2, wfTm, wfTmL, h, this]

theorem linear_P1 (o1 : Nat) : linear (P1 o1) := by
  unfold linear; simp [P1, Term.vars, Term.varsL]
theorem linear_P2 (o2 : Nat) : linear (P2 o2) := by
  unfold linear; simp [P2, Term.vars, Term.varsL]

/-- the argument fits `F(b)` iff its head is `F`; it fits `G(c, d)` iff its head is `G` -/
theorem fits_P1_iff {L : Lang} (wf : WF L) {o1 o2 : Nat} (ops : OwnOps L o1 o2) {ao : Nat} {as : List Ty}
    (h0 : arityOf L ao ≠ 0) (hw : wfTy L (.app ao as) = true) : Fits L (.app ao as) (P1 o1) ↔ ao = o1 := by
  rw [← fits_iff wf _ _ hw (wfTm_P1 ops.a1) (linear_P1 o1), P1_eq,
    fitsB_flat wf ao as o1 1 1 h0 (by rw [ops.a1]; decide)]
  simp

theorem fits_P2_iff {L : Lang} (wf : WF L) {o1 o2 : Nat} (ops : OwnOps L o1 o2) {ao : Nat} {as : List Ty}
    (h0 : arityOf L ao ≠ 0) (hw : wfTy L (.app ao as) = true) : Fits L (.app ao as) (P2 o2) ↔ ao = o2 := by
  rw [← fits_iff wf _ _ hw (wfTm_P2 ops.a2) (linear_P2 o2), P2_eq,
    fitsB_flat wf ao as o2 2 2 h0 (by rw [ops.a2]; decide)]
  simp

theorem ownAfter_ok_iff (L : Lang) (o1 o2 ao : Nat) (as : List Ty) :
    (∃ σ1, ownAfter L o1 o2 (.app ao as) = .ok σ1) ↔ (ao = o1 ∨ ao = o2) := by
  rw [ownAfter]
  by_cases c1 : ao = o1
  · simp [c1]
  · by_cases c2 : ao = o2
    · subst c2; simp [c1]
    · simp [c1, c2]

theorem own_accept_iff_head {L : Lang} (wf : WF L) (o1 o2 : Nat) (ops : OwnOps L o1 o2) (N : Nat) (r : Term) (ao : Nat)
    (as : List Ty) (fixFlag : Bool) (h0 : arityOf L ao ≠ 0) (hw : wfTy L (.app ao as) = true)
    (hda : Ty.depth (.app ao as) < 64) (hr : ∀ v ∈ r.vars, v = 0) (hN : ownFuel r (.app ao as) ≤ N) :
    (∃ σ' res, runAll L N fixFlag (ownSchema r o1 o2) [(Ty.app ao as).toTerm] = .ok (σ', res)) ↔
      (ao = o1 ∨ ao = o2) := by
  rw [runAll_own L wf o1 o2 ops N r ao as fixFlag h0 hw hda hr hN, ← ownAfter_ok_iff L o1 o2 ao as]
  cases ownAfter L o1 o2 (.app ao as) with
  | error e =>
    constructor
    · rintro ⟨_, _, h⟩; cases h
    · rintro ⟨_, h⟩; cases h
  | ok σ1 => exact ⟨fun _ => ⟨σ1, rfl⟩, fun _ => ⟨σ1, _, rfl⟩⟩

theorem own_accept_iff_fit {L : Lang} (wf : WF L) (o1 o2 : Nat) (ops : OwnOps L o1 o2) (N : Nat) (r : Term) (ao : Nat)
    (as : List Ty) (fixFlag : Bool) (h0 : arityOf L ao ≠ 0) (hw : wfTy L (.app ao as) = true)
    (hda : Ty.depth (.app ao as) < 64) (hr : ∀ v ∈ r.vars, v = 0) (hN : ownFuel r (.app ao as) ≤ N) :
    (∃ σ' res, runAll L N fixFlag (ownSchema r o1 o2) [(Ty.app ao as).toTerm] = .ok (σ', res)) ↔
      ∃ p ∈ [P1 o1, P2 o2], Fits L (.app ao as) p := by
  rw [own_accept_iff_head wf o1 o2 ops N r ao as fixFlag h0 hw hda hr hN]
  simp only [List.mem_cons, List.mem_nil_iff, or_false, exists_eq_or_imp, exists_eq_left]
  rw [fits_P1_iff wf ops h0 hw, fits_P2_iff wf ops h0 hw]

theorem own_reject {L : Lang} (wf : WF L) (o1 o2 : Nat) (ops : OwnOps L o1 o2) (N : Nat) (r : Term) (ao : Nat)
    (as : List Ty) (fixFlag : Bool) (h0 : arityOf L ao ≠ 0) (hw : wfTy L (.app ao as) = true)
    (hda : Ty.depth (.app ao as) < 64) (hr : ∀ v ∈ r.vars, v = 0) (hN : ownFuel r (.app ao as) ≤ N)
    (hno : ∀ p ∈ [P1 o1, P2 o2], ¬ Fits L (.app ao as) p) :
    runAll L N fixFlag (ownSchema r o1 o2) [(Ty.app ao as).toTerm] = .error .constraintViolation := by
  have c1 : ao ≠ o1 := fun e => hno (P1 o1) (by simp) ((fits_P1_iff wf ops h0 hw).mpr e)
  have c2 : ao ≠ o2 := fun e => hno (P2 o2) (by simp) ((fits_P2_iff wf ops h0 hw).mpr e)
  rw [runAll_own L wf o1 o2 ops N r ao as fixFlag h0 hw hda hr hN, ownAfter]
  simp [c1, c2]

theorem res_result0 {σ : Store} {a : Ty} (hb : (getVar σ 0).bound = some a.toTerm) (r : Term)
    (hr : ∀ v ∈ r.vars, v = 0) (c : Bool) : Res σ (if c then resTerm σ r else r) (r.inst (fun _ => a)) := by
  have h := res_inst_bound σ a hb r hr
  cases c
  · exact h
  · cases r with
    | var v =>
      simp only [if_true, resTerm]
      have : v = 0 := hr v (by rw [Term.vars]; exact List.mem_singleton.mpr rfl)
      subst this
      rw [followT_bound_toTerm hb, Term.inst]
      exact res_toTerm σ a
    | app o args => exact h

/-- **unique fit, `F(b)`**: the argument is `F(a₁)` -/
theorem own_fit_F {L : Lang} (wf : WF L) (o1 o2 : Nat) (ops : OwnOps L o1 o2) (N : Nat) (r : Term) (a1 : Ty) (v1 : Bool)
    (fixFlag : Bool) (hv : varianceOf L o1 = [v1]) (hw : wfTy L (.app o1 [a1]) = true)
    (hda : Ty.depth (.app o1 [a1]) < 64) (hr : ∀ v ∈ r.vars, v = 0) (hN : ownFuel r (.app o1 [a1]) ≤ N) :
    ∃ σ' res, runAll L N fixFlag (ownSchema r o1 o2) [(Ty.app o1 [a1]).toTerm] = .ok (σ', res) ∧
      (getVar σ' 0).bound = some (Ty.app o1 [a1]).toTerm ∧
      getConstr σ' 0 = .elim (Ty.app o1 [a1]).toTerm [P1 o1] true ∧
      getCset σ' (getVar σ' 0).cset = [] ∧
      getVar σ' 1 = argInfo L v1 a1 1 ∧ getVar σ' 2 = { cset := 2 } ∧ getVar σ' 3 = { cset := 3 } ∧
      Res σ' res (r.inst (fun _ => .app o1 [a1])) := by
  have h0 : arityOf L o1 ≠ 0 := by rw [ops.a1]; decide
  have hrun := runAll_own L wf o1 o2 ops N r o1 [a1] fixFlag h0 hw hda hr hN
  have hafter : ownAfter L o1 o2 (.app o1 [a1]) =
      .ok (setCset (argStep L (σK (.app o1 [a1]) [P1 o1]) v1 a1 1) 0 []) := by
    rw [ownAfter, if_pos rfl, hv]; rfl
  rw [hafter] at hrun
  have hf1 := freshAt_σK (.app o1 [a1]) [P1 o1] 1 (by omega) (by omega)
  have hb : (getVar (setCset (argStep L (σK (.app o1 [a1]) [P1 o1]) v1 a1 1) 0 []) 0).bound =
      some (Ty.app o1 [a1]).toTerm := ownAfter_bound hafter
  refine ⟨_, _, hrun, hb, ?_, ?_, ?_, ?_, ?_, res_result0 hb r hr _⟩
  · show getConstr (argStep L _ v1 a1 1) 0 = _
    rw [getConstr_argStep]; rfl
  · rw [getVar_setCset, getVar_argStep_other v1 a1 (by omega)]
    exact getCset_setCset_same _ (by
      show 0 < (argStep L (σK (.app o1 [a1]) [P1 o1]) v1 a1 1).csets.length
      exact cset_lt (c := 0) (cs := []) (by rw [getCset_argStep_other v1 a1 (by omega)]; rfl))
  · rw [getVar_setCset, getVar_argStep_same v1 a1 hf1]
  · rw [getVar_setCset, getVar_argStep_other v1 a1 (by omega)]; rfl
  · rw [getVar_setCset, getVar_argStep_other v1 a1 (by omega)]; rfl


/-- **unique fit, `G(c, d)`**: the argument is `G(a₁, a₂)` -/
theorem own_fit_G {L : Lang} (wf : WF L) (o1 o2 : Nat) (ops : OwnOps L o1 o2) (N : Nat) (r : Term) (a1 a2 : Ty)
    (v2 v3 : Bool) (fixFlag : Bool) (hv : varianceOf L o2 = [v2, v3]) (hw : wfTy L (.app o2 [a1, a2]) = true)
    (hda : Ty.depth (.app o2 [a1, a2]) < 64) (hr : ∀ v ∈ r.vars, v = 0) (hN : ownFuel r (.app o2 [a1, a2]) ≤ N) :
    ∃ σ' res, runAll L N fixFlag (ownSchema r o1 o2) [(Ty.app o2 [a1, a2]).toTerm] = .ok (σ', res) ∧
      (getVar σ' 0).bound = some (Ty.app o2 [a1, a2]).toTerm ∧
      getConstr σ' 0 = .elim (Ty.app o2 [a1, a2]).toTerm [P2 o2] true ∧
      getCset σ' (getVar σ' 0).cset = [] ∧
      getVar σ' 1 = { cset := 1 } ∧ getVar σ' 2 = argInfo L v2 a1 2 ∧ getVar σ' 3 = argInfo L v3 a2 3 ∧
      Res σ' res (r.inst (fun _ => .app o2 [a1, a2])) := by
  have h0 : arityOf L o2 ≠ 0 := by rw [ops.a2]; decide
  have hrun := runAll_own L wf o1 o2 ops N r o2 [a1, a2] fixFlag h0 hw hda hr hN
  have hafter : ownAfter L o1 o2 (.app o2 [a1, a2]) =
      .ok (setCset (argStep L (argStep L (σK (.app o2 [a1, a2]) [P2 o2]) v2 a1 2) v3 a2 3) 0 []) := by
    rw [ownAfter, if_neg (Ne.symm ops.ne), if_pos rfl, hv]; rfl
  rw [hafter] at hrun
  have hf2 := freshAt_σK (.app o2 [a1, a2]) [P2 o2] 2 (by omega) (by omega)
  have hf3 : FreshAt (argStep L (σK (.app o2 [a1, a2]) [P2 o2]) v2 a1 2) 3 0 :=
    freshAt_argStep v2 a1 (by omega) (freshAt_σK (.app o2 [a1, a2]) [P2 o2] 3 (by omega) (by omega))
  have hb : (getVar (setCset (argStep L (argStep L (σK (.app o2 [a1, a2]) [P2 o2]) v2 a1 2) v3 a2 3) 0 []) 0).bound =
      some (Ty.app o2 [a1, a2]).toTerm := ownAfter_bound hafter
  refine ⟨_, _, hrun, hb, ?_, ?_, ?_, ?_, ?_, res_result0 hb r hr _⟩
  · show getConstr (argStep L _ v3 a2 3) 0 = _
    rw [getConstr_argStep, getConstr_argStep]; rfl
  · rw [getVar_setCset, getVar_argStep_other v3 a2 (by omega), getVar_argStep_other v2 a1 (by omega)]
    exact getCset_setCset_same _ (by
      show 0 < (argStep L (argStep L (σK (.app o2 [a1, a2]) [P2 o2]) v2 a1 2) v3 a2 3).csets.length
      exact cset_lt (c := 0) (cs := []) (by
        rw [getCset_argStep_other v3 a2 (by omega), getCset_argStep_other v2 a1 (by omega)]; rfl))
  · rw [getVar_setCset, getVar_argStep_other v3 a2 (by omega), getVar_argStep_other v2 a1 (by omega)]; rfl
  · rw [getVar_setCset, getVar_argStep_other v3 a2 (by omega), getVar_argStep_same v2 a1 hf2]
  · rw [getVar_setCset, getVar_argStep_same v3 a2 hf3]

end Tfv.C06B
