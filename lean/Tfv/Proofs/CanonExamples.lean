import Tfv.Model
import Tfv.Spec.Sub
import Tfv.Spec.Taxonomy
import Tfv.Proofs.SubOrder
import Tfv.Proofs.Canon
import Tfv.Proofs.CanonComplete
import Tfv.Proofs.CanonClosed
import Tfv.Proofs.CanonLinks
/-!
# Running example for C10: `A > B > C`, a covariant unary `F` and a contravariant unary `G`
-/
namespace Tfv.C10Ex
open Tfv Tfv.Tax

/-- builtins, then `A` (5), `B < A` (6), `C < B` (7), covariant `F` (8) -/
def exL : Lang := builtinDecls ++
  [⟨"A", [], none⟩, ⟨"B", [], some 5⟩, ⟨"C", [], some 6⟩, ⟨"F", [true], none⟩]

theorem exWF : WF exL := wf_of_wfLangB exL (by decide)

def tA : Ty := .app 5 []
def tB : Ty := .app 6 []
def tC : Ty := .app 7 []
def tF (x : Ty) : Ty := .app 8 [x]
def tTop : Ty := .app TOP []
def tBot : Ty := .app BOT []

theorem wf_tFA : wfTy exL (tF tA) = true := by decide
theorem wf_tFC : wfTy exL (tF tC) = true := by decide
theorem wf_tA : wfTy exL tA = true := by decide
theorem wf_tTop : wfTy exL tTop = true := by decide
theorem tb_tFA : tbFree (tF tA) = true := by decide
theorem tb_tFC : tbFree (tF tC) = true := by decide

theorem anc_C_A : Anc exL 7 5 := Anc.step (p := 6) rfl (Anc.step (p := 5) rfl (Anc.refl 5))

theorem sub_FC_FA : Sub exL (tF tC) (tF tA) :=
  Sub.cong (by decide) (SubArgs.co (Sub.base rfl rfl anc_C_A) SubArgs.nil)

/-- canon configuration without `Top`/`Bottom` -/
def cfg0 : CanonCfg := {}
/-- canon configuration with `Top` requested -/
def cfgT : CanonCfg := { includeTop := true }

/-- the canon of `[A, F(A)]`: `{A, F(A), F(B), F(C), B, C}` -/
def canonA : List Ty := mkCanon exL cfg0 [tA, tF tA]

theorem canonA_eq : canonA = [tA, tF tA, tF tB, tF tC, tB, tC] := by rfl

theorem termA : Terminates exL cfg0 canonFuel (initOf [tA, tF tA]) (initOf [tA, tF tA]) := by rfl

theorem termA' : Terminates exL cfg0 canonFuel (initOf [tF tA, tA]) (initOf [tF tA, tA]) := by rfl

theorem closedA : Closed exL cfg0 canonA := (mkCanon_closed termA).2

theorem mem_canonA_FA : tF tA ∈ canonA := (mkCanon_closed termA).1 _ (by simp)

/-- the canon of `[C, F(C)]` with `Top` requested: `{C, F(C), F(Top), Top}` -/
def canonT : List Ty := mkCanon exL cfgT [tC, tF tC]

theorem canonT_eq : canonT = [tC, tF tC, tF tTop, tTop] := by rfl

theorem termT : Terminates exL cfgT canonFuel (initOf [tC, tF tC]) (initOf [tC, tF tC]) := by rfl

theorem linksT_top : langSucc exL cfgT canonT 1 false tTop false = [tF tTop] := by rfl

theorem linksT_ftop : langSucc exL cfgT canonT 1 false (tF tTop) false = [] := by rfl

theorem tC_ne_tTop : tC ≠ tTop := by
  intro e; injection e with e _; simp [TOP] at e

theorem tC_ne_tFTop : tC ≠ tF tTop := by
  intro e; injection e with e _; simp at e

/-- from `Top` the reported direct-subtype links only lead to `F(Top)` -/
theorem reachT {n : Nat} {a x : Ty} (h : Reach (Link exL cfgT canonT n false) a x) :
    (a = tTop ∨ a = tF tTop) → (x = tTop ∨ x = tF tTop) := by
  induction h with
  | refl _ => exact id
  | @step p q r hl _ ih =>
    intro hp
    apply ih
    unfold Link at hl
    cases n with
    | zero => simp [langSucc] at hl
    | succ n =>
      rw [langSucc_fuel] at hl
      rcases hp with rfl | rfl
      · rw [linksT_top] at hl
        exact Or.inr (List.mem_singleton.mp hl)
      · rw [linksT_ftop] at hl
        cases hl

/-- `C` is a canonical strict subtype of the canonical `Top`, but not reachable from it -/
theorem counterexample_reach (n : Nat) :
    tC ∈ canonT ∧ tTop ∈ canonT ∧ Closed exL cfgT canonT ∧ Sub exL tC tTop ∧ tC ≠ tTop ∧
      ¬ Reach (Link exL cfgT canonT n false) tTop tC := by
  refine ⟨by rw [canonT_eq]; simp, by rw [canonT_eq]; simp, (mkCanon_closed termT).2, Sub.top _,
    tC_ne_tTop, ?_⟩
  intro h
  rcases reachT h (Or.inl rfl) with e | e
  · exact tC_ne_tTop e
  · exact tC_ne_tFTop e

/-- with `Top` in `univ`, `Top` is its own "direct subtype": the hypothesis on `univ` is needed -/
theorem univ_needed : succT exL { univ := [TOP] } false tTop = [tTop] := by rfl

end Tfv.C10Ex
