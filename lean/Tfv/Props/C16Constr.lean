import Tfv.Model
import Tfv.Spec.History
import Tfv.Spec.HistoryConstr
import Tfv.Proofs.FrameConstrReach
import Tfv.Proofs.FrameConstrExamples
import Tfv.Proofs.AgreeConstrMain
import Tfv.Proofs.AgreeConstrExamples
/-!
# C16 for the engine WITH pending constraints — using an operator never changes what it means later

`Tfv/Props/C16.lean` proves freshness, frame and history-independence theorems for the constraint-free engine
(`NoConstraints σ`, schemas with `constraints = []`, `skip_basic = skip_wildcard = False`). Here the freshness and
frame theorems are proved for stores that carry pending constraints and for schemas WITH constraints, with
arbitrary flags.

With constraints, binding a variable re-checks the constraints attached to it, which unifies the terms of these
constraints, … : the part of the store an operation on a term `t` may read or write is the closure of the
variables of `t` under bindings AND under the constraint sets attached to reachable variables
(`ReachC σ t v`, Spec/HistoryConstr.lean); the constraint-set objects and constraints of that part are
`ReachCset σ t k`, `ReachConstr σ t c`. A `Region` is any triple of sets (variables, constraint-set ids, constraint
ids) closed in this sense that contains everything not yet allocated (`ClosedC σ R`); `FrC R σ σ'` says `σ'` differs
from `σ` only inside `R`.

What is proved:
1. **Freshness** (`C16c_instantiate_fresh`, no hypothesis on the store): instantiating a schema with constraints
   leaves every existing variable, constraint set and constraint untouched and returns a term over new variables.
2. **Frame** (`C16c_region_frame_*`, `C16c_unify_frame`, `C16c_fix_frame`, `C16c_apply_frame`,
   `C16c_definitions_untouched*`): every function of the engine block, application and instantiation write only
   inside a closed region; on stores satisfying `OkStoreC` the region reachable from the arguments is closed, so
   everything not reachable from them (through bindings and constraints) is exactly as before.
3. **The engine reads only its region; the content of the history is irrelevant** (`C16c_*_reads_only_*`,
   `C16c_history_content_irrelevant*`): run in two stores of the same sizes that agree on a closed region and differ
   arbitrarily elsewhere, every engine function, application, instantiation and whole use of a schema gives the same
   error, or the same result and stores that agree on the region again. In particular instantiating a schema WITH
   constraints behind two arbitrary histories with the same numbers of variables, constraint sets and constraints
   gives the same instance and stores that coincide on everything new.
Not proved: the shift form of history independence (`σ₀.append σ`, C16 §3) for stores with constraints; it is false
in general already without constraints (`C16_history_independent_unify_fails`: fuels depend on the store size), and
`Store.append` drops the constraints of its second argument.
Statements only; proofs in `Tfv/Proofs/FrameConstr*.lean`, `Tfv/Proofs/AgreeConstr*.lean` (namespace `Tfv.C16C`).
-/
namespace Tfv.C16
open Tfv Tfv.C03P Tfv.C03C Tfv.C16P Tfv.C16C

/-! ## 1. freshness -/

/-- Instantiating a schema WITH constraints, in ANY store: (a) every variable of the returned type is new,
(b) every existing variable, (c) every existing constraint-set object and (d) every existing constraint is exactly
as before, and the store grows by at least the schema's variables (re-checking a constraint with `skip_basic` may
allocate further fresh variables). So two instantiations never share a variable, and an instantiation never
changes what an earlier expression means. -/
theorem C16c_instantiate_fresh (L : Lang) (n : Nat) (σ σ' : Store) (s : Schema) (t : Term)
    (hcs : ∀ c, c ∈ s.constraints → okCAstN L (s.nvars + s.nwild) c = true)
    (hbody : okTermN L (s.nvars + s.nwild) s.body = true)
    (h : instantiate L n σ s = .ok (σ', t)) :
    (∀ v, VarIn v t → σ.vars.length ≤ v ∧ v < σ'.vars.length) ∧
    (∀ v, v < σ.vars.length → getVar σ' v = getVar σ v) ∧
    (∀ k, k < σ.csets.length → getCset σ' k = getCset σ k) ∧
    (∀ c, c < σ.constrs.length → getConstr σ' c = getConstr σ c) ∧
    σ.vars.length + s.nvars + s.nwild ≤ σ'.vars.length ∧
    σ.csets.length ≤ σ'.csets.length ∧ σ.constrs.length ≤ σ'.constrs.length :=
  instantiate_freshC hcs hbody h

/-- non-vacuity: `h : x ** x [x ≤ A]` instantiated a second time, behind its first instance (whose constraint is
pending): the new instance is over `x1` with its own constraint; `x0`, its constraint set and constraint are as before -/
example : exSC.constraints = [.sub (.var 0) (.app 5 []) false] ∧
    (∀ c, c ∈ exSC.constraints → okCAstN exL (exSC.nvars + exSC.nwild) c = true) ∧
    okTermN exL (exSC.nvars + exSC.nwild) exSC.body = true ∧
    instantiate exL 11 σC exSC = .ok (σCC, .app FUN [.var 1, .var 1]) ∧
    getCset σC (getVar σC 0).cset = [0] :=
  ⟨rfl, by decide, by decide, exCC_inst, rfl⟩

/-- Two instantiations (of the same or of different schemas, constraints allowed), the second in any store at
least as large as the result of the first, never share a variable. -/
theorem C16c_instantiate_twice_disjoint (L : Lang) (n m : Nat) (σ σ1 σ2 σ3 : Store) (s s' : Schema)
    (t1 t2 : Term)
    (hcs : ∀ c, c ∈ s.constraints → okCAstN L (s.nvars + s.nwild) c = true)
    (hbody : okTermN L (s.nvars + s.nwild) s.body = true)
    (hcs' : ∀ c, c ∈ s'.constraints → okCAstN L (s'.nvars + s'.nwild) c = true)
    (hbody' : okTermN L (s'.nvars + s'.nwild) s'.body = true)
    (h1 : instantiate L n σ s = .ok (σ1, t1)) (hlater : σ1.vars.length ≤ σ2.vars.length)
    (h2 : instantiate L m σ2 s' = .ok (σ3, t2)) : ∀ v, VarIn v t1 → ¬ VarIn v t2 :=
  instantiate_disjointC hcs hbody hcs' hbody' h1 hlater h2

example : instantiate exL 11 {} exSC = .ok (σC, .app FUN [.var 0, .var 0]) ∧
    σC.vars.length ≤ σC.vars.length ∧
    instantiate exL 11 σC exSC = .ok (σCC, .app FUN [.var 1, .var 1]) := ⟨exC_inst, Nat.le_refl _, exCC_inst⟩

/-! ## 2. frame: closed regions -/

/-- The general frame theorem for unification, any flags, no hypothesis on the store: run on terms over a closed
region `R`, `unify` changes nothing outside `R` (variables, constraint sets, constraints), and `R` is closed in
the resulting store again. -/
theorem C16c_region_frame_unify (L : Lang) (n : Nat) (R : Region) (σ σ' : Store) (a b : Term) (st sb sw : Bool)
    (hc : ClosedC σ R) (ha : TermInR σ R.S a) (hb : TermInR σ R.S b)
    (h : unify L n σ a b st sb sw = .ok σ') : FrC R σ σ' :=
  (all_frameC L n).1 R σ a b st sb sw σ' hc ha hb h

/-- the region of two root terms in a store satisfying `OkStoreC` is closed: the hypotheses are satisfiable -/
example : ClosedC σCC (rootsRegion σCC (fun t => t = .app 6 [] ∨ t = .var 0)) ∧
    TermInR σCC (rootsRegion σCC (fun t => t = .app 6 [] ∨ t = .var 0)).S (.var 0) ∧
    unify exL 11 σCC (.app 6 []) (.var 0) true false false = .ok σCC1 :=
  ⟨closedC_roots σCC_okc _, termInR_root (L := exL) (Or.inr rfl) (by decide), exCC_unify⟩

/-- … for re-checking the constraints of a variable of the region (`check_constraints`). -/
theorem C16c_region_frame_check (L : Lang) (n : Nat) (R : Region) (σ σ' : Store) (v : Nat)
    (hc : ClosedC σ R) (hv : InStore σ R.S v) (h : checkConstraints L n σ v = .ok σ') : FrC R σ σ' :=
  (all_frameC L n).2.2.2.2.2.2.2.1 R σ v σ' hc hv h

example : ClosedC σCC1 (rootsRegion σCC1 (fun t => t = .var 0)) ∧
    InStore σCC1 (rootsRegion σCC1 (fun t => t = .var 0)).S 0 ∧ checkConstraints exL 9 σCC1 0 = .ok σCC1 :=
  ⟨closedC_roots (L := exL) (okStoreCB_sound (by decide)) _,
   ⟨Or.inl ⟨_, rfl, ReachC.here VarIn.var⟩, by decide⟩, exCC_check 5⟩

/-- … for `Constraint.fulfill()` of a constraint of the region. -/
theorem C16c_region_frame_fulfill (L : Lang) (n : Nat) (R : Region) (σ σ' : Store) (c : Nat) (d : Bool)
    (hc : ClosedC σ R) (hC : R.C c) (hlt : c < σ.constrs.length)
    (h : fulfill L n σ c = .ok (σ', d)) : FrC R σ σ' :=
  (all_frameC L n).2.2.2.2.2.2.2.2.2.1 R σ c σ' d hc hC hlt h

example : ClosedC σCC1 (rootsRegion σCC1 (fun t => t = .var 0)) ∧
    (rootsRegion σCC1 (fun t => t = .var 0)).C 0 ∧ fulfill exL 7 σCC1 0 = .ok (σCC1, false) :=
  ⟨closedC_roots (L := exL) (okStoreCB_sound (by decide)) _,
   Or.inl ⟨_, rfl, 0, ⟨0, by decide, ReachC.here VarIn.var, rfl⟩, by decide⟩, exCC_fulfill0 5⟩

/-- … for `fix`: the returned type is over the region again. -/
theorem C16c_region_frame_fix (L : Lang) (n : Nat) (R : Region) (σ σ' : Store) (t t' : Term) (pl : Bool)
    (hc : ClosedC σ R) (ht : TermInR σ R.S t) (h : fix L n σ t pl = .ok (σ', t')) :
    FrC R σ σ' ∧ TermInR σ' R.S t' :=
  (all_frameC L n).2.2.2.2.2.1 R σ t pl σ' t' hc ht h

example : ClosedC σC1 (rootsRegion σC1 (fun t => t = .var 0)) ∧
    TermInR σC1 (rootsRegion σC1 (fun t => t = .var 0)).S (.var 0) ∧
    fix exL 11 σC1 (.var 0) true = .ok (σC2, .app 6 []) :=
  ⟨closedC_roots σC1_okc _, termInR_root (L := exL) rfl (by decide), exC_fix⟩

/-- … for `Type.apply`. -/
theorem C16c_region_frame_apply (L : Lang) (n : Nat) (R : Region) (σ σ' : Store) (f x r : Term) (fixFlag : Bool)
    (hc : ClosedC σ R) (hf : TermInR σ R.S f) (hx : TermInR σ R.S x)
    (h : applyT L n σ f x fixFlag = .ok (σ', r)) : FrC R σ σ' ∧ TermInR σ' R.S r :=
  applyT_frC hc hf hx h

example : ClosedC σC (rootsRegion σC (fun t => t = .app FUN [.var 0, .var 0] ∨ t = .app 6 [])) ∧
    applyT exL 11 σC (.app FUN [.var 0, .var 0]) (.app 6 []) true = .ok (σC2, .app 6 []) :=
  ⟨closedC_roots σC_okc _, exC_apply⟩

/-- … for a chain of applications. -/
theorem C16c_region_frame_apply_chain (L : Lang) (n : Nat) (fixFlag : Bool) (R : Region) (σ σ' : Store)
    (f r : Term) (xs : List Term) (hc : ClosedC σ R) (hf : TermInR σ R.S f)
    (hxs : ∀ x, x ∈ xs → TermInR σ R.S x) (h : applyAll L n fixFlag σ f xs = .ok (σ', r)) :
    FrC R σ σ' ∧ TermInR σ' R.S r :=
  applyAll_frC n fixFlag xs σ σ' f r hc hf hxs h

example : ClosedC σC (rootsRegion σC (fun t => t = .app FUN [.var 0, .var 0])) ∧
    applyAll exL 11 true σC (.app FUN [.var 0, .var 0]) [.app 6 []] = .ok (σC2, .app 6 []) :=
  ⟨closedC_roots σC_okc _, exC_chain⟩

/-- … for instantiating a schema with constraints: any closed region (it contains everything not yet allocated)
is left closed, nothing outside it changes, the instance is over the region. -/
theorem C16c_region_frame_instantiate (L : Lang) (n : Nat) (R : Region) (σ σ' : Store) (s : Schema) (f : Term)
    (hc : ClosedC σ R)
    (hcs : ∀ c, c ∈ s.constraints → okCAstN L (s.nvars + s.nwild) c = true)
    (hbody : okTermN L (s.nvars + s.nwild) s.body = true)
    (h : instantiate L n σ s = .ok (σ', f)) :
    FrC R σ σ' ∧ TermInR σ' R.S f ∧ σ.vars.length + s.nvars + s.nwild ≤ σ'.vars.length :=
  instantiate_frC hc hcs hbody h

/-- the region of the not-yet-allocated is closed in every store -/
example : ClosedC σC (freshRegion σC) ∧ instantiate exL 11 σC exSC = .ok (σCC, .app FUN [.var 1, .var 1]) :=
  ⟨closedC_fresh σC, exCC_inst⟩

/-- On a store satisfying the invariant `OkStoreC`, the region reachable from any set of root terms (through
bindings and constraints), together with everything not yet allocated, is closed; well-formed roots are over it. -/
theorem C16c_reachable_region_closed (L : Lang) (σ : Store) (okc : OkStoreC L σ) (roots : Term → Prop) :
    ClosedC σ (rootsRegion σ roots) ∧
    ∀ t, roots t → okTerm L σ t = true → TermInR σ (rootsRegion σ roots).S t :=
  ⟨closedC_roots okc roots, fun _ hr ht => termInR_root hr ht⟩

example : OkStoreC exL σCC := σCC_okc

/-! ## 3. frame: in terms of reachability -/

/-- Unification (any flags) on a store with pending constraints changes only what is reachable from its two
arguments through bindings and constraints: every other allocated variable, constraint set and constraint is
exactly as before (the store may grow: `skip_basic` allocates fresh skeleton variables). -/
theorem C16c_unify_frame (L : Lang) (n : Nat) (σ σ' : Store) (a b : Term) (st sb sw : Bool)
    (okc : OkStoreC L σ) (ha : okTerm L σ a = true) (hb : okTerm L σ b = true)
    (h : unify L n σ a b st sb sw = .ok σ') :
    σ.vars.length ≤ σ'.vars.length ∧
    (∀ v, v < σ.vars.length → ¬ ReachC σ a v → ¬ ReachC σ b v → getVar σ' v = getVar σ v) ∧
    (∀ k, k < σ.csets.length → ¬ ReachCset σ a k → ¬ ReachCset σ b k → getCset σ' k = getCset σ k) ∧
    (∀ c, c < σ.constrs.length → ¬ ReachConstr σ a c → ¬ ReachConstr σ b c →
      getConstr σ' c = getConstr σ c) :=
  unify_frameC okc ha hb h

/-- non-vacuity: `B ≤ x0` in the store with two constrained instances: the constraint of `x0` is re-checked, `x1`,
its constraint set and its constraint are outside what the arguments reach -/
example : OkStoreC exL σCC ∧ okTerm exL σCC (.app 6 []) = true ∧ okTerm exL σCC (.var 0) = true ∧
    unify exL 11 σCC (.app 6 []) (.var 0) true false false = .ok σCC1 ∧
    (¬ ReachC σCC (.app 6 []) 1 ∧ ¬ ReachC σCC (.var 0) 1) ∧
    (¬ ReachCset σCC (.app 6 []) 1 ∧ ¬ ReachCset σCC (.var 0) 1) ∧
    (¬ ReachConstr σCC (.app 6 []) 1 ∧ ¬ ReachConstr σCC (.var 0) 1) :=
  ⟨σCC_okc, by decide, by decide, exCC_unify, exCC_disjoint⟩

/-- `fix` on a store with pending constraints changes only what is reachable from its argument; the type it
returns mentions reachable or freshly allocated variables only. -/
theorem C16c_fix_frame (L : Lang) (n : Nat) (σ σ' : Store) (t t' : Term) (pl : Bool)
    (okc : OkStoreC L σ) (ht : okTerm L σ t = true) (h : fix L n σ t pl = .ok (σ', t')) :
    (σ.vars.length ≤ σ'.vars.length ∧
     (∀ v, v < σ.vars.length → ¬ ReachC σ t v → getVar σ' v = getVar σ v) ∧
     (∀ k, k < σ.csets.length → ¬ ReachCset σ t k → getCset σ' k = getCset σ k) ∧
     (∀ c, c < σ.constrs.length → ¬ ReachConstr σ t c → getConstr σ' c = getConstr σ c)) ∧
    ∀ v, VarIn v t' → ReachC σ t v ∨ (σ.vars.length ≤ v ∧ v < σ'.vars.length) :=
  fix_frameC okc ht h

example : OkStoreC exL σC1 ∧ okTerm exL σC1 (.var 0) = true ∧
    fix exL 11 σC1 (.var 0) true = .ok (σC2, .app 6 []) ∧ getCset σC1 (getVar σC1 0).cset = [0] :=
  ⟨σC1_okc, by decide, exC_fix, rfl⟩

/-- `Type.apply` on a store with pending constraints changes only what is reachable from the function and argument
types; the returned type mentions reachable or freshly allocated variables only. -/
theorem C16c_apply_frame (L : Lang) (n : Nat) (σ σ' : Store) (f x r : Term) (fixFlag : Bool)
    (okc : OkStoreC L σ) (hf : okTerm L σ f = true) (hx : okTerm L σ x = true)
    (h : applyT L n σ f x fixFlag = .ok (σ', r)) :
    (σ.vars.length ≤ σ'.vars.length ∧
     (∀ v, v < σ.vars.length → ¬ ReachC σ f v → ¬ ReachC σ x v → getVar σ' v = getVar σ v) ∧
     (∀ k, k < σ.csets.length → ¬ ReachCset σ f k → ¬ ReachCset σ x k → getCset σ' k = getCset σ k) ∧
     (∀ c, c < σ.constrs.length → ¬ ReachConstr σ f c → ¬ ReachConstr σ x c →
       getConstr σ' c = getConstr σ c)) ∧
    ∀ v, VarIn v r → (ReachC σ f v ∨ ReachC σ x v) ∨ (σ.vars.length ≤ v ∧ v < σ'.vars.length) :=
  apply_frameC okc hf hx h

example : OkStoreC exL σC ∧ okTerm exL σC (.app FUN [.var 0, .var 0]) = true ∧ okTerm exL σC (.app 6 []) = true ∧
    applyT exL 11 σC (.app FUN [.var 0, .var 0]) (.app 6 []) true = .ok (σC2, .app 6 []) :=
  ⟨σC_okc, by decide, by decide, exC_apply⟩

/-- An earlier expression `e` (over allocated variables) whose region — variables, constraint sets, constraints —
is disjoint from what the unified terms reach means after the unification exactly what it meant before: its
variables carry the same records, its constraint sets hold the same constraints, its constraints are unchanged, the
same variables are reachable from it, and following it gives the same type. -/
theorem C16c_definitions_untouched (L : Lang) (n : Nat) (σ σ' : Store) (a b e : Term) (st sb sw : Bool)
    (okc : OkStoreC L σ) (ha : okTerm L σ a = true) (hb : okTerm L σ b = true)
    (h : unify L n σ a b st sb sw = .ok σ')
    (hv : ∀ v, ReachC σ e v → v < σ.vars.length ∧ ¬ ReachC σ a v ∧ ¬ ReachC σ b v)
    (hk : ∀ k, ReachCset σ e k → k < σ.csets.length ∧ ¬ ReachCset σ a k ∧ ¬ ReachCset σ b k)
    (hcn : ∀ c, ReachConstr σ e c → ¬ ReachConstr σ a c ∧ ¬ ReachConstr σ b c) :
    (∀ v, ReachC σ e v → getVar σ' v = getVar σ v) ∧
    (∀ k, ReachCset σ e k → getCset σ' k = getCset σ k) ∧
    (∀ c, ReachConstr σ e c → getConstr σ' c = getConstr σ c) ∧
    (∀ v, ReachC σ' e v ↔ ReachC σ e v) ∧ ∀ m, follow σ' m e = follow σ m e :=
  have f := unify_frameC okc ha hb h
  have hg : ∀ v, ReachC σ e v → getVar σ' v = getVar σ v :=
    fun v hr => f.2.1 v (hv v hr).1 (hv v hr).2.1 (hv v hr).2.2
  have hkk : ∀ k, ReachCset σ e k → getCset σ' k = getCset σ k :=
    fun k hr => f.2.2.1 k (hk k hr).1 (hk k hr).2.1 (hk k hr).2.2
  have hcc : ∀ c, ReachConstr σ e c → getConstr σ' c = getConstr σ c :=
    fun c hr => by
      obtain ⟨k, hK, hm⟩ := hr
      exact f.2.2.2 c (okc.crange.get hm) (hcn c ⟨k, hK, hm⟩).1 (hcn c ⟨k, hK, hm⟩).2
  ⟨hg, hkk, hcc, untouchedC (fun v hr => (hv v hr).1) hg hkk hcc⟩

/-- non-vacuity: the earlier expression `x1` (second instance, with its own pending constraint) while `B ≤ x0` is
unified: all three disjointness hypotheses hold -/
example : OkStoreC exL σCC ∧ unify exL 11 σCC (.app 6 []) (.var 0) true false false = .ok σCC1 ∧
    (∀ v, ReachC σCC (.var 1) v → v < σCC.vars.length ∧ ¬ ReachC σCC (.app 6 []) v ∧ ¬ ReachC σCC (.var 0) v) ∧
    ReachConstr σCC (.var 1) 1 := by
  refine ⟨σCC_okc, exCC_unify, fun v hr => ?_, ⟨1, ⟨1, by decide, ReachC.here VarIn.var, rfl⟩, by decide⟩⟩
  have := reachC_σCC_var1 v hr
  subst this
  exact ⟨by decide, exCC_disjoint.1.1, exCC_disjoint.1.2⟩

/-- The same for an application. -/
theorem C16c_definitions_untouched_apply (L : Lang) (n : Nat) (σ σ' : Store) (f x r e : Term) (fixFlag : Bool)
    (okc : OkStoreC L σ) (hf : okTerm L σ f = true) (hx : okTerm L σ x = true)
    (h : applyT L n σ f x fixFlag = .ok (σ', r))
    (hv : ∀ v, ReachC σ e v → v < σ.vars.length ∧ ¬ ReachC σ f v ∧ ¬ ReachC σ x v)
    (hk : ∀ k, ReachCset σ e k → k < σ.csets.length ∧ ¬ ReachCset σ f k ∧ ¬ ReachCset σ x k)
    (hcn : ∀ c, ReachConstr σ e c → ¬ ReachConstr σ f c ∧ ¬ ReachConstr σ x c) :
    (∀ v, ReachC σ e v → getVar σ' v = getVar σ v) ∧
    (∀ k, ReachCset σ e k → getCset σ' k = getCset σ k) ∧
    (∀ c, ReachConstr σ e c → getConstr σ' c = getConstr σ c) ∧
    (∀ v, ReachC σ' e v ↔ ReachC σ e v) ∧ ∀ m, follow σ' m e = follow σ m e :=
  have fr := (apply_frameC okc hf hx h).1
  have hg : ∀ v, ReachC σ e v → getVar σ' v = getVar σ v :=
    fun v hr => fr.2.1 v (hv v hr).1 (hv v hr).2.1 (hv v hr).2.2
  have hkk : ∀ k, ReachCset σ e k → getCset σ' k = getCset σ k :=
    fun k hr => fr.2.2.1 k (hk k hr).1 (hk k hr).2.1 (hk k hr).2.2
  have hcc : ∀ c, ReachConstr σ e c → getConstr σ' c = getConstr σ c :=
    fun c hr => by
      obtain ⟨k, hK, hm⟩ := hr
      exact fr.2.2.2 c (okc.crange.get hm) (hcn c ⟨k, hK, hm⟩).1 (hcn c ⟨k, hK, hm⟩).2
  ⟨hg, hkk, hcc, untouchedC (fun v hr => (hv v hr).1) hg hkk hcc⟩

example : OkStoreC exL σC ∧
    applyT exL 11 σC (.app FUN [.var 0, .var 0]) (.app 6 []) true = .ok (σC2, .app 6 []) ∧
    (∀ v, ReachC σC (.app 5 []) v →
      v < σC.vars.length ∧ ¬ ReachC σC (.app FUN [.var 0, .var 0]) v ∧ ¬ ReachC σC (.app 6 []) v) :=
  ⟨σC_okc, exC_apply, fun v hr => absurd hr (reachC_closed (by decide) v)⟩

/-- An instantiation never changes what an earlier expression means: for every expression `e` over allocated
variables of a store satisfying `OkStoreC`, after instantiating any schema WITH constraints the same variables are
reachable from `e` and following it gives the same type.
PARTIAL: needs `hkr`, every allocated variable points to an allocated constraint-set object (true of every store the
engine builds: a variable is created together with its set; not part of `OkStoreC`). Without it the statement is
false, see `C16c_instantiate_untouched_needs_allocated_csets`. -/
theorem C16c_instantiate_untouched_partial (L : Lang) (n : Nat) (σ σ' : Store) (s : Schema) (t e : Term)
    (okc : OkStoreC L σ) (he : okTerm L σ e = true)
    (hkr : ∀ v, v < σ.vars.length → (getVar σ v).cset < σ.csets.length)
    (hcs : ∀ c, c ∈ s.constraints → okCAstN L (s.nvars + s.nwild) c = true)
    (hbody : okTermN L (s.nvars + s.nwild) s.body = true)
    (h : instantiate L n σ s = .ok (σ', t)) :
    (∀ v, ReachC σ' e v ↔ ReachC σ e v) ∧ ∀ m, follow σ' m e = follow σ m e := by
  have fr := instantiate_freshC hcs hbody h
  have hs : ∀ v, ReachC σ e v → v < σ.vars.length := reachC_lt okc he
  exact untouchedC hs (fun v hr => fr.2.1 v (hs v hr))
    (fun k ⟨w, hw, _, ek⟩ => fr.2.2.1 k (ek ▸ hkr w hw))
    (fun c ⟨_, _, hm⟩ => fr.2.2.2.1 c (okc.crange.get hm))

example : OkStoreC exL σC ∧ okTerm exL σC (.var 0) = true ∧
    (∀ v, v < σC.vars.length → (getVar σC v).cset < σC.csets.length) ∧
    instantiate exL 11 σC exSC = .ok (σCC, .app FUN [.var 1, .var 1]) :=
  ⟨σC_okc, by decide, by decide, exCC_inst⟩

/-- FINDING (ill-formed input only): if a variable points to a constraint-set object that is not allocated, the
next allocated variable gets that very object; instantiating `h : x ** x [x ≤ A]` then attaches the new instance's
constraint to the old variable as well, so the new variable becomes reachable from the old expression. The store
`τD` satisfies `OkStoreC`. -/
theorem C16c_instantiate_untouched_needs_allocated_csets :
    OkStoreC exL τD ∧ okTerm exL τD (.var 0) = true ∧
    instantiate exL 11 τD exSC = .ok (τD', .app FUN [.var 1, .var 1]) ∧
    ¬ (getVar τD 0).cset < τD.csets.length ∧
    ReachC τD' (.var 0) 1 ∧ ¬ ReachC τD (.var 0) 1 :=
  ⟨τD_okc, by decide, exD_inst, by decide, reachC_τD'_var0,
   fun h => by have := reachC_τD_var0 1 h; cases this⟩

/-! ## 4. the engine reads only its region; the content of the history is irrelevant -/

/-- Unification (any flags) READS only its region: run in two stores of the same sizes that agree on a closed region
`R` containing the arguments — and differ arbitrarily elsewhere — it gives the same error, or stores that again agree
on `R`. (With `C16c_region_frame_unify`: what is outside the region is neither read nor written.) -/
theorem C16c_unify_reads_only_region (L : Lang) (n : Nat) (R : Region) (τ τ' : Store) (a b : Term) (st sb sw : Bool)
    (hc : ClosedC τ R) (h : SameOnC R τ τ') (ha : TermInR τ R.S a) (hb : TermInR τ R.S b) :
    SameResultC R (unify L n τ a b st sb sw) (unify L n τ' a b st sb sw) :=
  sameResultC_of_relS ((all_agreeC L n).1 R τ τ' a b st sb sw ⟨h, hc⟩ ha hb)

/-- … in terms of reachability, on a store satisfying `OkStoreC`. -/
theorem C16c_unify_reads_only_reachable (L : Lang) (n : Nat) (τ τ' : Store) (a b : Term) (st sb sw : Bool)
    (okc : OkStoreC L τ) (ha : okTerm L τ a = true) (hb : okTerm L τ b = true)
    (h : SameOnC (rootsRegion τ (fun t => t = a ∨ t = b)) τ τ') :
    SameResultC (rootsRegion τ (fun t => t = a ∨ t = b)) (unify L n τ a b st sb sw) (unify L n τ' a b st sb sw) :=
  sameResultC_of_relS ((all_agreeC L n).1 _ τ τ' a b st sb sw ⟨h, closedC_roots okc _⟩
    (termInR_root (Or.inl rfl) ha) (termInR_root (Or.inr rfl) hb))

/-- non-vacuity: `σCCalt` agrees with `σCC` on what `B ≤ x0` reaches and differs in the record, the constraint set and
the constraint of the earlier expression `x1` -/
example : OkStoreC exL σCC ∧ okTerm exL σCC (.app 6 []) = true ∧ okTerm exL σCC (.var 0) = true ∧
    SameOnC (rootsRegion σCC (fun t => t = .app 6 [] ∨ t = .var 0)) σCC σCCalt ∧
    getVar σCCalt 1 ≠ getVar σCC 1 ∧ getCset σCCalt 1 ≠ getCset σCC 1 ∧
    unify exL 11 σCC (.app 6 []) (.var 0) true false false = .ok σCC1 :=
  ⟨σCC_okc, by decide, by decide, σCCalt_same, σCCalt_differs.1, σCCalt_differs.2, exCC_unify⟩

/-- Re-checking the constraints of a variable reads only its region. -/
theorem C16c_check_reads_only_region (L : Lang) (n : Nat) (R : Region) (τ τ' : Store) (v : Nat)
    (hc : ClosedC τ R) (h : SameOnC R τ τ') (hv : InStore τ R.S v) :
    SameResultC R (checkConstraints L n τ v) (checkConstraints L n τ' v) :=
  sameResultC_of_relS ((all_agreeC L n).2.2.2.2.2.2.2.1 R τ τ' v ⟨h, hc⟩ hv)

example : ClosedC σCC (rootsRegion σCC (fun t => t = .app 6 [] ∨ t = .var 0)) ∧
    SameOnC (rootsRegion σCC (fun t => t = .app 6 [] ∨ t = .var 0)) σCC σCCalt ∧
    InStore σCC (rootsRegion σCC (fun t => t = .app 6 [] ∨ t = .var 0)).S 0 :=
  ⟨closedC_roots σCC_okc _, σCCalt_same, ⟨Or.inl ⟨_, Or.inr rfl, ReachC.here VarIn.var⟩, by decide⟩⟩

/-- `Constraint.fulfill()` reads only its region: the same error, or the same answer and stores that agree. -/
theorem C16c_fulfill_reads_only_region (L : Lang) (n : Nat) (R : Region) (τ τ' : Store) (c : Nat)
    (hc : ClosedC τ R) (h : SameOnC R τ τ') (hC : R.C c) (hlt : c < τ.constrs.length) :
    SameOutcomeC R (fulfill L n τ c) (fulfill L n τ' c) :=
  sameOutcomeC_of_relP ((all_agreeC L n).2.2.2.2.2.2.2.2.2.1 R τ τ' c ⟨h, hc⟩ hC hlt)

example : ClosedC σCC (rootsRegion σCC (fun t => t = .app 6 [] ∨ t = .var 0)) ∧
    (rootsRegion σCC (fun t => t = .app 6 [] ∨ t = .var 0)).C 0 ∧ 0 < σCC.constrs.length :=
  ⟨closedC_roots σCC_okc _,
   Or.inl ⟨_, Or.inr rfl, 0, ⟨0, by decide, ReachC.here VarIn.var, rfl⟩, by decide⟩, by decide⟩

/-- `fix` reads only its region: the same error, or the same returned type and stores that agree. -/
theorem C16c_fix_reads_only_region (L : Lang) (n : Nat) (R : Region) (τ τ' : Store) (t : Term) (pl : Bool)
    (hc : ClosedC τ R) (h : SameOnC R τ τ') (ht : TermInR τ R.S t) :
    SameOutcomeC R (fix L n τ t pl) (fix L n τ' t pl) :=
  sameOutcomeC_of_relP ((all_agreeC L n).2.2.2.2.2.1 R τ τ' t pl ⟨h, hc⟩ ht)

example : ClosedC σCC (rootsRegion σCC (fun t => t = .app 6 [] ∨ t = .var 0)) ∧
    TermInR σCC (rootsRegion σCC (fun t => t = .app 6 [] ∨ t = .var 0)).S (.var 0) :=
  ⟨closedC_roots σCC_okc _, termInR_root (L := exL) (Or.inr rfl) (by decide)⟩

/-- `Type.apply` reads only its region. -/
theorem C16c_apply_reads_only_region (L : Lang) (n : Nat) (R : Region) (τ τ' : Store) (f x : Term) (fixFlag : Bool)
    (hc : ClosedC τ R) (h : SameOnC R τ τ') (hf : TermInR τ R.S f) (hx : TermInR τ R.S x) :
    SameOutcomeC R (applyT L n τ f x fixFlag) (applyT L n τ' f x fixFlag) :=
  sameOutcomeC_of_relP (applyT_agree ⟨h, hc⟩ hf hx)

/-- … in terms of reachability, on a store satisfying `OkStoreC`. -/
theorem C16c_apply_reads_only_reachable (L : Lang) (n : Nat) (τ τ' : Store) (f x : Term) (fixFlag : Bool)
    (okc : OkStoreC L τ) (hf : okTerm L τ f = true) (hx : okTerm L τ x = true)
    (h : SameOnC (rootsRegion τ (fun t => t = f ∨ t = x)) τ τ') :
    SameOutcomeC (rootsRegion τ (fun t => t = f ∨ t = x)) (applyT L n τ f x fixFlag) (applyT L n τ' f x fixFlag) :=
  sameOutcomeC_of_relP (applyT_agree ⟨h, closedC_roots okc _⟩
    (termInR_root (Or.inl rfl) hf) (termInR_root (Or.inr rfl) hx))

example : OkStoreC exL σC ∧ okTerm exL σC (.app FUN [.var 0, .var 0]) = true ∧ okTerm exL σC (.app 6 []) = true ∧
    applyT exL 11 σC (.app FUN [.var 0, .var 0]) (.app 6 []) true = .ok (σC2, .app 6 []) :=
  ⟨σC_okc, by decide, by decide, exC_apply⟩

/-- Instantiating a schema WITH constraints reads only the region it is run in (any closed region: it contains
everything not yet allocated): the same error, or the same instance and stores that agree on the region. -/
theorem C16c_instantiate_reads_only_region (L : Lang) (n : Nat) (R : Region) (τ τ' : Store) (s : Schema)
    (hc : ClosedC τ R) (h : SameOnC R τ τ')
    (hcs : ∀ c, c ∈ s.constraints → okCAstN L (s.nvars + s.nwild) c = true)
    (hbody : okTermN L (s.nvars + s.nwild) s.body = true) :
    SameOutcomeC R (instantiate L n τ s) (instantiate L n τ' s) :=
  sameOutcomeC_of_relP (instantiate_agree ⟨h, hc⟩ hcs hbody)

example : ClosedC σC (freshRegion σC) ∧ SameOnC (freshRegion σC) σC σCalt :=
  ⟨closedC_fresh σC, (agreeC_fresh σCalt_sizes.1 σCalt_sizes.2.1 σCalt_sizes.2.2).same⟩

/-- THE INSTANTIATION PART OF HISTORY INDEPENDENCE. Behind two ARBITRARY histories `τ`, `τ'` with the same numbers of
variables, constraint sets and constraints, instantiating a schema with constraints gives the same error, or the
same instance and stores that coincide on everything allocated since (and agree in size). What the earlier
expressions were is irrelevant; only how much they allocated enters (it names the new variables and, through the
fuel of `match` / the occurs check, bounds how deep they look). With `C16c_instantiate_fresh`: each history is left
exactly as it was. -/
theorem C16c_history_content_irrelevant_instantiate (L : Lang) (n : Nat) (τ τ' : Store) (s : Schema)
    (hv : τ'.vars.length = τ.vars.length) (hk : τ'.csets.length = τ.csets.length)
    (hcn : τ'.constrs.length = τ.constrs.length)
    (hcs : ∀ c, c ∈ s.constraints → okCAstN L (s.nvars + s.nwild) c = true)
    (hbody : okTermN L (s.nvars + s.nwild) s.body = true) :
    SameOutcomeC (freshRegion τ) (instantiate L n τ s) (instantiate L n τ' s) :=
  sameOutcomeC_of_relP (instantiate_agree (agreeC_fresh hv hk hcn) hcs hbody)

/-- non-vacuity: `σC` (the pending constraint `x0 ≤ A`) and `σCalt` (`x0 ≤ B` as a bound, an unrelated fulfilled
constraint) have the same sizes; `h : x ** x [x ≤ A]` instantiates behind `σC` to `x1 ** x1` with its constraint -/
example : σCalt.vars.length = σC.vars.length ∧ σCalt.csets.length = σC.csets.length ∧
    σCalt.constrs.length = σC.constrs.length ∧ getVar σCalt 0 ≠ getVar σC 0 ∧
    (∀ c, c ∈ exSC.constraints → okCAstN exL (exSC.nvars + exSC.nwild) c = true) ∧
    okTermN exL (exSC.nvars + exSC.nwild) exSC.body = true ∧
    instantiate exL 11 σC exSC = .ok (σCC, .app FUN [.var 1, .var 1]) :=
  ⟨rfl, rfl, rfl, σCalt_differs, by decide, by decide, exCC_inst⟩

/-- … hence the outcome behind `τ'` is determined by the outcome behind `τ`: if the instantiation behind `τ` returns
`(τ1, t)`, then behind `τ'` it returns the same type `t` and a store that coincides with `τ1` on every variable,
constraint set and constraint allocated since. -/
theorem C16c_history_content_irrelevant_instantiate_ok (L : Lang) (n : Nat) (τ τ' τ1 : Store) (s : Schema) (t : Term)
    (hv : τ'.vars.length = τ.vars.length) (hk : τ'.csets.length = τ.csets.length)
    (hcn : τ'.constrs.length = τ.constrs.length)
    (hcs : ∀ c, c ∈ s.constraints → okCAstN L (s.nvars + s.nwild) c = true)
    (hbody : okTermN L (s.nvars + s.nwild) s.body = true)
    (h : instantiate L n τ s = .ok (τ1, t)) :
    ∃ τ1', instantiate L n τ' s = .ok (τ1', t) ∧
      τ1'.vars.length = τ1.vars.length ∧ τ1'.csets.length = τ1.csets.length ∧
      τ1'.constrs.length = τ1.constrs.length ∧
      (∀ v, τ.vars.length ≤ v → getVar τ1' v = getVar τ1 v) ∧
      (∀ k, τ.csets.length ≤ k → getCset τ1' k = getCset τ1 k) ∧
      (∀ c, τ.constrs.length ≤ c → getConstr τ1' c = getConstr τ1 c) := by
  have r := C16c_history_content_irrelevant_instantiate L n τ τ' s hv hk hcn hcs hbody
  rw [h] at r
  obtain ⟨τ1', e, sm⟩ := r
  exact ⟨τ1', e, sm.vlen, sm.klen, sm.clen, sm.vsame, sm.ksame, sm.csame⟩

example : instantiate exL 11 σC exSC = .ok (σCC, .app FUN [.var 1, .var 1]) ∧
    σCalt.vars.length = σC.vars.length := ⟨exCC_inst, rfl⟩

/-- One whole use of a definition — instantiate a schema WITH constraints, apply the instance to the argument types
`xs` in turn — reads only the region it is run in. -/
theorem C16c_use_reads_only_region (L : Lang) (n : Nat) (fixFlag : Bool) (R : Region) (τ τ' : Store) (s : Schema)
    (xs : List Term) (hc : ClosedC τ R) (h : SameOnC R τ τ')
    (hcs : ∀ c, c ∈ s.constraints → okCAstN L (s.nvars + s.nwild) c = true)
    (hbody : okTermN L (s.nvars + s.nwild) s.body = true) (hxs : ∀ x, x ∈ xs → TermInR τ R.S x) :
    SameOutcomeC R (useSchema L n fixFlag τ s xs) (useSchema L n fixFlag τ' s xs) :=
  sameOutcomeC_of_relP (useSchema_agree ⟨h, hc⟩ hcs hbody hxs)

example : ClosedC σC (freshRegion σC) ∧ SameOnC (freshRegion σC) σC σCalt ∧
    (∀ x, x ∈ [Term.app 6 []] → TermInR σC (freshRegion σC).S x) :=
  ⟨closedC_fresh σC, (agreeC_fresh σCalt_sizes.1 σCalt_sizes.2.1 σCalt_sizes.2.2).same,
   termsInR_closed (by decide)⟩

/-- History independence of one whole use with concrete argument types, up to the size of the history: behind two
ARBITRARY histories with the same numbers of variables, constraint sets and constraints, instantiating a schema
with constraints and applying it to concrete arguments gives the same error, or the same result type and stores
that coincide on everything allocated since. -/
theorem C16c_history_content_irrelevant (L : Lang) (n : Nat) (fixFlag : Bool) (τ τ' : Store) (s : Schema)
    (xs : List Term) (hv : τ'.vars.length = τ.vars.length) (hk : τ'.csets.length = τ.csets.length)
    (hcn : τ'.constrs.length = τ.constrs.length)
    (hcs : ∀ c, c ∈ s.constraints → okCAstN L (s.nvars + s.nwild) c = true)
    (hbody : okTermN L (s.nvars + s.nwild) s.body = true) (hxs : Term.closedL xs = true) :
    SameOutcomeC (freshRegion τ) (useSchema L n fixFlag τ s xs) (useSchema L n fixFlag τ' s xs) :=
  sameOutcomeC_of_relP (useSchema_agree (agreeC_fresh hv hk hcn) hcs hbody (termsInR_closed hxs))

example : σCalt.vars.length = σC.vars.length ∧ σCalt.csets.length = σC.csets.length ∧
    σCalt.constrs.length = σC.constrs.length ∧ Term.closedL [.app 6 []] = true ∧
    exSC.constraints = [.sub (.var 0) (.app 5 []) false] :=
  ⟨rfl, rfl, rfl, by decide, rfl⟩

/-- Without constraints in the store, reachability through bindings and constraints is the `Reach` of C16. -/
theorem C16c_reachC_iff_reach (σ : Store) (nc : NoConstraints σ) (t : Term) (v : Nat) :
    ReachC σ t v ↔ Reach σ t v := reachC_iff_reach nc t v

example : NoConstraints ({ vars := [{ bound := some (.var 1) }, { cset := 1 }], csets := [[], []] } : Store) := by
  intro k
  match k with
  | 0 => rfl
  | 1 => rfl
  | k+2 => rfl

end Tfv.C16
