import sys, itertools, random
sys.path.insert(0,'/repo')
from transforge.type import *
from transforge.bag import *
A=TypeOperator('A'); B=TypeOperator('B',supertype=A); C=TypeOperator('C',supertype=A); D=TypeOperator('D',supertype=B); E=TypeOperator('E')
F=TypeOperator('F',params=1)
base=[A(),B(),C(),D(),E(),Top(),Bottom(),F(A()),F(B()),F(D()),F(Top())]
def minimal(xs):
    return set(str(x) for x in xs if not any(y.is_subtype(x,strict=True) for y in xs))
def maximal(xs):
    return set(str(x) for x in xs if not any(x.is_subtype(y,strict=True) for y in xs))
bad=0
random.seed(1)
for n in range(1,5):
    for xs in itertools.product(base, repeat=n):
        for spec in (True,False):
            u=TypeUnion(xs, specific=spec)
            got=set(str(x) for x in u)
            exp=minimal(xs) if spec else maximal(xs)
            if got!=exp:
                bad+=1
                if bad<6: print('UNION', [str(x) for x in xs], spec, got, exp)
print('union bad', bad)
# Bag semantics
def upclosed(present):
    return lambda t: any(p.is_subtype(t) for p in present)
def sat_req(reqs, pres):
    return all(any(pres(t) for t in alts) for alts in reqs)
def sat_bag(bag, pres):
    return all(any(pres(t) for t in tu) for tu in bag.content)
bad=0; n=0
small=[A(),B(),C(),D(),E(),F(A()),F(B())]
presents=[()]+[(p,) for p in small]+list(itertools.combinations(small,2))
for k in range(1,4):
    for reqs in itertools.product([ (x,) for x in small]+list(itertools.combinations(small,2)), repeat=k):
        bag=Bag()
        for r in reqs: bag.add(*r)
        for pr in presents:
            pres=upclosed(pr)
            n+=1
            if sat_req(reqs,pres)!=sat_bag(bag,pres):
                bad+=1
                if bad<6: print('BAG', [[str(t) for t in r] for r in reqs], [str(p) for p in pr], bag.content, sat_req(reqs,pres), sat_bag(bag,pres))
print('bag bad', bad, 'of', n)
