import Tfv.Proofs.GraphNode
import Tfv.Proofs.GraphReach
import Tfv.Proofs.GraphExamples
/-!
# The `subtypeOf` set of a node over a plain closed canon: the URIs of all canonical supertypes
-/
namespace Tfv
open Tfv.Tax

/-- the hypotheses "plain closed canon": the language is well formed, neither `Top` nor `Bottom` was requested,
the canon is `mkCanon` of well-formed `Top`/`Bottom`-free listed types, and the fuel sufficed -/
structure PlainCanon (G : GLang) (listed : List Ty) : Prop where
  wf : WF G.types
  noTop : G.cfg.includeTop = false
  noBot : G.cfg.includeBottom = false
  listedOk : ∀ t ∈ listed, wfTy G.types t = true ∧ tbFree t = true
  term : Terminates G.types G.cfg canonFuel (initOf listed) (initOf listed)
  canonEq : G.canon = mkCanon G.types G.cfg listed

theorem PlainCanon.wfTy_of_mem {G : GLang} {listed : List Ty} (p : PlainCanon G listed) {x : Ty}
    (hx : x ∈ G.canon) : wfTy G.types x = true := by
  rw [p.canonEq, mkCanon_eq] at hx
  exact (canon_plain_sound p.wf p.noTop p.noBot canonFuel (initOf listed)
    (fun t ht => p.listedOk t ((mem_initOf listed t).mp ht)) x hx).1

/-- the supertypes the graph code iterates over = the strict canonical supertypes -/
theorem PlainCanon.mem_langSucc_up {G : GLang} {listed : List Ty} (p : PlainCanon G listed) {t s : Ty}
    (ht : t ∈ G.canon) :
    s ∈ langSucc G.types G.cfg G.canon (G.canon.length + 2) true t true ↔
      (s ∈ G.canon ∧ Sub G.types t s ∧ s ≠ t) := by
  have h := langSucc_up_plain p.wf p.noTop p.noBot p.listedOk p.term 2 (t := t) (s := s)
    (by rw [← p.canonEq]; exact ht)
  rw [← p.canonEq] at h
  exact h

theorem annotateType_subtypeOf_plain (G : GLang) (listed : List Ty) (p : PlainCanon G listed) (c : GCfg)
    (hcT : c.withCanonicalTypes = false) (hS : c.withSupertypes = true) (g : GState) (l : List (Term × Node))
    (hg : g.typeNodes = (initGraph G c).typeNodes ++ l) (root : Node) (cur : Nat) (t : Ty)
    (ht : t ∈ G.canon) (mf : Bool) (g' : GState)
    (h : annotateType G c g root cur t.toTerm mf = .ok g') (o : Node) :
    (Node.b cur, Node.tf "subtypeOf", o) ∈ g'.triples ↔
      ((Node.b cur, Node.tf "subtypeOf", o) ∈ g.triples ∨
        ∃ s, s ∈ G.canon ∧ Sub G.types t s ∧ typeUri G s.toTerm = .ok o) := by
  rw [annotateType_subtypeOf_exact G c hcT hS g l hg root cur t ((memTy_iff _ _).2 ht) mf g' h o]
  constructor
  · rintro (h | ⟨s, rfl | hs, hu⟩)
    · exact .inl h
    · exact .inr ⟨s, ht, sub_refl s (p.wfTy_of_mem ht), hu⟩
    · obtain ⟨a, b, _⟩ := (p.mem_langSucc_up ht).1 hs
      exact .inr ⟨s, a, b, hu⟩
  · rintro (h | ⟨s, hs, hsub, hu⟩)
    · exact .inl h
    · by_cases e : s = t
      · exact .inr ⟨s, .inl e, hu⟩
      · exact .inr ⟨s, .inr ((p.mem_langSucc_up ht).2 ⟨hs, hsub, e⟩), hu⟩

/-- the running example is a plain closed canon -/
theorem GraphEx.exG_plain : PlainCanon GraphEx.exG [GraphEx.tA, GraphEx.tF GraphEx.tA] where
  wf := wf_of_wfLangB GraphEx.exL (by decide)
  noTop := rfl
  noBot := rfl
  listedOk := by
    intro t ht
    simp only [List.mem_cons, List.not_mem_nil, or_false] at ht
    rcases ht with rfl | rfl <;> exact ⟨by decide, by decide⟩
  term := by rfl
  canonEq := by rfl

end Tfv
