import Tfv.Proofs.FlowHO
/-!
# C08 proofs, part 8: the local rule for nested internal nodes (any configuration, any expression)
-/
namespace Tfv.C08P
open Tfv

theorem foldl_from_mono {α : Type} (c : α → Bool) (a b : α → Nat) (l : List α) (k : Core) (p : Nat × Nat)
    (h : p ∈ k.frm) : p ∈ (l.foldl (fun k j => if c j then k.from (a j) (b j) else k) k).frm :=
  (mem_foldl_from c a b l k p).2 (Or.inl h)

/-- edges that the wiring of a passed operation adds in any case -/
theorem wire_some_sub (k : Core) (n x i : Nat) (p : Nat × Nat)
    (h : p ∈ k.frm ∨ p = (x, i) ∨ p = (n, x) ∨ ∃ j, (x, j) ∈ k.ints ∧ p = (j, i)) :
    p ∈ (wire k n x (some i)).frm := by
  simp only [wire]
  apply foldl_from_mono
  apply foldl_from_mono
  rw [mem_foldl_from' (fun j => j) (fun _ => i)]
  rcases h with h | h | h | ⟨j, hj, h⟩
  · exact Or.inl (List.mem_cons_of_mem _ (List.mem_cons_of_mem _ h))
  · exact Or.inl (List.mem_cons_of_mem _ (by rw [h]; exact List.mem_cons_self))
  · exact Or.inl (by rw [h]; exact List.mem_cons_self)
  · exact Or.inr ⟨j, (mem_intsOf _ _ _).2 hj, h⟩

theorem foldl_from_mono' {α : Type} (a b : α → Nat) (l : List α) (k : Core) (p : Nat × Nat)
    (h : p ∈ k.frm) : p ∈ (l.foldl (fun k j => k.from (a j) (b j)) k).frm :=
  (mem_foldl_from' a b l k p).2 (Or.inl h)

/-- The internal node `i` of a passed operation receives every input `fin` that the step `n` had
before this argument. No exception: when the argument's own node `x` was already an input of `n`
(the same source passed a second time), `i` receives `x` as well. -/
theorem wire_some_inputs (k : Core) (n x i fin : Nat) (h : (n, fin) ∈ k.frm) :
    (i, fin) ∈ (wire k n x (some i)).frm := by
  simp only [wire]
  have hrep : fin = x → (objectsOf (k.from x i).frm n).contains x = true := by
    intro hfx
    rw [List.contains_iff_mem, mem_objectsOf]
    exact List.mem_cons_of_mem _ (hfx ▸ h)
  generalize (objectsOf (k.from x i).frm n).contains x = rep at hrep
  rw [mem_foldl_from (fun fin => x != fin || rep) (fun _ => i) (fun fin => fin)]
  refine Or.inr ⟨fin, ?_, ?_, rfl⟩
  · rw [List.mem_eraseDups, mem_objectsOf]
    apply foldl_from_mono
    apply foldl_from_mono'
    exact List.mem_cons_of_mem _ (List.mem_cons_of_mem _ h)
  · by_cases hfx : fin = x
    · simp [hrep hfx]
    · have : (x != fin) = true := by simpa using fun h' => hfx h'.symm
      simp [this]

/-- every other internal node `j` of the step receives the argument's node -/
theorem wire_some_siblings (k : Core) (n x i j : Nat) (h : (n, j) ∈ k.ints) (hji : j ≠ i) :
    (j, x) ∈ (wire k n x (some i)).frm := by
  simp only [wire]
  apply foldl_from_mono
  rw [mem_foldl_from (fun j => some j != some i) (fun j => j) (fun _ => x)]
  refine Or.inr ⟨j, ?_, by simpa using hji, rfl⟩
  rw [(foldl_from_frame' (fun j => j) (fun _ => i) _ _).2.2.2]
  exact (mem_intsOf _ _ _).2 h

theorem add_fd (g : GState) (t : Triple) : (g.add t).fd = g.fd := by
  unfold GState.add; split <;> rfl

/-- internal nodes are never removed -/
theorem addExprC_ints_mono : ∀ (e : TExpr) (k : Core) (cur : Option Nat),
    ∀ p ∈ k.ints, p ∈ (addExprC k e cur).1.ints
  | .src id l ty, k, cur, p, hp => by
    rw [addExprC]
    split
    · exact hp
    · cases cur <;> exact hp
  | .op name ty, k, cur, p, hp => by
    rw [addExprC]; cases cur <;> exact hp
  | .shared key e, k, cur, p, hp => by
    rw [addExprC]
    split
    · exact hp
    · exact addExprC_ints_mono e k cur p hp
  | .app f x ty, k, cur, p, hp => by
    rw [addExprC_app]
    simp only [argStepC]
    rw [(wire_frame _ _ _ _).2.2.2]
    apply addExprC_ints_mono x
    have h1 : p ∈ (k.cur cur).1.ints := by cases cur <;> exact hp
    have h2 := addExprC_ints_mono f (k.cur cur).1 (some (k.cur cur).2) p h1
    simp only [mkInternal]
    split
    · exact List.mem_append_left _ h2
    · exact h2

/-- The rule for nested internal nodes, on the model itself: when the argument `x` of an
application has a function type, a new internal node `lam` is attached to the node of the
function part; `x` is added after that; and every internal node `μ` that is attached to `x`'s
node afterwards is fed by `lam`. -/
theorem addExpr_nested {G : GLang} {c : GCfg} {root : Node} {origin : Option Node} {g g' : GState}
    {f x : TExpr} {ty : Term} {m : Nat} {im : Bool} {n : Nat} (hc : c.withTypes = false)
    (hfun : x.ty.isFunction = true)
    (h : addExpr G c root origin g (.app f x ty) (some m) im = .ok (g', n)) :
    ∃ (g1 : GState) (fnode : Nat) (gi g2 : GState) (xnode : Nat),
      addExpr G c root origin g f (some m) im = .ok (g1, fnode) ∧
      gi.nextB = g1.nextB + 2 ∧ gi.internals = g1.internals ++ [(fnode, g1.nextB + 1)] ∧
      gi.srcNodes = g1.srcNodes ∧ gi.sharedNodes = g1.sharedNodes ∧ gi.fd = g1.fd ∧
      addExpr G c root origin gi x (some g1.nextB) true = .ok (g2, xnode) ∧
      g'.internals = g2.internals ∧ (fnode, g1.nextB + 1) ∈ g'.internals ∧
      (xnode, g1.nextB + 1) ∈ g'.fd.frm ∧ (fnode, xnode) ∈ g'.fd.frm ∧
      (∀ p ∈ g2.fd.frm, p ∈ g'.fd.frm) ∧
      ∀ μ, (xnode, μ) ∈ g2.internals → (μ, g1.nextB + 1) ∈ g'.fd.frm := by
  rw [addExpr_app] at h
  simp only [curG] at h
  cases hf : addExpr G c root origin g f (some m) im with
  | error e => rw [hf] at h; cases h
  | ok r1 =>
    obtain ⟨g1, fnode⟩ := r1
    rw [hf] at h
    simp only [hfun] at h
    cases hx : addExpr G c root origin (mkInternalG g1.fresh.1 fnode true).1 x (some g1.fresh.2) true with
    | error e => rw [hx] at h; cases h
    | ok r2 =>
      obtain ⟨g2, xnode⟩ := r2
      rw [hx] at h
      simp only [] at h
      cases h
      have hci : (mkInternalG g1.fresh.1 fnode true).2 = some (g1.nextB + 1) := rfl
      rw [hci]
      have hcore := coreOf_wireG c origin g2 m fnode xnode (some (g1.nextB + 1))
      have hfrm : (wireG c origin g2 m fnode xnode (some (g1.nextB + 1))).fd.frm =
          (wire (coreOf g2) fnode xnode (some (g1.nextB + 1))).frm := congrArg Core.frm hcore
      have hint : (wireG c origin g2 m fnode xnode (some (g1.nextB + 1))).internals = g2.internals := by
        have := congrArg Core.ints hcore
        rw [(wire_frame _ _ _ _).2.2.2] at this
        exact this
      -- the internal pair survives the addition of `x`
      have hmono : ∀ p ∈ (mkInternalG g1.fresh.1 fnode true).1.internals, p ∈ g2.internals := by
        intro p hp
        obtain ⟨g2', e1, e2⟩ := addExpr_core (G := G) (root := root) (origin := origin) hc x
          (mkInternalG g1.fresh.1 fnode true).1 (some g1.fresh.2) true
        rw [hx] at e1
        cases e1
        have := addExprC_ints_mono x (coreOf (mkInternalG g1.fresh.1 fnode true).1) (some g1.fresh.2) p hp
        rw [← e2] at this
        exact this
      refine ⟨g1, fnode, (mkInternalG g1.fresh.1 fnode true).1, g2, xnode, rfl, ?_, ?_, ?_, ?_, ?_, hx, hint, ?_, ?_, ?_,
        ?_, ?_⟩
      · have := congrArg Core.nextB (coreOf_mkInternalG g1.fresh.1 fnode true); exact this
      · have := congrArg Core.ints (coreOf_mkInternalG g1.fresh.1 fnode true); exact this
      · have := congrArg Core.src (coreOf_mkInternalG g1.fresh.1 fnode true); exact this
      · have := congrArg Core.shared (coreOf_mkInternalG g1.fresh.1 fnode true); exact this
      · show (mkInternalG g1.fresh.1 fnode true).1.fd = g1.fd
        simp only [mkInternalG, if_true]
        rw [add_fd]; rfl
      · rw [hint]
        apply hmono
        have := congrArg Core.ints (coreOf_mkInternalG g1.fresh.1 fnode true)
        have h' : (mkInternalG g1.fresh.1 fnode true).1.internals = g1.internals ++ [(fnode, g1.nextB + 1)] := this
        rw [h']; simp
      · rw [hfrm]; exact wire_some_sub _ _ _ _ _ (Or.inr (Or.inl rfl))
      · rw [hfrm]; exact wire_some_sub _ _ _ _ _ (Or.inr (Or.inr (Or.inl rfl)))
      · intro p hp
        rw [hfrm]; exact wire_some_sub _ _ _ _ _ (Or.inl hp)
      · intro μ hμ
        rw [hfrm]; exact wire_some_sub _ _ _ _ _ (Or.inr (Or.inr (Or.inr ⟨μ, hμ, rfl⟩)))

/-- The wiring of a passed operation, on the model itself (any configuration, any expression, any
state). `lam = g1.nextB + 1` is the internal node made for the argument `x`, `g2` the state after
`x` has been added (before the wiring).
* `lam` receives every input `fin` that the step `fnode` has in `g2`; this includes `x`'s own node when
  it is an input of `fnode` already (`repeated`: the same source passed a second time);
* every other internal node `j` of the step receives `x`'s node;
* in a state where `fnode ≠ xnode` and `fnode` is not an internal node of itself or of `xnode`, the new
  edges are exactly: `xnode → lam`, `fnode → xnode`, `μ → lam` for the internal nodes `μ` of `xnode`,
  `j → xnode` for the other internal nodes `j` of `fnode`, and `lam → fin` for the inputs `fin` that
  `fnode` has in `g2`. -/
theorem addExpr_wiring {G : GLang} {c : GCfg} {root : Node} {origin : Option Node} {g g' : GState}
    {f x : TExpr} {ty : Term} {m : Nat} {im : Bool} {n : Nat}
    (hfun : x.ty.isFunction = true)
    (h : addExpr G c root origin g (.app f x ty) (some m) im = .ok (g', n)) :
    ∃ (g1 : GState) (fnode : Nat) (gi g2 : GState) (xnode : Nat),
      addExpr G c root origin g f (some m) im = .ok (g1, fnode) ∧
      gi.nextB = g1.nextB + 2 ∧ gi.internals = g1.internals ++ [(fnode, g1.nextB + 1)] ∧
      gi.srcNodes = g1.srcNodes ∧ gi.sharedNodes = g1.sharedNodes ∧ gi.fd = g1.fd ∧
      addExpr G c root origin gi x (some g1.nextB) true = .ok (g2, xnode) ∧
      g'.internals = g2.internals ∧
      (∀ fin, (fnode, fin) ∈ g2.fd.frm → (g1.nextB + 1, fin) ∈ g'.fd.frm) ∧
      (∀ j, (fnode, j) ∈ g2.internals → j ≠ g1.nextB + 1 → (j, xnode) ∈ g'.fd.frm) ∧
      (fnode ≠ xnode → (fnode, fnode) ∉ g2.internals → (xnode, fnode) ∉ g2.internals →
        ∀ p, p ∈ g'.fd.frm ↔
          p ∈ g2.fd.frm ∨ p = (xnode, g1.nextB + 1) ∨ p = (fnode, xnode) ∨
          (∃ μ, (xnode, μ) ∈ g2.internals ∧ p = (μ, g1.nextB + 1)) ∨
          (∃ j, (fnode, j) ∈ g2.internals ∧ j ≠ g1.nextB + 1 ∧ p = (j, xnode)) ∨
          (∃ fin, (fnode, fin) ∈ g2.fd.frm ∧ p = (g1.nextB + 1, fin))) := by
  rw [addExpr_app] at h
  simp only [curG] at h
  cases hf : addExpr G c root origin g f (some m) im with
  | error e => rw [hf] at h; cases h
  | ok r1 =>
    obtain ⟨g1, fnode⟩ := r1
    rw [hf] at h
    simp only [hfun] at h
    cases hx : addExpr G c root origin (mkInternalG g1.fresh.1 fnode true).1 x (some g1.fresh.2) true with
    | error e => rw [hx] at h; cases h
    | ok r2 =>
      obtain ⟨g2, xnode⟩ := r2
      rw [hx] at h
      simp only [] at h
      cases h
      have hci : (mkInternalG g1.fresh.1 fnode true).2 = some (g1.nextB + 1) := rfl
      rw [hci]
      have hcore := coreOf_wireG c origin g2 m fnode xnode (some (g1.nextB + 1))
      have hfrm : (wireG c origin g2 m fnode xnode (some (g1.nextB + 1))).fd.frm =
          (wire (coreOf g2) fnode xnode (some (g1.nextB + 1))).frm := congrArg Core.frm hcore
      have hint : (wireG c origin g2 m fnode xnode (some (g1.nextB + 1))).internals = g2.internals := by
        have := congrArg Core.ints hcore
        rw [(wire_frame _ _ _ _).2.2.2] at this
        exact this
      refine ⟨g1, fnode, (mkInternalG g1.fresh.1 fnode true).1, g2, xnode, rfl, ?_, ?_, ?_, ?_, ?_, hx, hint, ?_, ?_, ?_⟩
      · have := congrArg Core.nextB (coreOf_mkInternalG g1.fresh.1 fnode true); exact this
      · have := congrArg Core.ints (coreOf_mkInternalG g1.fresh.1 fnode true); exact this
      · have := congrArg Core.src (coreOf_mkInternalG g1.fresh.1 fnode true); exact this
      · have := congrArg Core.shared (coreOf_mkInternalG g1.fresh.1 fnode true); exact this
      · show (mkInternalG g1.fresh.1 fnode true).1.fd = g1.fd
        simp only [mkInternalG, if_true]
        rw [add_fd]; rfl
      · intro fin hfin
        rw [hfrm]; exact wire_some_inputs _ _ _ _ _ hfin
      · intro j hj hji
        rw [hfrm]; exact wire_some_siblings _ _ _ _ _ hj hji
      · intro h1 h2 h3 p
        rw [hfrm]
        exact wire_some_mem_all (coreOf g2) fnode xnode (g1.nextB + 1) p h1 h2 h3

end Tfv.C08P
