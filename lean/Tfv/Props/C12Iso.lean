import Tfv.Props.C12Inline
import Tfv.Proofs.WorkflowIsoCheck
import Tfv.Proofs.WorkflowIsoNode
import Tfv.Proofs.WorkflowIsoCounter
import Tfv.Proofs.WorkflowIsoSymm
/-!
# C12, main clause, up to blank-node names — graph isomorphism and the renaming of the blank-node supply

Statements only; proofs in `Tfv/Proofs/WorkflowIso*.lean`.

What is proved here. (1) Graph isomorphism `GIso ρ a b` for the model's triples (lists read as sets), an equivalence
(`C12i_iso_refl`, `C12i_iso_trans`), with a sound decision procedure for a GIVEN renaming (`C12i_iso_check_sound`).
(2) The first half of the route to the general theorem: `addExpr` is EQUIVARIANT under an injective renaming of its
blank-node supply (`C12i_addExpr_equivariant`, `C12i_addExpr_iso`) — EVERY configuration (types, non-canonical type
nodes, `withDependencies`, origins), errors included — and so is the target stage `wfNode` of `add_workflow`
(`C12i_wfNode_equivariant`, `C12i_counter_start`). (3) The isomorphism itself, with the renamings found by
evaluation in `C12Inline`, kernel checked on `wf1` and on the diamond workflow `wf2` under the default configuration
without origins (`C12i_wf1_iso`, `C12i_wf2_iso`; types, supertypes, membership and the `depends` closure ON).

What is NOT proved: the general isomorphism `C12i_Goal` (stated below as a `Prop`, not as a theorem), not even for
chains. The missing half is that the inputs-first trace and the single call visit the same tagged sub-expressions in a
different ORDER; relating the two needs, besides equivariance, a FRAME lemma for `addExpr` on set-like states and
order-independence of the `depends` closure — see the comment at `C12i_Goal`.
-/
namespace Tfv.C12
open Tfv Tfv.GraphEx

/-! ## 1. Graph isomorphism -/

/-- **Graph isomorphism.** `GIso ρ a b`: the renaming `ρ` of blank-node numbers is injective on the blank nodes used in
`a`, and `b` is, as a set of triples, the image of `a`: `∀ t, t ∈ b ↔ t ∈ a.map (renT ρ)`. The identity is one. -/
theorem C12i_iso_refl (a : List Triple) : GIso id a a := GIso.refl a

/-- isomorphisms compose -/
theorem C12i_iso_trans {ρ σ : Nat → Nat} {a b d : List Triple} (h1 : GIso ρ a b) (h2 : GIso σ b d) :
    GIso (σ ∘ ρ) a d := h1.trans h2

/-- isomorphisms have inverses: some `σ` is an isomorphism from `b` onto `a` and undoes `ρ` on the blank nodes of `a` -/
theorem C12i_iso_symm {ρ : Nat → Nat} {a b : List Triple} (h : GIso ρ a b) :
    ∃ σ : Nat → Nat, GIso σ b a ∧ ∀ t ∈ a, ∀ k ∈ nodesOfT t, σ (ρ k) = k := h.symm

example : ∃ σ : Nat → Nat, GIso σ [(.b 7, .tf "from", .b 3)] [(.b 0, .tf "from", .b 1)] ∧
    ∀ t ∈ [((.b 0, .tf "from", .b 1) : Triple)], ∀ k ∈ nodesOfT t, σ (ρOf [(0, 7), (1, 3)] k) = k :=
  C12i_iso_symm (isoB_sound (by decide))

/-- what an isomorphism says, spelled out -/
theorem C12i_iso_spec {ρ : Nat → Nat} {a b : List Triple} (h : GIso ρ a b) :
    (∀ t ∈ a, ∀ t' ∈ a, ∀ k ∈ nodesOfT t, ∀ k' ∈ nodesOfT t', ρ k = ρ k' → k = k') ∧
      (∀ t, t ∈ b ↔ ∃ s ∈ a, renT ρ s = t) :=
  ⟨h.inj, fun t => by rw [h.image, List.mem_map]⟩

/-- **A sound check for a given renaming**: if `isoB ρ a b` evaluates to `true` (`ρ` is injective on the blank nodes of
`a`; every triple of `b` is a renamed triple of `a` and conversely), `ρ` is an isomorphism from `a` onto `b`. -/
theorem C12i_iso_check_sound {ρ : Nat → Nat} {a b : List Triple} (h : isoB ρ a b = true) : GIso ρ a b := isoB_sound h

example : GIso (ρOf [(0, 7), (1, 3)]) [(.b 0, .tf "from", .b 1), (.b 1, .tf "via", .ns "f")]
    [(.b 3, .tf "via", .ns "f"), (.b 7, .tf "from", .b 3), (.b 3, .tf "via", .ns "f")] :=
  C12i_iso_check_sound (by decide)

/-! ## 2. `addExpr` and the target stage of `add_workflow` are equivariant under a renaming of the blank-node supply -/

/-- **Equivariance of `addExpr`** (EVERY configuration: types, supertypes, type parameters, non-canonical type nodes,
`withDependencies`, origins). `SRen ρ g g'` says that the graph state `g'` is `g` with every blank node `n` renamed to
`ρ n` (triples, registered sources and tags, internal nodes, `from` and `depends` edges, type nodes — as lists), and that
`ρ` maps the blank nodes `g` will allocate next, `g.nextB + i`, to those `g'` will allocate, `g'.nextB + i`. Then for an
injective `ρ` that fixes the root and the origin: if `addExpr` succeeds on `g` with node `n` and state `g2`, it succeeds
on `g'` (with the renamed current node) with node `ρ n` and a state `g2'` that is again the renamed `g2`. So the graph
`addExpr` builds depends on the numbers the counter hands out only through a renaming: `addExpr` drawing its nodes from
the supply `i ↦ ρ (g.nextB + i)` builds the renamed graph. -/
theorem C12i_addExpr_equivariant (G : GLang) (c : GCfg) (root : Node)
    (origin : Option Node) {ρ : Nat → Nat} (hρ : Function.Injective ρ) (hr : renN ρ root = root)
    (ho : ∀ o, origin = some o → renN ρ o = o) (e : TExpr) (g g' : GState) (cur : Option Nat) (inter : Bool)
    (g2 : GState) (n : Nat) (h : SRen ρ g g') (hrun : addExpr G c root origin g e cur inter = .ok (g2, n)) :
    ∃ g2', addExpr G c root origin g' e (cur.map ρ) inter = .ok (g2', ρ n) ∧ SRen ρ g2 g2' :=
  addExpr_ren_ok G c root origin hρ hr ho e g g' cur inter h g2 n hrun

/-- … and it fails on the renamed state with the same error when it fails on the state. -/
theorem C12i_addExpr_equivariant_error (G : GLang) (c : GCfg) (root : Node)
    (origin : Option Node) {ρ : Nat → Nat} (hρ : Function.Injective ρ) (hr : renN ρ root = root)
    (ho : ∀ o, origin = some o → renN ρ o = o) (e : TExpr) (g g' : GState) (cur : Option Nat) (inter : Bool)
    (err : GErr) (h : SRen ρ g g') (hrun : addExpr G c root origin g e cur inter = .error err) :
    addExpr G c root origin g' e (cur.map ρ) inter = .error err :=
  addExpr_ren_error G c root origin hρ hr ho e g g' cur inter h err hrun

/-- **… hence the two graphs are isomorphic**: all triples (`from` and `depends` edges included) of the second run are
the renamed triples of the first, as lists. -/
theorem C12i_addExpr_iso (G : GLang) (c : GCfg) (root : Node)
    (origin : Option Node) {ρ : Nat → Nat} (hρ : Function.Injective ρ) (hr : renN ρ root = root)
    (ho : ∀ o, origin = some o → renN ρ o = o) (e : TExpr) (g g' : GState) (cur : Option Nat) (inter : Bool)
    (g2 : GState) (n : Nat) (h : SRen ρ g g') (hrun : addExpr G c root origin g e cur inter = .ok (g2, n)) :
    ∃ g2', addExpr G c root origin g' e (cur.map ρ) inter = .ok (g2', ρ n) ∧
      g2'.allTriples = g2.allTriples.map (renT ρ) ∧ GIso ρ g2.allTriples g2'.allTriples := by
  obtain ⟨g2', h1, h2⟩ := addExpr_ren_ok G c root origin hρ hr ho e g g' cur inter h g2 n hrun
  exact ⟨g2', h1, h2.allTriples hρ, h2.giso hρ⟩

/-- a renamed state is an isomorphic graph -/
theorem C12i_state_iso {ρ : Nat → Nat} (hρ : Function.Injective ρ) {g g' : GState} (h : SRen ρ g g') :
    GIso ρ g.allTriples g'.allTriples := h.giso hρ

/-- **The target stage of `add_workflow` is equivariant too** (`wfNode`: inputs first, then `addExpr` on the resource's
entry with the resource as origin; any configuration, any table): on a renamed state it succeeds with the renamed
output node and the renamed graph. Both builds of the comparison — the inputs-first trace and the single call — are
thus determined by their supply up to isomorphism. -/
theorem C12i_wfNode_equivariant (G : GLang) (c : GCfg) (w : Wf) {ρ : Nat → Nat} (hρ : Function.Injective ρ)
    (T : List (Nat × TExpr)) (fuel : Nat) (g g' : GState) (r : Nat) (h : SRen ρ g g') (g2 : GState) (n : Nat)
    (hrun : wfNode G c w wfRoot T fuel g r = .ok (g2, n)) :
    ∃ g2', wfNode G c w wfRoot T fuel g' r = .ok (g2', ρ n) ∧ SRen ρ g2 g2' ∧ GIso ρ g2.allTriples g2'.allTriples := by
  have := wfNode_ren hρ G c w (root := wfRoot) rfl T fuel g g' r h
  rw [hrun] at this
  obtain ⟨⟨g2', n'⟩, h1, h2, h3⟩ := this
  simp only at h2 h3
  subst h3
  exact ⟨g2', h1, h2, h2.giso hρ⟩

/-- **The value the blank-node counter starts from does not matter**: the initial graph has no blank node, so started at
`k` it is the initial graph renamed by `n ↦ n + k`; the workflow graph built from there is the workflow graph shifted by
`k`. -/
theorem C12i_counter_start (G : GLang) (c : GCfg) (w : Wf) (T : List (Nat × TExpr)) (fuel : Nat) (r k : Nat)
    (g2 : GState) (n : Nat) (hrun : wfNode G c w wfRoot T fuel (initGraph G c) r = .ok (g2, n)) :
    ∃ g2', wfNode G c w wfRoot T fuel (initGraphAt G c k) r = .ok (g2', n + k) ∧
      GIso (· + k) g2.allTriples g2'.allTriples := by
  obtain ⟨g2', h1, _, h3⟩ := C12i_wfNode_equivariant G c w (ρ := (· + k)) (fun a b hab => by simpa using hab) T fuel _ _ r
    (initGraph_shift G c k) g2 n hrun
  exact ⟨g2', h1, h3⟩

-- non-vacuity: a graph state in which five blank nodes are taken and the tag 1 has node 2, renamed by `n ↦ n + 5`
-- (injective, fixes the root and the origin); the call on the inlined expression of `wf1` succeeds from it (tag 1 is a
-- memo hit, tag 2 is built), with origin, default configuration; the workflow runs of section 3 succeed from the
-- initial graph
example : SRen (· + 5) { nextB := 5, sharedNodes := [(1, 2)] } { nextB := 10, sharedNodes := [(1, 7)] } :=
  ⟨rfl, rfl, rfl, rfl, rfl, fun i => by show 5 + i + 5 = 10 + i; omega, rfl, rfl⟩
example : Function.Injective (fun n : Nat => n + 5) ∧ renN (· + 5) wfRoot = wfRoot ∧
    ∀ o, some (Node.res "r2") = some o → renN (· + 5) o = o :=
  ⟨fun a b h => by simpa using h, rfl, fun o h => by cases h; rfl⟩
example : ((addExpr exG {} wfRoot (some (.res "r2")) { nextB := 5, sharedNodes := [(1, 2)] } wf1inl none
    false).toOption.map (fun p => (p.2, p.1.allTriples.length))) = some (5, 15) := by
  unfold wf1inl
  graph_eval

/-! ## 3. The isomorphism on the two example workflows (kernel checked) -/

/-- **`wf1`: the workflow graph is isomorphic to the graph of the inlined expression.** Default configuration without
origins (`IsoEx.c0`: types, supertypes, membership, dependencies on). The graph after the target stage of `add_workflow`
(`wfNode` on the final table `wf1exprs`) and the graph of ONE `addExpr` call on the tagged inlined expression of the
target, both from the initial graph, are isomorphic under target `0 ↦ 3`, resource 1 `1 ↦ 1`, source `2 ↦ 0`; the
output nodes correspond; the two graphs are not equal. -/
theorem C12i_wf1_iso : ∃ gd nd gw nw,
    addExpr exG IsoEx.c0 wfRoot none (initGraph exG IsoEx.c0) wf1inl none false = .ok (gd, nd) ∧
    wfNode exG IsoEx.c0 wf1 wfRoot wf1exprs 4 (initGraph exG IsoEx.c0) 2 = .ok (gw, nw) ∧
    GIso (ρOf [(0, 3), (1, 1), (2, 0)]) gd.allTriples gw.allTriples ∧ ρOf [(0, 3), (1, 1), (2, 0)] nd = nw ∧
    gd.allTriples ≠ gw.allTriples :=
  IsoEx.okIso_spec IsoEx.wf1_okIso

/-- **`wf2` (diamond: resource 1 is consumed twice): the same**, under target `0 ↦ 5`, resource 1 `1 ↦ 1`, source
`2 ↦ 0`, resource 2 `3 ↦ 3` (the renaming found by evaluation in `C12Inline`, section 4). -/
theorem C12i_wf2_iso : ∃ gd nd gw nw,
    addExpr exG IsoEx.c0 wfRoot none (initGraph exG IsoEx.c0) IsoEx.e2r3 none false = .ok (gd, nd) ∧
    wfNode exG IsoEx.c0 wf2 wfRoot IsoEx.wf2exprs 5 (initGraph exG IsoEx.c0) 3 = .ok (gw, nw) ∧
    GIso (ρOf [(0, 5), (1, 1), (2, 0), (3, 3)]) gd.allTriples gw.allTriples ∧
    ρOf [(0, 5), (1, 1), (2, 0), (3, 3)] nd = nw ∧ gd.allTriples ≠ gw.allTriples :=
  IsoEx.okIso_spec IsoEx.wf2_okIso

-- the table and the expression used in `C12i_wf2_iso` ARE the final table of `wf2` and the inlined expression of its
-- target (evaluation of `add_workflow`'s own stages); its fuel is the one `add_workflow` uses
#guard ((finalTable wops2 wf2 true).map (fun p => toString (repr p.2.1))) == some (toString (repr IsoEx.wf2exprs))
#guard ((finalTable wops2 wf2 true).bind (fun p => (inlineS p.2.1 20 3).map (fun e => toString (repr e))))
  == some (toString (repr IsoEx.e2r3))
/-- give every source occurrence the identifier 0 (`wf1exprs` of the running example writes 0 for the source that
`add_workflow` numbers 2) -/
def srcId0 : TExpr → TExpr
  | .src _ l t => .src 0 l t
  | .op n t => .op n t
  | .app f x t => .app (srcId0 f) (srcId0 x) t
  | .shared k e => .shared k (srcId0 e)
#guard ((finalTable wops wf1 true).map (fun p => toString (repr (p.2.1.map (fun q => (q.1, srcId0 q.2))))))
  == some (toString (repr wf1exprs))
#guard wf2.apps.length + 2 == 5 && wf1.apps.length + 2 == 4
-- … and the hypotheses of the general goal hold for both: every tool input is mentioned by the tool's text
#guard (finalTable wops2 wf2 true).isSome

/-! ## 4. The general theorem — NOT proved -/

/-- every input of every tool is mentioned in the tool's text (as `1`, `2`, …): no unused inputs -/
def allInputsUsed (w : Wf) : Bool :=
  w.apps.all (fun a => (List.range a.inputs.length).all (fun i => a.toks.contains (toString (i + 1))))

#guard allInputsUsed wf1 && allInputsUsed wf2 && !allInputsUsed wfU

/-! ## 3b. The renaming searched for, on further workflows (evaluation; the check itself is proved sound) -/

/-- **The search is sound**: `findIso anchors a b` tries every renaming that extends `anchors` by an injection of the
remaining blank nodes of `a` into those of `b`; what it returns is an isomorphism. -/
theorem C12i_findIso_sound {anchors : List (Nat × Nat)} {a b : List Triple} {m : List (Nat × Nat)}
    (h : findIso anchors a b = some m) : GIso (ρOf m) a b := findIso_sound h

example : findIso [(0, 7)] [(.b 0, .tf "from", .b 1)] [(.b 7, .tf "from", .b 3)] = some [(0, 7), (1, 3)] := by decide

/-- **The conclusion of the goal for ONE run, from a successful search** (what a driver can evaluate on every compared
run): if the search, started from the pair of output nodes and the pairs of registered sources and tags, returns a
renaming that maps the output node of the single call to `out`, the graph `g1` of the target stage is isomorphic to the
graph `gd` of the single call, output nodes corresponding. -/
theorem C12i_goal_instance_of_search (gd g1 : GState) (nd out : Nat) (m : List (Nat × Nat))
    (hs : findIso ((nd, out) :: anchorsOf gd g1) gd.allTriples g1.allTriples = some m) (ho : ρOf m nd = out) :
    ∃ ρ : Nat → Nat, GIso ρ gd.allTriples g1.allTriples ∧ ρ nd = out :=
  ⟨ρOf m, findIso_sound hs, ho⟩

/-- both sides of `C12i_Goal` by evaluation: the final table and store of `add_workflow`, ONE `addExpr` call on the
tagged inlined expression of the target, the target stage `wfNode` (this IS the graph `g1` of `WfRun`), and the search
for a renaming that maps the output node to the output node and extends the pairs of registered sources and tags.
`none`: a stage failed; `some none`: no such renaming -/
def isoRun (ops : List OperatorDecl) (c : GCfg) (w : Wf) : Option (Option (List (Nat × Nat))) :=
  match finalTable ops w true, w.target with
  | some (σf, T, _), .ok tgt =>
    match inlineS T (w.apps.length + 2) tgt with
    | none => none
    | some e =>
      match addExpr (wfGLang exG σf) c wfRoot none (initGraph (wfGLang exG σf) c) e none false,
        wfNode (wfGLang exG σf) c w wfRoot T (w.apps.length + 2) (initGraph (wfGLang exG σf) c) tgt with
      | .ok d, .ok g => some (findIso ((d.2, g.2) :: anchorsOf d.1 g.1) d.1.allTriples g.1.allTriples)
      | _, _ => none
  | _, _ => none

/-- a tool whose text is a nested application -/
def wf3 : Wf := { sources := [0], apps := [{ out := 1, toks := ["g", "(", "f", "1", ")"], inputs := [0] }] }
/-- nested text over a tool output, a source consumed by two tools, resource 2 consumed once, the source passed on -/
def wf4 : Wf := { sources := [0], apps := [{ out := 1, toks := ["f", "1"], inputs := [0] },
  { out := 2, toks := ["g", "1"], inputs := [1] }, { out := 3, toks := ["h", "(", "f", "2", ")", "1"], inputs := [2, 0] }] }

/-- a deeper diamond; inputs listed in another order than the text uses them; nested text -/
def wfA : Wf := { sources := [0], apps := [
  { out := 1, toks := ["f", "1"], inputs := [0] },
  { out := 2, toks := ["g", "1"], inputs := [1] },
  { out := 3, toks := ["h", "2", "1"], inputs := [2, 1] },
  { out := 4, toks := ["h", "1", "2"], inputs := [1, 3] },
  { out := 5, toks := ["h", "(", "f", "2", ")", "(", "h", "3", "1", ")"], inputs := [3, 4, 1] }] }
/-- two sources, the second one only used inside nested text -/
def wfC : Wf := { sources := [0, 9], apps := [
  { out := 1, toks := ["f", "1"], inputs := [0] },
  { out := 2, toks := ["h", "1", "(", "g", "(", "f", "2", ")", ")"], inputs := [1, 9] },
  { out := 3, toks := ["h", "(", "f", "2", ")", "1"], inputs := [2, 9] }] }
#guard (isoRun wops2 IsoEx.c0 wfA).bind id |>.isSome
#guard (isoRun wops2 IsoEx.c0 wfC).bind id |>.isSome
#guard allInputsUsed wfA && allInputsUsed wfC

-- the renamings of section 3 are found, and the goal holds on `wf3`, `wf4` (default configuration without origins),
-- with types off, with dependencies off
#guard isoRun wops IsoEx.c0 wf1 == some (some [(0, 3), (1, 1), (0, 3), (2, 0)])
#guard isoRun wops2 IsoEx.c0 wf2 == some (some [(0, 5), (1, 1), (3, 3), (0, 5), (2, 0)])
#guard isoRun wops IsoEx.c0 wf3 == some (some [(0, 1), (0, 1), (2, 0), (1, 2)])
#guard isoRun wops2 IsoEx.c0 wf4 == some (some [(0, 5), (4, 1), (3, 3), (0, 5), (2, 0), (1, 6)])
#guard isoRun wops2 { withWorkflowOrigin := false, withTypes := false } wf2 == some (some [(0, 5), (1, 1), (3, 3), (0, 5), (2, 0)])
#guard isoRun wops2 { withWorkflowOrigin := false, withDependencies := false } wf4
  == some (some [(0, 5), (4, 1), (3, 3), (0, 5), (2, 0), (1, 6)])
#guard allInputsUsed wf3 && allInputsUsed wf4
-- **the hypotheses of the goal are needed**: with an unused input (`wfU`), and with `withIntermediateTypes = false`
-- while types are on, both runs succeed and NO renaming (extending the registered sources and tags) is an isomorphism
#guard isoRun wops IsoEx.c0 wfU == some none
#guard isoRun wops2 { withWorkflowOrigin := false, withIntermediateTypes := false } wf2 == some none

/-! ## 3c. Two hypotheses of the goal that cannot be dropped (kernel checked) -/

/-- **Counterexample: `withIntermediateTypes = false` with types on.** For `wf1` both builds succeed and NO renaming
whatsoever is an isomorphism: the workflow graph has a `tf:type` triple with object `B` (the intermediate resource 1 is
typed like a top-level expression), the graph of the inlined expression has none — and an isomorphism preserves
predicates and non-blank objects. -/
theorem C12i_intermediate_types_needed : ∃ gd nd gw nw,
    addExpr exG IsoEx.cNI wfRoot none (initGraph exG IsoEx.cNI) wf1inl none false = .ok (gd, nd) ∧
    wfNode exG IsoEx.cNI wf1 wfRoot wf1exprs 4 (initGraph exG IsoEx.cNI) 2 = .ok (gw, nw) ∧
    ∀ ρ : Nat → Nat, ¬ GIso ρ gd.allTriples gw.allTriples :=
  IsoEx.ni_not_iso

/-- **Counterexample: an input that the tool's text does not mention** (`wfU`: tool 2 lists resource 3, its text is
`g 1`). Both builds succeed and NO renaming is an isomorphism: the workflow graph has two distinct nodes `via f`
(resources 1 and 3), the graph of the inlined expression has one. -/
theorem C12i_unused_input_breaks : ∃ gd nd gw nw,
    addExpr exG IsoEx.c0 wfRoot none (initGraph exG IsoEx.c0) IsoEx.eUr2 none false = .ok (gd, nd) ∧
    wfNode exG IsoEx.c0 wfU wfRoot IsoEx.wfUexprs 5 (initGraph exG IsoEx.c0) 2 = .ok (gw, nw) ∧
    ∀ ρ : Nat → Nat, ¬ GIso ρ gd.allTriples gw.allTriples :=
  IsoEx.u_not_iso

-- the table and expression of the second counterexample are `add_workflow`'s own
#guard ((finalTable wops wfU true).map (fun p => toString (repr p.2.1))) == some (toString (repr IsoEx.wfUexprs))
#guard ((finalTable wops wfU true).bind (fun p => (inlineS p.2.1 20 2).map (fun e => toString (repr e))))
  == some (toString (repr IsoEx.eUr2))

/-- `f` as a resource, `map`, `k`: operators for workflows with function-valued resources -/
def ops3 : List OperatorDecl := wops2 ++ [
  ⟨"map", ⟨0, 0, tmFn (tmFn tmA tmB) (tmFn (tmF tmA) (tmF tmB)), []⟩⟩,
  ⟨"k", ⟨0, 0, tmFn (tmF tmB) (tmFn (tmF tmB) tmC), []⟩⟩]
/-- resource 1 is the operator `f` itself; tool 2 APPLIES it to the source (an input in function position) -/
def wfH2 : Wf := { sources := [0], apps := [
  { out := 1, toks := ["f"], inputs := [] },
  { out := 2, toks := ["1", "2"], inputs := [1, 0] },
  { out := 3, toks := ["g", "1"], inputs := [2] }] }
/-- resource 1 is the operator `f` itself, PASSED to `map` twice -/
def wfH : Wf := { sources := [0], apps := [
  { out := 1, toks := ["f"], inputs := [] },
  { out := 2, toks := ["map", "1", "2"], inputs := [1, 0] },
  { out := 3, toks := ["map", "1", "2"], inputs := [1, 0] },
  { out := 4, toks := ["k", "1", "2"], inputs := [2, 3] }] }

/-- **Counterexample (found here): a function-valued resource in function position.** `wfH2`: `r1 = f`, `r2 = r1 r0`,
`r3 = g r2`; all hypotheses of the goal as first stated hold (passthrough, every input used, no origins, intermediate
types on). Both builds succeed and NO renaming is an isomorphism. The single call gives resources 1 and 2 the SAME node
(an application hands its node to its function part): `g → f → source`. The workflow builds resource 1 first (node 0,
`via f`); the call for resource 2 allocates a new node for the application, the function part is a memo hit (node 0),
the edge `0 → source` is added, and the NEW node — which carries no `via` and no edge — is registered as resource 2 and
becomes the input of `g`: `g → (empty node)`, `f → source`. (A `from` path of length 2 exists in one graph only.) So the
goal needs the further hypothesis `noInputHead`: no tool applies one of its inputs. -/
theorem C12i_function_resource_breaks : ∃ gd nd gw nw,
    addExpr exG IsoEx.c0 wfRoot none (initGraph exG IsoEx.c0) IsoEx.eHr3 none false = .ok (gd, nd) ∧
    wfNode exG IsoEx.c0 wfH2 wfRoot IsoEx.wfH2exprs 5 (initGraph exG IsoEx.c0) 3 = .ok (gw, nw) ∧
    ∀ ρ : Nat → Nat, ¬ GIso ρ gd.allTriples gw.allTriples :=
  IsoEx.h_not_iso

#guard ((finalTable ops3 wfH2 true).map (fun p => toString (repr p.2.1))) == some (toString (repr IsoEx.wfH2exprs))
#guard ((finalTable ops3 wfH2 true).bind (fun p => (inlineS p.2.1 20 3).map (fun e => toString (repr e))))
  == some (toString (repr IsoEx.eHr3))
#guard allInputsUsed wfH2 && isoRun ops3 IsoEx.c0 wfH2 == some none
-- a function-valued resource PASSED as an argument (twice) is fine: internal nodes, renaming found
#guard isoRun ops3 IsoEx.c0 wfH == some (some [(0, 10), (2, 0), (1, 2), (5, 6), (0, 10), (4, 1), (3, 4), (7, 8)])

/-- operators whose types are NOT canonical (`F(F(A))`, `F(F(B))`): their nodes get blank type nodes, allocated in
first-use order -/
def ops4 : List OperatorDecl := ops3 ++ [
  ⟨"wrap", ⟨0, 0, tmFn (tmF tmA) (tmF (tmF tmA)), []⟩⟩,
  ⟨"wrapB", ⟨0, 0, tmFn (tmF tmB) (tmF (tmF tmB)), []⟩⟩,
  ⟨"join", ⟨0, 0, tmFn (tmF (tmF tmA)) (tmFn (tmF (tmF tmB)) tmC), []⟩⟩]
def wfF : Wf := { sources := [0], apps := [
  { out := 1, toks := ["f"], inputs := [] },
  { out := 2, toks := ["map", "1", "2"], inputs := [1, 0] },
  { out := 3, toks := ["wrapB", "1"], inputs := [2] },
  { out := 4, toks := ["wrap", "1"], inputs := [0] },
  { out := 5, toks := ["join", "1", "2"], inputs := [4, 3] }] }
-- with blank type nodes too a renaming is found (default configuration without origins; with supertype classes; with
-- `withCanonicalTypes`; without non-canonical types)
#guard (isoRun ops4 IsoEx.c0 wfF).bind id |>.isSome
#guard (isoRun ops4 { withWorkflowOrigin := false, withSupertypeClasses := true } wfF).bind id |>.isSome
#guard (isoRun ops4 { withWorkflowOrigin := false, withCanonicalTypes := true } wfF).bind id |>.isSome
#guard (isoRun ops4 { withWorkflowOrigin := false, withNoncanonicalTypes := false } wfF).bind id |>.isSome
#guard ((addWorkflow wP exG ops4 IsoEx.c0 true wfF).toOption.map (fun p => p.1.typeNodes.any (fun q => q.2.isBlank)))
  == some true

/-- the function part of an application is never a tagged expression or a source: no tool applies one of its inputs -/
def noInputHead : TExpr → Bool
  | .app f x _ => (match f with
      | .shared _ _ => false
      | .src _ _ _ => false
      | _ => true) && noInputHead f && noInputHead x
  | .shared _ e => noInputHead e
  | _ => true

#guard ((finalTable ops3 wfH2 true).map (fun p => p.2.1.all (fun q => noInputHead q.2))) == some false
#guard ((finalTable ops3 wfH true).map (fun p => p.2.1.all (fun q => noInputHead q.2))) == some true
#guard ((finalTable wops2 wf4 true).map (fun p => p.2.1.all (fun q => noInputHead q.2))) == some true
#guard ((finalTable wops2 wf2 true).map (fun p => p.2.1.all (fun q => noInputHead q.2))) == some true

/-- **The goal (a `Prop`, not a theorem).** Passthrough, no unused inputs, no origins, intermediate types on or types
off, no tool applies one of its inputs (`noInputHead`, needed: `C12i_function_resource_breaks`): whenever `addWorkflow` succeeds (stages `WfRun`, graph `g1` after the target stage, final table `T`), ONE `addExpr`
call on the tagged inlined expression of the target from the initial graph succeeds too, and its graph is isomorphic
to `g1`, the output nodes corresponding.

Proved of it: the instances `wf1` and `wf2` (`C12i_wf1_iso`, `C12i_wf2_iso`), and the equivariance half
(`C12i_addExpr_equivariant`). Missing, for chains already: (a) a *frame* lemma — `addExpr` on a tagged sub-expression
whose tag is new adds the same triples and edges (up to the renaming of its own fresh nodes) whether it runs from the
state before the consuming tool (workflow order) or in the middle of the consuming tool's expression (single call):
the application case reads `objectsOf frm fnode` and the `internals` of `fnode`/`xnode`, which must be shown to see
only nodes of the sub-expression itself and of its tagged parts; (b) a *set-level* version of `SRen` (the two orders
produce the triples and edges in different list orders, and the later folds over `objectsOf …` run in those orders);
(c) with `withDependencies`, that the `depends` relation does not depend on the order in which the `from` edges are
added (it is their transitive closure, C09) — `crossAdd` reads `subjectsOf dep a` for memo-hit nodes `a`, which differs
between the two orders at intermediate stages; (d) with `withNoncanonicalTypes`, `addType` allocates blank nodes for non-canonical
types in first-use order, and registers the type's parameters and supertypes at that moment: the type part of the two
graphs must be related as sets as well. -/
def C12i_Goal : Prop :=
  ∀ (P : PLang) (G : GLang) (ops : List OperatorDecl) (c : GCfg) (w : Wf) (g : GState) (out : Nat)
    (m : List (Nat × Nat)) (xs0 : XState) (stypes : List (Nat × Term)) (tgt : Nat) (ws : WState) (te : TExpr)
    (σf : Store) (te' : TExpr) (g1 g3 : GState),
    WfRun P G ops c true w g out m xs0 stypes tgt ws te σf te' g1 g3 →
    allInputsUsed w = true → c.withWorkflowOrigin = false → (c.withIntermediateTypes = true ∨ c.withTypes = false) →
    w.sources.Nodup → TyCoh (wfFinalExprs ws te') → (∀ p ∈ wfFinalExprs ws te', noInputHead p.2 = true) →
    ∀ e, inlineS (wfFinalExprs ws te') (w.apps.length + 2) tgt = some e →
      ∃ gd nd ρ, addExpr (wfGLang G σf) c wfRoot none (initGraph (wfGLang G σf) c) e none false = .ok (gd, nd) ∧
        GIso ρ gd.allTriples g1.allTriples ∧ ρ nd = out

end Tfv.C12
