import Tfv.Proofs.ResolvedConstrExamples
open Tfv Tfv.C03P Tfv.C03C Tfv.C03R

def sEl : Schema :=
  { nvars := 1, nwild := 0, body := .app FUN [.var 0, .var 0],
    constraints := [.elim (.var 0) [.app 5 [], .app 7 [.app 5 []]]] }

def show' (s : Schema) (xs : List Term) : String :=
  match instK exL 200 {} s with
  | .ok (σ1, f) => match applyAllK exL 200 true σ1 f xs with
    | .ok (σ', r) => s!"{repr r} | {repr σ'.constrs} | {repr σ'.vars}"
    | .error e => s!"err2 {repr e}"
  | .error e => s!"err1 {repr e}"

#eval show' sEl [.app BOT []]
#eval show' sEl [.app 6 []]
#eval show' sEl [.app 7 [.app 6 []]]
#eval show' sEl [.app 0 []]
def sEl2 : Schema :=
  { nvars := 1, nwild := 0, body := .app FUN [.var 0, .var 0],
    constraints := [.elim (.var 0) [.app 7 [.app 5 []], .app 7 [.app 0 []]]] }
#eval show' sEl2 [.app 7 [.app BOT []]]
#eval show' sEl2 [.app 7 [.app 6 []]]
#eval show' sElVar [.app 6 [], .app 6 []]
#eval show' sElVar [.app 5 [], .app 6 []]
