import Tfv.Proofs.QueryMeaning
/-!
# Part B: the generated query is accepted iff the task matches
-/
namespace Tfv

variable {g : List Triple} {wf : Node} {env : QEnv}

/-! ## chronology -/

theorem AssignOk.mem_afters {t : QTask} {a : QAssign} (h : AssignOk t a) {k : Nat} {v : QVar} :
    v ∈ aftersOf a [k] ↔ ∃ c, v = [c] ∧ StepReach t c ∧ k ∈ (t.step c).from_ := by
  rw [mem_aftersOf, h.links]
  constructor
  · rintro ⟨c, b, hc, hb, heq⟩
    simp only [Prod.mk.injEq, List.cons.injEq, and_true] at heq
    obtain ⟨rfl, rfl⟩ := heq
    exact ⟨c, rfl, hc, hb⟩
  · rintro ⟨c, rfl, hc, hb⟩
    exact ⟨c, k, hc, hb, rfl⟩

/-- the path of the clause for a link `c → k` -/
def linkPath (t : QTask) (c k : Nat) : QPath := if relaxedLink t c k then .opt "depends" else .pred "depends"

theorem depClauses_meaning {t : QTask} {a : QAssign} (h : AssignOk t a) (k : Nat) :
    SatAll g wf env (depClauses t a ([k], k)) ↔
      ∀ c, StepReach t c → k ∈ (t.step c).from_ → SatTriple g wf env ⟨.var [c], linkPath t c k, .var [k]⟩ := by
  unfold depClauses SatAll
  simp only [List.mem_map, List.mem_eraseDups]
  constructor
  · intro hs c hc hb
    have := hs _ ⟨[c], h.mem_afters.2 ⟨c, rfl, hc, hb⟩, rfl⟩
    simp only [SatClause] at this
    rw [h.stepOf hc] at this
    exact this
  · rintro hs cl ⟨v, hv, rfl⟩
    obtain ⟨c, rfl, hc, hb⟩ := h.mem_afters.1 hv
    simp only [SatClause]
    rw [h.stepOf hc]
    exact hs c hc hb

theorem chronPiece_cases {G : GLang} {t : QTask} {a : QAssign} (h : AssignOk t a) {k : Nat} {cs : List QClause}
    (hp : chronPiece G t a ([k], k) = .ok cs) :
    ((∀ c, StepReach t c → k ∉ (t.step c).from_) ∧ cs = viaClauses [k] (t.step k).ops) ∨
    ((∃ c, StepReach t c ∧ k ∈ (t.step c).from_) ∧ ∃ sub, subtypeOfClauses G [k] (t.step k).types = .ok sub ∧
      cs = depClauses t a ([k], k) ++ viaClauses [k] (t.step k).ops ++ sub) := by
  unfold chronPiece at hp
  simp only at hp
  split at hp
  · rename_i he
    left
    simp only [List.isEmpty_iff] at he
    simp only [Except.ok.injEq] at hp
    refine ⟨?_, hp.symm⟩
    intro c hc hb
    have : [c] ∈ aftersOf a [k] := h.mem_afters.2 ⟨c, rfl, hc, hb⟩
    rw [he] at this
    cases this
  · rename_i he
    right
    simp only [List.isEmpty_iff] at he
    split at hp
    · cases hp
    · rename_i sub hsub
      simp only [Except.ok.injEq] at hp
      refine ⟨?_, sub, hsub, hp.symm⟩
      cases hx : aftersOf a [k] with
      | nil => exact absurd hx he
      | cons v vs =>
        have : v ∈ aftersOf a [k] := by rw [hx]; simp
        obtain ⟨c, _, hc, hb⟩ := h.mem_afters.1 this
        exact ⟨c, hc, hb⟩

/-! ## pre-filter -/

theorem operatorsClauses_meaning (t : QTask) (a : QAssign) :
    SatAll g wf env (operatorsClauses t a) ↔
      ∀ p ∈ a.vars, ∀ o, (t.step p.2).ops = [o] → (wf, Node.tf "containsOperation", Node.ns o) ∈ g := by
  unfold operatorsClauses SatAll
  simp only [List.mem_map, List.mem_eraseDups, List.mem_filterMap]
  constructor
  · intro hs p hp o ho
    have := hs _ ⟨o, ⟨p, hp, by rw [ho]⟩, rfl⟩
    exact satTriple_wf_node.1 this
  · rintro hs cl ⟨o, ⟨p, hp, hpo⟩, rfl⟩
    apply satTriple_wf_node.2
    apply hs p hp o
    split at hpo
    · rename_i o' ho'
      simp only [Option.some.injEq] at hpo
      rw [ho', hpo]
    · cases hpo

theorem typeClause_meaning {G : GLang} {ts : List Ty} {c : QClause} (h : typeClause G ts = .ok c) :
    SatClause g wf env c ↔ ∃ T ∈ ts, HasType G g wf T := by
  have key : ∀ us : List Node, All₂ (fun ty u => typeUri G ty.toTerm = .ok u) ts us →
      ((∃ u ∈ us, (wf, Node.tf "containsType", u) ∈ g) ↔ ∃ T ∈ ts, HasType G g wf T) := by
    intro us hall
    constructor
    · rintro ⟨u, hu, hg⟩
      obtain ⟨T, hT, hTu⟩ := forall₂_right hall u hu
      exact ⟨T, hT, u, hTu, hg⟩
    · rintro ⟨T, hT, u, hTu, hg⟩
      obtain ⟨u', hu', hTu'⟩ := forall₂_left hall T hT
      rw [hTu] at hTu'
      simp only [Except.ok.injEq] at hTu'
      subst hTu'
      exact ⟨u, hu', hg⟩
  unfold typeClause at h
  split at h
  · cases h
  · rename_i u hu
    simp only [Except.ok.injEq] at h
    subst h
    rw [← key [u] (mapM_ok _ _ _ hu)]
    simp only [SatClause, satTriple_wf_node, List.mem_singleton, exists_eq_left]
  · rename_i us _ hu
    simp only [Except.ok.injEq] at h
    subst h
    rw [← key us (mapM_ok _ _ _ hu)]
    simp only [SatClause, List.mem_map]
    constructor
    · rintro ⟨tr, ⟨u, hu', rfl⟩, hs⟩
      exact ⟨u, hu', satTriple_wf_node.1 hs⟩
    · rintro ⟨u, hu', hg⟩
      exact ⟨_, ⟨u, hu', rfl⟩, satTriple_wf_node.2 hg⟩

theorem typesClauses_meaning {G : GLang} {t : QTask} {a : QAssign} {cs : List QClause}
    (h : typesClauses G t a = .ok cs) :
    SatAll g wf env cs ↔
      satBag (bagOf (leTyB G.types) (a.vars.map (fun p => (t.step p.2).types))) (HasType G g wf) := by
  rw [typesClauses_eq] at h
  have hall := mapM_ok _ _ _ h
  unfold SatAll satBag
  constructor
  · intro hs ts hts
    obtain ⟨c, hc, htc⟩ := forall₂_left hall ts hts
    exact (typeClause_meaning htc).1 (hs c hc)
  · intro hb c hc
    obtain ⟨ts, hts, htc⟩ := forall₂_right hall c hc
    exact (typeClause_meaning htc).2 (hb ts hts)

/-! ## the two directions -/

/-- the reduced bag means what the requirements mean (C20, given an order and an up-closed set of contained types) -/
def BagExact (G : GLang) (t : QTask) (g : List Triple) (wf : Node) : Prop :=
  ∀ reqs : List (List Ty), (∀ r ∈ reqs, ∃ k, StepReach t k ∧ r = (t.step k).types) →
    (satBag (bagOf (leTyB G.types) reqs) (HasType G g wf) ↔ ∀ r ∈ reqs, r ≠ [] → ∃ T ∈ r, HasType G g wf T)

theorem reqs_reach {t : QTask} {a : QAssign} (ha : AssignOk t a) :
    ∀ r ∈ a.vars.map (fun p => (t.step p.2).types), ∃ k, StepReach t k ∧ r = (t.step k).types := by
  intro r hr
  simp only [List.mem_map] at hr
  obtain ⟨p, hp, rfl⟩ := hr
  exact ⟨p.2, ((ha.mem_vars p).1 hp).2, rfl⟩

theorem matchesBy_of_sat {G : GLang} {t : QTask} {f : QFlags} {a : QAssign} {q : Query}
    (ha : AssignOk t a) (hq : genFrom G t f a = .ok q)
    (hbag : f.byTypes = true → BagExact G t g wf) {envp envb : QEnv}
    (hpre : SatAll g wf envp q.prefilter) (hbody : SatAll g wf envb q.body) :
    MatchesBy G t f g wf (fun k => (qlookup envb [k]).getD wf) := by
  obtain ⟨pre2, outs, ins, chron, h1, h2, h3, h4, rfl⟩ := genFrom_ok hq
  simp only at hpre hbody
  rw [satAll_append, satAll_append, satAll_flatten, satAll_flatten] at hbody
  obtain ⟨⟨hso, hsi⟩, hsc⟩ := hbody
  rw [satAll_append] at hpre
  obtain ⟨hp1, hp2⟩ := hpre
  have hout : ∀ o ∈ t.outputs, ∃ n, qlookup envb [o] = some n ∧ pathHolds g (outPath f) wf n = true ∧
      TypeOk G g n (t.step o).types := by
    intro o ho
    have hm : [o] ∈ a.outs := (ha.outs _).2 ⟨o, ho, rfl⟩
    obtain ⟨cs, hcs, hoc⟩ := forall₂_left (mapM_ok _ _ _ h2) _ hm
    have := (outClause_meaning hoc).1 (hso cs hcs)
    rw [ha.stepOf (.out ho)] at this
    exact this
  have hpiece : f.byChronology = true → ∀ k, StepReach t k →
      ∃ cs, chronPiece G t a ([k], k) = .ok cs ∧ SatAll g wf envb cs := by
    intro hch k hk
    unfold chronOf at h4
    rw [hch] at h4
    simp only [Bool.not_true, Bool.false_eq_true, if_false] at h4
    obtain ⟨ps, hps, rfl⟩ := foldlM_pieces (chronPiece G t a) _ _ _ h4
    obtain ⟨cs, hcs, hpc⟩ := forall₂_left hps _ ((ha.vars k).2 hk)
    refine ⟨cs, hpc, ?_⟩
    rw [List.nil_append, satAll_flatten] at hsc
    exact hsc cs hcs
  have hlink : f.byChronology = true → ∀ c b, StepReach t c → b ∈ (t.step c).from_ →
      SatTriple g wf envb ⟨.var [c], linkPath t c b, .var [b]⟩ := by
    intro hch c b hc hb
    obtain ⟨cs, hpc, hs⟩ := hpiece hch b (.step hc hb)
    rcases chronPiece_cases ha hpc with ⟨hno, _⟩ | ⟨_, sub, hsub, rfl⟩
    · exact absurd hb (hno c hc)
    · rw [satAll_append, satAll_append] at hs
      exact (depClauses_meaning ha b).1 hs.1.1 c hc hb
  have hbound : f.byChronology = true → ∀ k, StepReach t k → ∃ n, qlookup envb [k] = some n := by
    intro hch k hk
    cases hk with
    | out ho =>
      obtain ⟨n, hn, _⟩ := hout k ho
      exact ⟨n, hn⟩
    | step hc hb =>
      obtain ⟨x, y, _, hy, _⟩ := satTriple_var_var.1 (hlink hch _ _ hc hb)
      exact ⟨y, hy⟩
  refine ⟨?_, ?_, ?_, ?_, ?_, ?_⟩
  · intro o ho
    obtain ⟨n, hn, hp, ht⟩ := hout o ho
    simp only [hn, Option.getD_some]
    exact ⟨(outPath_meaning f n).1 hp, ht⟩
  · intro hch k hk
    obtain ⟨n, hn⟩ := hbound hch k hk
    simp only [hn, Option.getD_some]
    obtain ⟨cs, hpc, hs⟩ := hpiece hch k hk
    rcases chronPiece_cases ha hpc with ⟨hno, rfl⟩ | ⟨_, sub, hsub, rfl⟩
    · refine ⟨(via_meaning hn).1 hs, ?_⟩
      have ho : k ∈ t.outputs := by
        cases hk with
        | out ho => exact ho
        | step hc hb => exact absurd hb (hno _ hc)
      obtain ⟨n', hn', _, ht⟩ := hout k ho
      rw [hn] at hn'
      simp only [Option.some.injEq] at hn'
      subst hn'
      exact ht
    · rw [satAll_append, satAll_append] at hs
      exact ⟨(via_meaning hn).1 hs.1.2, (subtypeOf_meaning hsub hn).1 hs.2⟩
  · intro hch c b hc hb
    obtain ⟨x, y, hx, hy, hp⟩ := satTriple_var_var.1 (hlink hch c b hc hb)
    simp only [hx, hy, Option.getD_some]
    unfold linkPath at hp
    split at hp
    · rename_i hr
      rcases (pathHolds_opt g _ x y).1 hp with rfl | he
      · exact Or.inr ⟨hr, rfl⟩
      · exact Or.inl he
    · exact Or.inl ((pathHolds_pred g _ x y).1 hp)
  · intro hio i hi hr
    rw [if_pos hio] at h3
    have hm : [i] ∈ a.ins := (ha.ins _).2 ⟨i, hr, hi, rfl⟩
    obtain ⟨cs, hcs, hic⟩ := forall₂_left (mapM_ok _ _ _ h3) _ hm
    obtain ⟨n, hn, hp, ht⟩ := (inClause_meaning hic).1 (hsi cs hcs)
    rw [ha.stepOf hr] at ht
    simp only [hn, Option.getD_some]
    exact ⟨(inPath_meaning f n).1 hp, ht⟩
  · intro hop k o hk hops
    rw [if_pos hop] at hp1
    exact (operatorsClauses_meaning t a).1 hp1 ([k], k) ((ha.vars k).2 hk) o hops
  · intro hty k hk hne
    rw [if_pos hty] at h1
    have := (typesClauses_meaning h1).1 hp2
    rw [hbag hty _ (reqs_reach ha)] at this
    exact this _ (List.mem_map.2 ⟨([k], k), (ha.vars k).2 hk, rfl⟩) hne

/-- the environment that an assignment of steps to nodes induces -/
def envOf (a : QAssign) (h : Nat → Node) : QEnv := a.vars.map (fun p => (p.1, h p.2))

theorem lookup_envOf {t : QTask} {a : QAssign} (ha : AssignOk t a) (h : Nat → Node) {k : Nat} (hk : StepReach t k) :
    qlookup (envOf a h) [k] = some (h k) := by
  unfold qlookup envOf
  rw [List.find?_map]
  cases hx : a.vars.find? ((fun p => p.1 == [k]) ∘ (fun p => (p.1, h p.2))) with
  | none =>
    have := List.find?_eq_none.1 hx _ ((ha.vars k).2 hk)
    simp at this
  | some p =>
    have hm := List.mem_of_find?_eq_some hx
    have hp := List.find?_some hx
    simp only [Function.comp, beq_iff_eq] at hp
    have := ha.shape p hm
    rw [hp] at this
    simp only [List.cons.injEq, and_true] at this
    simp [this]

theorem reach_in_graph {G : GLang} {t : QTask} {f : QFlags} {h : Nat → Node}
    (hm : MatchesBy G t f g wf h) (hch : f.byChronology = true) :
    ∀ k, StepReach t k → h k ∈ graphNodes g := by
  intro k hk
  induction hk with
  | out ho =>
    rcases (hm.output _ ho).1 with h1 | ⟨_, m, _, h2⟩
    · exact obj_mem_graphNodes h1
    · exact obj_mem_graphNodes h2
  | step hc hb ih =>
    rcases hm.link hch _ _ hc hb with h1 | ⟨_, h2⟩
    · exact obj_mem_graphNodes h1
    · rw [← h2]
      exact ih

theorem sat_of_matchesBy {G : GLang} {t : QTask} {f : QFlags} {a : QAssign} {q : Query}
    (ha : AssignOk t a) (hq : genFrom G t f a = .ok q)
    (hbag : f.byTypes = true → BagExact G t g wf) {h : Nat → Node} (hm : MatchesBy G t f g wf h) :
    SatisfiableIn (graphNodes g) g wf q.prefilter ∧ SatisfiableIn (graphNodes g) g wf q.body := by
  have hshape := genFrom_shape hq
  obtain ⟨pre2, outs, ins, chron, h1, h2, h3, h4, rfl⟩ := genFrom_ok hq
  simp only at hshape ⊢
  constructor
  · refine ⟨[], ?_, ?_⟩
    · rw [satAll_append]
      constructor
      · split
        · rename_i hop
          apply (operatorsClauses_meaning t a).2
          intro p hp o ho
          obtain ⟨hp1, hp2⟩ := (ha.mem_vars p).1 hp
          exact hm.preOps hop p.2 o hp2 ho
        · exact satAll_nil
      · split at h1
        · rename_i hty
          apply (typesClauses_meaning h1).2
          rw [hbag hty _ (reqs_reach ha)]
          intro r hr hne
          simp only [List.mem_map] at hr
          obtain ⟨p, hp, rfl⟩ := hr
          exact hm.preTypes hty p.2 ((ha.mem_vars p).1 hp).2 hne
        · simp only [Except.ok.injEq] at h1
          subst h1
          exact satAll_nil
    · intro c _ tr _ n v x _ _ hx
      simp [termVal] at hx
  · refine ⟨envOf a h, ?_, ?_⟩
    · rw [satAll_append, satAll_append, satAll_flatten, satAll_flatten]
      refine ⟨⟨?_, ?_⟩, ?_⟩
      · intro cs hcs
        obtain ⟨v, hv, hoc⟩ := forall₂_right (mapM_ok _ _ _ h2) cs hcs
        obtain ⟨o, ho, rfl⟩ := (ha.outs v).1 hv
        apply (outClause_meaning hoc).2
        rw [ha.stepOf (.out ho)]
        obtain ⟨hp, ht⟩ := hm.output o ho
        exact ⟨h o, lookup_envOf ha h (.out ho), (outPath_meaning f _).2 hp, ht⟩
      · intro cs hcs
        split at h3
        · rename_i hio
          obtain ⟨v, hv, hic⟩ := forall₂_right (mapM_ok _ _ _ h3) cs hcs
          obtain ⟨i, hr, hi, rfl⟩ := (ha.ins v).1 hv
          apply (inClause_meaning hic).2
          rw [ha.stepOf hr]
          obtain ⟨hp, ht⟩ := hm.input hio i hi hr
          exact ⟨h i, lookup_envOf ha h hr, (inPath_meaning f _).2 hp, ht⟩
        · simp only [Except.ok.injEq] at h3
          subst h3
          cases hcs
      · unfold chronOf at h4
        split at h4
        · simp only [Except.ok.injEq] at h4
          subst h4
          exact satAll_nil
        · rename_i hch
          simp only [Bool.not_eq_true', Bool.not_eq_false] at hch
          obtain ⟨ps, hps, rfl⟩ := foldlM_pieces (chronPiece G t a) _ _ _ h4
          rw [List.nil_append, satAll_flatten]
          intro cs hcs
          obtain ⟨p, hp, hpc⟩ := forall₂_right hps cs hcs
          obtain ⟨hp1, hk⟩ := (ha.mem_vars p).1 hp
          obtain ⟨v, k⟩ := p
          simp only at hp1 hk
          subst hp1
          have hn := lookup_envOf ha h hk
          obtain ⟨hops, htys⟩ := hm.step hch k hk
          have hdeps : SatAll g wf (envOf a h) (depClauses t a ([k], k)) := by
            apply (depClauses_meaning ha k).2
            intro c hc hb
            apply satTriple_var_var.2
            refine ⟨h c, h k, lookup_envOf ha h hc, hn, ?_⟩
            unfold linkPath
            rcases hm.link hch c k hc hb with he | ⟨hr, he⟩
            · split
              · exact (pathHolds_opt g _ _ _).2 (Or.inr he)
              · exact (pathHolds_pred g _ _ _).2 he
            · rw [if_pos hr]
              exact (pathHolds_opt g _ _ _).2 (Or.inl he)
          rcases chronPiece_cases ha hpc with ⟨_, rfl⟩ | ⟨_, sub, hsub, rfl⟩
          · exact (via_meaning hn).2 hops
          · rw [satAll_append, satAll_append]
            exact ⟨⟨hdeps, (via_meaning hn).2 hops⟩, (subtypeOf_meaning hsub hn).2 htys⟩
    · intro c hc tr htr n v x hp hv hx
      have hgt := hshape c (List.mem_append_right _ hc) tr htr
      cases hgt with
      | dependsOpt l hch hl =>
        obtain ⟨c', b, hc', _, rfl⟩ := (ha.links l).1 hl
        simp only [QTerm.var.injEq] at hv
        subst hv
        rw [termVal_var, lookup_envOf ha h hc'] at hx
        simp only [Option.some.injEq] at hx
        subst hx
        exact reach_in_graph hm hch _ hc'
      | _ => simp at hp

theorem query_iff {G : GLang} {t : QTask} {f : QFlags} {q : Query}
    (hf : f.unfoldTree = false) (hq : genQuery G t f = .ok q)
    (g : List Triple) (wf : Node) (hbag : f.byTypes = true → BagExact G t g wf) :
    evalQuery q g wf = true ↔ Matches G t f g wf := by
  obtain ⟨a, ha, hg⟩ := genQuery_ok hq
  have hok := assignAll_ok t f hf a ha
  constructor
  · intro he
    obtain ⟨⟨envp, hp⟩, ⟨envb, hb⟩⟩ := eval_sound he
    exact ⟨_, matchesBy_of_sat hok hg hbag hp hb⟩
  · rintro ⟨h, hm⟩
    obtain ⟨h1, h2⟩ := sat_of_matchesBy hok hg hbag hm
    exact eval_complete h1 h2

/-- generated queries use `p?` between variables only -/
theorem genQuery_optVars {G : GLang} {t : QTask} {f : QFlags} {q : Query} (hq : genQuery G t f = .ok q) :
    OptVars q.prefilter ∧ OptVars q.body := by
  obtain ⟨a, _, hg⟩ := genQuery_ok hq
  have hshape := genFrom_shape hg
  have key : ∀ tr, GenTriple f a tr → ∀ n, tr.p = .opt n → (∃ v, tr.s = .var v) ∧ (∃ w, tr.o = .var w) := by
    intro tr htr n hp
    cases htr with
    | dependsOpt l _ _ => exact ⟨⟨_, rfl⟩, ⟨_, rfl⟩⟩
    | _ => simp at hp
  exact ⟨fun c hc tr htr => key tr (hshape c (List.mem_append_left _ hc) tr htr),
    fun c hc tr htr => key tr (hshape c (List.mem_append_right _ hc) tr htr)⟩

/-! ## generated queries: unrestricted satisfiability is satisfiability over the graph -/

theorem genFrom_prefilter_noopt {G : GLang} {t : QTask} {f : QFlags} {a : QAssign} {q : Query}
    (h : genFrom G t f a = .ok q) : ∀ c ∈ q.prefilter, ∀ tr ∈ c.triples, ∀ n, tr.p ≠ .opt n := by
  obtain ⟨pre2, outs, ins, chron, h1, _, _, _, rfl⟩ := genFrom_ok h
  intro c hc tr htr n
  simp only [List.mem_append] at hc
  rcases hc with hc | hc
  · split at hc
    · unfold operatorsClauses at hc
      simp only [List.mem_map] at hc
      obtain ⟨o, _, rfl⟩ := hc
      simp only [QClause.triples, List.mem_singleton] at htr
      subst htr
      simp
    · cases hc
  · split at h1
    · rw [typesClauses_eq] at h1
      obtain ⟨ts, _, hts⟩ := forall₂_right (mapM_ok _ _ _ h1) c hc
      obtain ⟨u, rfl⟩ := typeClause_shape hts tr htr
      simp
    · simp only [Except.ok.injEq] at h1
      subst h1
      cases hc

theorem genFrom_body_flags {G : GLang} {t : QTask} {f : QFlags} {a : QAssign} {q : Query}
    (h : genFrom G t f a = .ok q) :
    genFrom G t { f with byTypes := false, byOperators := false } a = .ok { prefilter := [], body := q.body } := by
  obtain ⟨pre2, outs, ins, chron, _, h2, h3, h4, rfl⟩ := genFrom_ok h
  have e2 : a.outs.mapM (outClause G t { f with byTypes := false, byOperators := false } a) = .ok outs := h2
  have e3 : (if ({ f with byTypes := false, byOperators := false } : QFlags).byIo then
      a.ins.mapM (inClause G t { f with byTypes := false, byOperators := false } a) else .ok []) = .ok ins := h3
  have e4 : chronOf G t { f with byTypes := false, byOperators := false } a = .ok chron := h4
  unfold genFrom
  simp only [Bool.false_eq_true, if_false, List.nil_append]
  rw [e2]
  simp only
  rw [e3]
  simp only
  rw [e4]

theorem generated_satIn {G : GLang} {t : QTask} {f : QFlags} {q : Query}
    (hf : f.unfoldTree = false) (hq : genQuery G t f = .ok q) (g : List Triple) (wf : Node) :
    (Satisfiable g wf q.prefilter → SatisfiableIn (graphNodes g) g wf q.prefilter) ∧
    (Satisfiable g wf q.body → SatisfiableIn (graphNodes g) g wf q.body) := by
  obtain ⟨a, ha, hg⟩ := genQuery_ok hq
  have hok := assignAll_ok t f hf a ha
  constructor
  · rintro ⟨env, hs⟩
    refine ⟨env, hs, ?_⟩
    intro c hc tr htr n v x hp
    exact absurd hp (genFrom_prefilter_noopt hg c hc tr htr n)
  · rintro ⟨env, hs⟩
    have hg' := genFrom_body_flags hg
    have hm := matchesBy_of_sat (envp := []) hok hg' (fun h => by cases h) satAll_nil hs
    exact (sat_of_matchesBy hok hg' (fun h => by cases h) hm).2

/-- a generated query is accepted iff its pre-filter and its body are satisfiable (by any assignment) -/
theorem generated_eval_iff {G : GLang} {t : QTask} {f : QFlags} {q : Query}
    (hf : f.unfoldTree = false) (hq : genQuery G t f = .ok q) (g : List Triple) (wf : Node) :
    evalQuery q g wf = true ↔ Satisfiable g wf q.prefilter ∧ Satisfiable g wf q.body := by
  obtain ⟨h1, h2⟩ := generated_satIn hf hq g wf
  exact ⟨eval_sound, fun h => eval_complete (h1 h.1) (h2 h.2)⟩

end Tfv
