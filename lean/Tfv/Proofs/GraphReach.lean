import Tfv.Proofs.Canon
import Tfv.Proofs.CanonLinks
import Tfv.Proofs.CanonPlain
/-!
# `Language.successors(transitive=True)` = reachability through reported direct links
-/
namespace Tfv.Tax
open Tfv

/-- `k` steps of `R` -/
inductive ReachN (R : Ty → Ty → Prop) : Nat → Ty → Ty → Prop
  | zero (t : Ty) : ReachN R 0 t t
  | succ {k : Nat} {t u s : Ty} : R t u → ReachN R k u s → ReachN R (k+1) t s

theorem reach_of_reachN {R : Ty → Ty → Prop} {k : Nat} {t s : Ty} (h : ReachN R k t s) : Reach R t s := by
  induction h with
  | zero t => exact .refl t
  | succ hr _ ih => exact .step hr ih

theorem reachN_of_reach {R : Ty → Ty → Prop} {t s : Ty} (h : Reach R t s) : ∃ k, ReachN R k t s := by
  induction h with
  | refl t => exact ⟨0, .zero t⟩
  | step hr _ ih => obtain ⟨k, hk⟩ := ih; exact ⟨k+1, .succ hr hk⟩

/-- one unfolding of the transitive call: a direct link, then the link's target or its transitive successors -/
theorem mem_langSucc_trans_succ (L : Lang) (c : CanonCfg) (canon : List Ty) (n : Nat) (up : Bool) (t r : Ty) :
    r ∈ langSucc L c canon (n+1) up t true ↔
      ∃ u, Link L c canon 1 up t u ∧ (r = u ∨ r ∈ langSucc L c canon n up u true) := by
  unfold Link
  simp only [langSucc, List.mem_flatMap, Bool.false_eq_true, if_false, if_true]
  constructor
  · rintro ⟨s, hs, h⟩
    by_cases hm : memTy s canon = true
    · simp only [hm, if_true, List.mem_cons] at h
      exact ⟨s, ⟨s, hs, by simp [hm]⟩, h⟩
    · simp only [hm, Bool.false_eq_true, if_false, List.mem_flatMap] at h
      obtain ⟨u, hu, h⟩ := h
      by_cases hm2 : memTy u canon = true
      · simp only [hm2, if_true, List.mem_cons] at h
        refine ⟨u, ⟨s, hs, ?_⟩, h⟩
        simp only [hm, Bool.false_eq_true, if_false, List.mem_flatMap]
        exact ⟨u, hu, by simp [hm2]⟩
      · simp [hm2] at h
  · rintro ⟨u, ⟨s, hs, hu⟩, h⟩
    refine ⟨s, hs, ?_⟩
    by_cases hm : memTy s canon = true
    · simp only [hm, if_true, List.mem_singleton] at hu
      subst hu
      simp only [hm, if_true, List.mem_cons]
      exact h
    · simp only [hm, Bool.false_eq_true, if_false, List.mem_flatMap] at hu ⊢
      obtain ⟨v, hv, hu⟩ := hu
      refine ⟨v, hv, ?_⟩
      by_cases hm2 : memTy v canon = true
      · simp only [hm2, if_true, List.mem_singleton] at hu
        subst hu
        simp only [hm2, if_true, List.mem_cons]
        exact h
      · simp [hm2] at hu

/-- the transitive call with fuel `n` returns what is reachable by `1 … n` direct links -/
theorem mem_langSucc_trans_iff (L : Lang) (c : CanonCfg) (canon : List Ty) (up : Bool) : ∀ (n : Nat) (t r : Ty),
    r ∈ langSucc L c canon n up t true ↔ ∃ k, 1 ≤ k ∧ k ≤ n ∧ ReachN (Link L c canon 1 up) k t r := by
  intro n
  induction n with
  | zero =>
    intro t r
    simp only [langSucc, List.not_mem_nil, false_iff]
    rintro ⟨k, h1, h2, _⟩
    omega
  | succ n ih =>
    intro t r
    rw [mem_langSucc_trans_succ]
    constructor
    · rintro ⟨u, hl, rfl | h⟩
      · exact ⟨1, Nat.le_refl _, by omega, .succ hl (.zero _)⟩
      · obtain ⟨k, h1, h2, hk⟩ := (ih u r).1 h
        exact ⟨k+1, by omega, by omega, .succ hl hk⟩
    · rintro ⟨k, h1, h2, hk⟩
      cases hk with
      | zero _ => omega
      | succ hl hk' =>
        rename_i k' u
        refine ⟨u, hl, ?_⟩
        cases k' with
        | zero => cases hk'; exact .inl rfl
        | succ k'' => exact .inr ((ih u r).2 ⟨k''+1, by omega, by omega, hk'⟩)

/-- in a well-formed language every chain of links is strictly monotone, hence visits pairwise different canonical
types: it is no longer than the canon -/
theorem reachN_nodes {L : Lang} (wf : WF L) (c : CanonCfg) (canon : List Ty) (up : Bool) {k : Nat} {t r : Ty}
    (h : ReachN (Link L c canon 1 up) k t r) (ht : wfTy L t = true) :
    ∃ l : List Ty, l.length = k ∧ l.Nodup ∧ (∀ x ∈ l, x ∈ canon) ∧ ∀ x ∈ l, Le L up t x ∧ x ≠ t := by
  induction h with
  | zero t => exact ⟨[], rfl, List.nodup_nil, by simp, by simp⟩
  | @succ k t u s hl _ ih =>
    obtain ⟨q1, q2, q3, q4⟩ := langSucc_sound wf c canon 1 up t false u ht hl
    obtain ⟨l, hlen, hnd, hsub, hgt⟩ := ih q3
    refine ⟨u :: l, by simp [hlen], ?_, ?_, ?_⟩
    · rw [List.nodup_cons]
      exact ⟨fun hu => (hgt u hu).2 rfl, hnd⟩
    · intro x hx
      rcases List.mem_cons.1 hx with rfl | hx
      · exact q4
      · exact hsub x hx
    · intro x hx
      rcases List.mem_cons.1 hx with rfl | hx
      · exact ⟨q1, q2⟩
      · obtain ⟨a1, _⟩ := hgt x hx
        exact ⟨le_trans wf q1 a1, le_strict_trans wf q1 q2 a1⟩

theorem reachN_le_canon {L : Lang} (wf : WF L) (c : CanonCfg) (canon : List Ty) (up : Bool) {k : Nat} {t r : Ty}
    (h : ReachN (Link L c canon 1 up) k t r) (ht : wfTy L t = true) : k ≤ canon.length := by
  obtain ⟨l, hlen, hnd, hsub, _⟩ := reachN_nodes wf c canon up h ht
  rw [← hlen]
  exact hnd.length_le_of_subset (fun x hx => hsub x hx)

/-- **`successors(transitive=True)` with the fuel the graph code uses = one or more direct links.** -/
theorem mem_langSucc_trans_iff_reach {L : Lang} (wf : WF L) (c : CanonCfg) (canon : List Ty) (up : Bool) (m : Nat)
    {t r : Ty} (ht : wfTy L t = true) :
    r ∈ langSucc L c canon (canon.length + m) up t true ↔
      ∃ u, Link L c canon 1 up t u ∧ Reach (Link L c canon 1 up) u r := by
  rw [mem_langSucc_trans_iff]
  constructor
  · rintro ⟨k, h1, _, hk⟩
    cases hk with
    | zero _ => omega
    | succ hl hk' => exact ⟨_, hl, reach_of_reachN hk'⟩
  · rintro ⟨u, hl, hr⟩
    obtain ⟨k, hk⟩ := reachN_of_reach hr
    have hk1 : ReachN (Link L c canon 1 up) (k+1) t r := .succ hl hk
    exact ⟨k+1, by omega, by have := reachN_le_canon wf c canon up hk1 ht; omega, hk1⟩

/-- reversing a path whose links can be reversed one by one (on nodes satisfying an invariant) -/
theorem reach_reverse {R S : Ty → Ty → Prop} (P : Ty → Prop) (hrev : ∀ x y, P x → R x y → S y x ∧ P y)
    {a b : Ty} (h : Reach R a b) (ha : P a) : Reach S b a := by
  induction h with
  | refl _ => exact .refl _
  | @step x y z hr _ ih =>
    obtain ⟨hs, hy⟩ := hrev x y ha hr
    exact reach_trans (ih hy) (reach_one hs)

/-- **Plain closed canon: the transitive canonical supertypes of a canonical type are exactly its strict canonical
supertypes.** -/
theorem langSucc_up_plain {L : Lang} (wf : WF L) {c : CanonCfg} (hT : c.includeTop = false)
    (hB : c.includeBottom = false) {listed : List Ty}
    (hl : ∀ t ∈ listed, wfTy L t = true ∧ tbFree t = true)
    (term : Terminates L c canonFuel (initOf listed) (initOf listed)) (m : Nat) {t s : Ty}
    (ht : t ∈ mkCanon L c listed) :
    s ∈ langSucc L c (mkCanon L c listed) ((mkCanon L c listed).length + m) true t true ↔
      (s ∈ mkCanon L c listed ∧ Sub L t s ∧ s ≠ t) := by
  have key := fun x (hx : x ∈ mkCanon L c listed) => by
    rw [mkCanon_eq] at hx
    exact canon_plain_sound wf hT hB canonFuel (initOf listed)
      (fun t ht => hl t ((mem_initOf listed t).mp ht)) x hx
  obtain ⟨t1, _, _⟩ := key t ht
  rw [mem_langSucc_trans_iff_reach wf c _ true m t1]
  constructor
  · rintro ⟨u, h1, hr⟩
    obtain ⟨a1, a2, _, a4⟩ := reach_link_strict wf c _ 1 true h1 hr t1
    exact ⟨a4, le_up.mp a1, a2⟩
  · rintro ⟨hs, hsub, hne⟩
    have hdown : Reach (Link L c (mkCanon L c listed) (0+1) false) s t :=
      (reach_iff_plain wf hT hB hl term 0 ht hs).2 hsub
    have hup : Reach (Link L c (mkCanon L c listed) 1 true) t s := by
      refine reach_reverse (fun x => x ∈ mkCanon L c listed) ?_ hdown hs
      intro x y hx hxy
      have hy : y ∈ mkCanon L c listed :=
        (langSucc_sound wf c _ _ false x false y (key x hx).1 hxy).2.2.2
      exact ⟨(mirror_plain wf hT hB hl term 0 0 hy hx).1 hxy, hy⟩
    cases hup with
    | refl _ => exact absurd rfl hne
    | step h1 hr => exact ⟨_, h1, hr⟩

end Tfv.Tax
