import Tfv.Proofs.LambdaNf
/-!
# substitution calculus for the de Bruijn terms of the lambda model

The model's `LTerm.beta b x = shift (-1) 0 (subst 0 (shift 1 0 x) b)` (integer shifts, as in the Python code)
is shown equal to the single-pass substitution `lsub b x 0` over natural-number `llift`; the five standard
commutation lemmas for `llift`/`lsub` follow (Nipkow, "More Church-Rosser proofs").
-/
namespace Tfv.C15P
open Tfv Tfv.LamSpec

def llift : LTerm → Nat → LTerm
  | .var i, k => if i < k then .var i else .var (i+1)
  | .lam b, k => .lam (llift b (k+1))
  | .app f x, k => .app (llift f k) (llift x k)
  | .op s, _ => .op s
  | .src s, _ => .src s

def lsub : LTerm → LTerm → Nat → LTerm
  | .var i, s, k => if k < i then .var (i-1) else if i = k then s else .var i
  | .lam b, s, k => .lam (lsub b (llift s 0) (k+1))
  | .app f x, s, k => .app (lsub f s k) (lsub x s k)
  | .op s, _, _ => .op s
  | .src s, _, _ => .src s

theorem shift_one (t : LTerm) : ∀ k, LTerm.shift 1 k t = llift t k := by
  induction t with
  | op s => intro k; simp only [LTerm.shift, llift]
  | src s => intro k; simp only [LTerm.shift, llift]
  | var i => intro k; simp only [LTerm.shift, llift]; grind
  | lam b ih => intro k; simp only [LTerm.shift, llift, ih]
  | app f x ihf ihx => intro k; simp only [LTerm.shift, llift, ihf, ihx]

theorem lift_lift (t : LTerm) : ∀ i k, i < k + 1 → llift (llift t i) (k+1) = llift (llift t k) i := by
  induction t with
  | op s => intros; rfl
  | src s => intros; rfl
  | var n => intro i k h; grind [llift]
  | lam b ih => intro i k h; simp only [llift]; rw [ih (i+1) (k+1) (by omega)]
  | app f x ihf ihx => intro i k h; simp only [llift, ihf i k h, ihx i k h]

theorem lift_sub (t : LTerm) : ∀ s i j, j < i + 1 → llift (lsub t s j) i = lsub (llift t (i+1)) (llift s i) j := by
  induction t with
  | op s => intros; rfl
  | src s => intros; rfl
  | var n => intro s i j h; grind [llift, lsub]
  | lam b ih => intro s i j h; simp only [llift, lsub]; rw [ih _ (i+1) (j+1) (by omega), lift_lift s 0 i (by omega)]
  | app f x ihf ihx => intro s i j h; simp only [llift, lsub, ihf s i j h, ihx s i j h]

theorem lift_sub_lt (t : LTerm) : ∀ s i j, i < j + 1 → llift (lsub t s j) i = lsub (llift t i) (llift s i) (j+1) := by
  induction t with
  | op s => intros; rfl
  | src s => intros; rfl
  | var n => intro s i j h; grind [llift, lsub]
  | lam b ih => intro s i j h; simp only [llift, lsub]; rw [ih _ (i+1) (j+1) (by omega), lift_lift s 0 i (by omega)]
  | app f x ihf ihx => intro s i j h; simp only [llift, lsub, ihf s i j h, ihx s i j h]

theorem sub_lift (t : LTerm) : ∀ s k, lsub (llift t k) s k = t := by
  induction t with
  | op s => intros; rfl
  | src s => intros; rfl
  | var n => intro s k; grind [llift, lsub]
  | lam b ih => intro s k; simp only [llift, lsub, ih]
  | app f x ihf ihx => intro s k; simp only [llift, lsub, ihf, ihx]

theorem sub_sub (t : LTerm) : ∀ u v i j, i < j + 1 →
    lsub (lsub t (llift v i) (j+1)) (lsub u v j) i = lsub (lsub t u i) v j := by
  induction t with
  | op s => intros; rfl
  | src s => intros; rfl
  | var n => intro u v i j h; grind [llift, lsub, sub_lift]
  | lam b ih =>
    intro u v i j h; simp only [lsub]
    rw [← ih _ _ (i+1) (j+1) (by omega), lift_lift v 0 i (by omega), lift_sub_lt u v 0 j (by omega)]
  | app f x ihf ihx => intro u v i j h; simp only [lsub, ihf u v i j h, ihx u v i j h]


theorem shift_neg_var (k i : Nat) :
    LTerm.shift (-1) k (.var i) = if i ≥ k then .var (i-1) else .var i := by
  rw [LTerm.shift]; split
  · congr 1; omega
  · rfl

theorem down_lift (t : LTerm) : ∀ k, LTerm.shift (-1) k (llift t k) = t := by
  induction t with
  | op s => intro k; simp only [LTerm.shift, llift]
  | src s => intro k; simp only [LTerm.shift, llift]
  | var i => intro k; simp only [llift]; split <;> simp only [LTerm.shift] <;> grind
  | lam b ih => intro k; simp only [LTerm.shift, llift, ih]
  | app f x ihf ihx => intro k; simp only [LTerm.shift, llift, ihf, ihx]

theorem beta_eq_aux (t : LTerm) : ∀ k s, LTerm.shift (-1) k (LTerm.subst k (llift s k) t) = lsub t s k := by
  induction t with
  | op s => intro k s; simp only [LTerm.shift, LTerm.subst, lsub]
  | src s => intro k s; simp only [LTerm.shift, LTerm.subst, lsub]
  | var i =>
    intro k s; simp only [LTerm.subst, lsub]
    by_cases h : i = k
    · subst h; simp only [beq_self_eq_true, if_true, Nat.lt_irrefl, if_false, down_lift]
    · have : (i == k) = false := by simpa using h
      simp only [this, if_neg h, Bool.false_eq_true, if_false, shift_neg_var]; grind
  | lam b ih =>
    intro k s; simp only [LTerm.shift, LTerm.subst, lsub]
    rw [shift_one, ← lift_lift s 0 k (by omega), ih]
  | app f x ihf ihx => intro k s; simp only [LTerm.shift, LTerm.subst, lsub, ihf, ihx]

theorem beta_eq (b x : LTerm) : LTerm.beta b x = lsub b x 0 := by
  unfold LTerm.beta; rw [shift_one, beta_eq_aux]

end Tfv.C15P
