import Tfv.Proofs.GraphAbsDeepInv
/-!
# C08 on expanded composite operators at any depth: the invariant step for a data argument
-/
namespace Tfv.C08P
open Tfv

theorem sInvA_step_data {n : Nat} {k0 k : Core} {ps0 ps : Params} {st : HaArgs} (hctx : GCtxA n k0 ps0)
    (inv : SInvA n k0 ps0 k ps st) (r : HaRes) (K' : Core) (ps' : Params) (m : Nat)
    (post : SPostA st.next k.fresh.1 ps r K' ps' m) :
    SInvA n k0 ps0 (wire K' n m none) ps' (pushArg st r none false) := by
  obtain ⟨hI, hF, hM⟩ := sInvA_facts hctx inv
  have hn := hctx.x_lt
  have hle := inv.le
  have e1 : k.fresh.1.nextB = st.next + 1 := by show k.nextB + 1 = _; rw [inv.next_eq]
  have e2 : k.fresh.1.src = st.memo := inv.src_eq
  have e4 : ps = st.params := inv.par_eq
  have hm := post.node_eq
  subst hm
  have hr_le : st.next + 1 ≤ r.next := by have := post.le; rw [e1] at this; exact this
  have hmono : ∀ t, TabNode st.memo st.params t → TabNode r.memo r.params t := by
    intro t ht
    exact post.tab_mono t (by rw [e2, e4]; exact ht)
  obtain ⟨w1, w2, w3, w4⟩ := wire_frame K' n r.node none
  have hnr : r.node = st.next ∨ TabNode st.memo st.params r.node := by
    rcases post.node_rng with h | h
    · exact Or.inl h
    · right; rw [← e2, ← e4]; exact h
  have hrnode : r.node < r.next ∧ r.node ≠ n := by
    rcases hnr with h | h
    · rw [h]; exact ⟨by omega, by omega⟩
    · have := hM _ h
      exact ⟨by omega, this.2⟩
  have hmr : ∀ t, TabNode r.memo r.params t →
      TabNode st.memo st.params t ∨ t = st.next ∨ (st.next + 1 ≤ t ∧ t < r.next) := by
    intro t ht
    have := post.tab_rng t ht
    rw [e1, e2, e4] at this
    exact this
  have hKi : K'.ints = k.ints ++ r.ints := post.ints_eq
  have hKf : ∀ p, p ∈ K'.frm ↔ p ∈ k.frm ∨ p ∈ r.edges := post.frm_iff
  have hfresh : ∀ a ∈ st.rs, ∀ l, a.lam = some l → (none : Option Nat) ≠ some l := by
    intro a _ l _ h; cases h
  refine ⟨by rw [w1]; exact post.next_eq, by rw [w2]; exact post.src_eq, post.par_eq,
    by rw [w3, post.shared_eq]; exact inv.shared_eq, ?_, ?_, by show k0.nextB ≤ r.next; omega,
    fun t ht => hmono t (inv.tab_mono t ht), ?_, ?_, ?_, ?_, ?_, ?_, ?_, ?_, ?_⟩
  · rw [w4, hKi]
    show _ = k0.ints ++ spineIntsA n (st.rs ++ [_])
    rw [spineIntsA_snoc, inv.ints_eq]
    simp [lamPair]
  · intro p
    rw [wire_none_mem]
    show _ ↔ p ∈ k0.frm ∨ SpineEdgesA n (st.rs ++ [⟨r.node, none, false, r.ints, r.edges⟩]) p
    rw [spineEdgesA_snoc n st.rs _ p hfresh, hKf, inv.frm_iff]
    constructor
    · rintro (((h | h) | h) | h | ⟨j, hj, h⟩)
      · exact Or.inl h
      · exact Or.inr (Or.inl h)
      · exact Or.inr (Or.inr (Or.inl h))
      · exact Or.inr (Or.inr (Or.inr (Or.inl h)))
      · rw [hKi, List.mem_append] at hj
        rcases hj with hj | hj
        · obtain ⟨q, hq, hl⟩ := (hI (n, j) hj).2 rfl
          exact Or.inr (Or.inr (Or.inr (Or.inr (Or.inr (Or.inl ⟨q, hq, j, hl, h⟩)))))
        · have := (post.ints_rng _ hj).1
          have : st.next ≤ n := this
          omega
    · rintro (h | h | h | h | ⟨l, hl, _⟩ | ⟨a, ha, l, hl, h⟩ | ⟨l, hl, _⟩ | ⟨l, μ, hl, _⟩)
      · exact Or.inl (Or.inl (Or.inl h))
      · exact Or.inl (Or.inl (Or.inr h))
      · exact Or.inl (Or.inr h)
      · exact Or.inr (Or.inl h)
      · cases hl
      · refine Or.inr (Or.inr ⟨l, ?_, h⟩)
        rw [hKi]
        apply List.mem_append_left
        rw [inv.ints_eq]
        exact List.mem_append_right _ ((mem_spineIntsA n st.rs (n, l)).2 (Or.inl ⟨a, ha, hl, rfl⟩))
      · cases hl
      · cases hl
  · intro t ht
    rcases hmr t ht with h | h | h
    · rcases inv.tab_rng t h with h' | h'
      · exact Or.inl h'
      · exact Or.inr ⟨h'.1, by show t < r.next; omega⟩
    · exact Or.inr ⟨by omega, by show t < r.next; omega⟩
    · exact Or.inr ⟨by omega, h.2⟩
  · intro q hq p hp
    show (k0.nextB ≤ p.1 ∨ TabNode r.memo r.params p.1) ∧ p.1 < r.next ∧ p.2 < r.next
    simp only [pushArg, List.mem_append, List.mem_singleton] at hq
    rcases hq with hq | rfl
    · have := inv.edges_rng q hq p hp
      refine ⟨?_, by omega, by omega⟩
      rcases this.1 with h | h
      · exact Or.inl h
      · exact Or.inr (hmono _ h)
    · have := post.edges_rng p hp
      refine ⟨?_, this.2.1, this.2.2⟩
      rcases this.1 with h | h
      · exact Or.inl (by omega)
      · exact Or.inr h
  · intro q hq i hi
    show k0.nextB ≤ i.1 ∧ i.1 < r.next ∧ k0.nextB ≤ i.2 ∧ i.2 < r.next
    simp only [pushArg, List.mem_append, List.mem_singleton] at hq
    rcases hq with hq | rfl
    · have := inv.ints_rng q hq i hi
      exact ⟨this.1, by omega, this.2.2.1, by omega⟩
    · have := post.ints_rng i hi
      rw [e1] at this
      exact ⟨by omega, this.2.1, by omega, this.2.2.2⟩
  · intro q hq i hi
    show k0.nextB ≤ i ∧ i < r.next
    simp only [pushArg, List.mem_append, List.mem_singleton] at hq
    rcases hq with hq | rfl
    · have := inv.lam_rng q hq i hi
      exact ⟨this.1, by omega⟩
    · cases hi
  · intro q hq
    show k0.nextB ≤ q.node ∨ TabNode r.memo r.params q.node
    simp only [pushArg, List.mem_append, List.mem_singleton] at hq
    rcases hq with hq | rfl
    · rcases inv.node_rng q hq with h | h
      · exact Or.inl h
      · exact Or.inr (hmono _ h)
    · rcases hnr with h | h
      · exact Or.inl (by show k0.nextB ≤ r.node; omega)
      · exact Or.inr (hmono _ h)
  · intro q hq
    show q.node < r.next ∧ q.node ≠ n
    simp only [pushArg, List.mem_append, List.mem_singleton] at hq
    rcases hq with hq | rfl
    · have := inv.node_lt q hq
      exact ⟨by omega, this.2⟩
    · exact hrnode
  · show ((st.rs ++ [(⟨r.node, none, false, r.ints, r.edges⟩ : HaArg)]).filterMap (fun q => q.lam)).Nodup
    rw [List.filterMap_append]
    simpa using inv.lams_nodup
  · show ((spineIntsA n (st.rs ++ [(⟨r.node, none, false, r.ints, r.edges⟩ : HaArg)])).map Prod.snd).Nodup
    rw [spineIntsA_snoc, List.map_append, List.nodup_append]
    refine ⟨inv.ints_nodup, by simpa [lamPair] using post.ints_nodup, ?_⟩
    intro y hy z hz hyz
    subst hyz
    obtain ⟨p1, hp1, h1⟩ := List.mem_map.1 hy
    obtain ⟨p2, hp2, h2⟩ := List.mem_map.1 hz
    have a1 := sInvA_ints_lt inv p1 hp1
    simp only [lamPair, List.nil_append] at hp2
    have a2 := (post.ints_rng p2 hp2).2.2.1
    rw [e1] at a2
    omega
  · intro p hp t ht
    rw [w4] at hp
    rw [w2] at ht
    exact post.noint p hp t ht

end Tfv.C08P
