import Tfv.Spec.Sat
import Tfv.Spec.SatChain
/-!
# Specification: the history of an inference store (C16)

The only thing threaded between two uses of a definition (schema, operator,
alias, wildcard) is the inference store. This file defines what it means for the
store to carry a *history* and for a use to be independent of it:

* `VarIn v t`: the variable `v` occurs in the term `t`;
* `Reach σ t v`: `v` occurs in `t` or in the binding of a variable reachable from `t`
  (the part of the store a use working on `t` may look at or write to);
* `Store.append σ₀ σ`: the store `σ` placed *after* the history `σ₀`: all variable
  indices of `σ` are shifted by the number of variables of `σ₀`;
* `Term.closed t`: `t` is a concrete type (no variables);
* `useSchema`: instantiate a schema and apply it to a list of arguments.
-/
namespace Tfv

/-- the variable `v` occurs in the term -/
inductive VarIn (v : Nat) : Term → Prop
  | var : VarIn v (.var v)
  | app {o : Nat} {args : List Term} {t : Term} : t ∈ args → VarIn v t → VarIn v (.app o args)

/-- `v` is reachable from `t` in the store `σ`: it occurs in `t`, or in the binding of a
reachable variable -/
inductive Reach (σ : Store) : Term → Nat → Prop
  | here {t : Term} {v : Nat} : VarIn v t → Reach σ t v
  | step {t : Term} {w : Nat} {b : Term} {v : Nat} :
      Reach σ t w → (getVar σ w).bound = some b → VarIn v b → Reach σ t v

/-- a variable record moved behind a history of `k` variables and `c` constraint sets -/
def VarInfo.shift (k c : Nat) (i : VarInfo) : VarInfo :=
  { i with bound := i.bound.map (Term.shift k), cset := i.cset + c }

/-- the store `σ` placed after the history `σ₀` -/
def Store.append (σ₀ σ : Store) : Store :=
  { vars := σ₀.vars ++ σ.vars.map (VarInfo.shift σ₀.vars.length σ₀.csets.length),
    csets := σ₀.csets ++ σ.csets,
    constrs := σ₀.constrs }

mutual
/-- a concrete type: no variables -/
def Term.closed : Term → Bool
  | .var _ => false
  | .app _ args => Term.closedL args
def Term.closedL : List Term → Bool
  | [] => true
  | t :: ts => Term.closed t && Term.closedL ts
end

/-- no variable of the store is bound to another variable (true of every store that
instantiation and application to concrete arguments produce) -/
def NoVarVar (σ : Store) : Prop := ∀ v w, (getVar σ v).bound ≠ some (.var w)

/-- every binding of the store mentions allocated variables only -/
def Scoped (σ : Store) : Prop :=
  ∀ w b v, (getVar σ w).bound = some b → VarIn v b → v < σ.vars.length

/-- a term is final in `σ`: a compound term or an unresolved variable -/
def Final (σ : Store) : Term → Prop
  | .var v => (getVar σ v).bound = none
  | .app _ _ => True

/-- the fuel `followT` uses suffices: every chain of variable bindings ends within
`σ.vars.length + 1` steps (false only for stores with a cycle of variable-to-variable
bindings, which the engine never creates) -/
def FuelOk (σ : Store) : Prop := ∀ t, Final σ (followT σ t)

/-- one *use* of a definition: instantiate the schema, apply it to the arguments in turn -/
def useSchema (L : Lang) (fuel : Nat) (fixFlag : Bool) (σ : Store) (s : Schema) (xs : List Term) :
    Except Err (Store × Term) :=
  match instantiate L fuel σ s with
  | .error e => .error e
  | .ok (σ1, f) => applyAll L fuel fixFlag σ1 f xs

/-- the outcome of a use seen from behind a history `σ₀`: the same error, or the store
appended to the history and the result term shifted -/
def afterHistory (σ₀ : Store) : Except Err (Store × Term) → Except Err (Store × Term)
  | .error e => .error e
  | .ok (σ, t) => .ok (σ₀.append σ, t.shift σ₀.vars.length)

/-- two stores of the same size carry the same records on the set `S` of variables -/
def SameOn (S : Nat → Prop) (τ τ' : Store) : Prop :=
  τ'.vars.length = τ.vars.length ∧ τ'.csets.length = τ.csets.length ∧
    ∀ v, S v → getVar τ' v = getVar τ v

/-- two outcomes of a store operation are the same as far as `S` is concerned:
the same error, or resulting stores that agree on `S` -/
def SameResult (S : Nat → Prop) : Except Err Store → Except Err Store → Prop
  | .error e, r' => r' = .error e
  | .ok τ1, r' => ∃ τ1', r' = .ok τ1' ∧ SameOn S τ1 τ1'

/-- the same for operations returning a type: the same error, or the same type and
resulting stores that agree on `S` -/
def SameOutcome (S : Nat → Prop) : Except Err (Store × Term) → Except Err (Store × Term) → Prop
  | .error e, r' => r' = .error e
  | .ok (τ1, t), r' => ∃ τ1', r' = .ok (τ1', t) ∧ SameOn S τ1 τ1'

end Tfv
