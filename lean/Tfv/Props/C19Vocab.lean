import Tfv.Props.C10Vocab
/-!
# C19 — the vocabulary does not depend on the iteration order of the canon

`Language.canon` is a Python set: `add_taxonomy` iterates it in an order that depends on the hash seed and the
allocation history. The model (`Tfv/Model/Vocab.lean`) takes that order as a parameter; these theorems say the
result is the same graph up to the names of blank nodes for ANY two orders that cover the canon - which is the
statement of C19 for the vocabulary. The proofs are those of `Tfv/Props/C10Vocab.lean` (section 4).
-/
namespace Tfv.C19
open Tfv Tfv.C10 Tfv.Voc

/-- **The vocabulary graphs of two iteration orders are isomorphic**: a renaming of nodes that fixes every URI, maps
blank nodes to blank nodes and is injective on the nodes of the first graph carries its triple set onto the second's. -/
theorem C19_vocabulary_iso (G : GLang) (c : GCfg) (closure : Bool) (order1 order2 : List Ty) (g1 g2 : GState)
    (hcov1 : ∀ t ∈ G.canon, t ∈ order1) (hcov2 : ∀ t ∈ G.canon, t ∈ order2)
    (h1 : addTaxonomyOn G c closure order1 {} = .ok g1) (h2 : addTaxonomyOn G c closure order2 {} = .ok g2) :
    ∃ ρ : Node → Node, (∀ n, NotBlank n → ρ n = n) ∧
      (∀ x k, g1.L x = some (.b k) → ∃ k', ρ (.b k) = .b k') ∧
      (∀ n m, InGraph g1 n → InGraph g1 m → ρ n = ρ m → n = m) ∧
      (∀ tr, tr ∈ g1.triples → mapTr ρ tr ∈ g2.triples) ∧
      (∀ tr', tr' ∈ g2.triples → ∃ tr, tr ∈ g1.triples ∧ mapTr ρ tr = tr') := by
  obtain ⟨ρ, a, b, _, d, e, f⟩ := C10V_perm_iso G c closure order1 order2 g1 g2 hcov1 hcov2 h1 h2
  exact ⟨ρ, a, b, d, e, f⟩

/-- … and the very same triple set when no blank node is needed (all parameter types have URIs, or non-canonical
types are off). -/
theorem C19_vocabulary_same_triples (G : GLang) (c : GCfg) (closure : Bool) (order1 order2 : List Ty) (g1 g2 : GState)
    (hcov1 : ∀ t ∈ G.canon, t ∈ order1) (hcov2 : ∀ t ∈ G.canon, t ∈ order2)
    (h1 : addTaxonomyOn G c closure order1 {} = .ok g1) (h2 : addTaxonomyOn G c closure order2 {} = .ok g2)
    (hu : ParamsHaveUris G c ∨ c.withNoncanonicalTypes = false) (tr : Triple) : tr ∈ g1.triples ↔ tr ∈ g2.triples :=
  C10V_perm G c closure order1 order2 g1 g2 hcov1 hcov2 h1 h2 hu tr

/-- whether the generation succeeds does not depend on the order either (types within the fuel of the type printer) -/
theorem C19_vocabulary_success (G : GLang) (c : GCfg) (closure : Bool) (order1 order2 : List Ty) (g1 : GState)
    (hcov1 : ∀ t ∈ G.canon, t ∈ order1) (h1 : addTaxonomyOn G c closure order1 {} = .ok g1)
    (hin2 : ∀ t ∈ order2, t ∈ G.canon) (hfuel : ∀ t ∈ G.canon, termNeed t.toTerm ≤ typeFuel) :
    ∃ g2, addTaxonomyOn G c closure order2 {} = .ok g2 :=
  C10V_success_order_independent G c closure closure order1 order2 g1 hcov1 h1 hin2 hfuel

end Tfv.C19
