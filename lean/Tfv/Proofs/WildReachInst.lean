import Tfv.Proofs.WildReachTop
import Tfv.Proofs.ResolvedConstrTop
/-!
# `instantiate` with at most one flagged variable, and the run from the empty store

`TY`: like `TX` but across registrations of new constraints (indices in range). `instantiate_ty`: if the store right after
the allocation of the schema's variables has at most one flagged variable, every mark set by the constraints' first
`fulfill` passed the strict matcher. `reach_marks_strict`: the end-to-end statement from the empty store.
-/
namespace Tfv.C03X
open Tfv Tfv.C03P Tfv.C03C Tfv.C03R Tfv.C16P Tfv.C17E

structure TY (L : Lang) (σ σ' : Store) : Prop where
  ext : Ext σ σ'
  marks : ∀ c r t s, c < σ'.constrs.length → getConstr σ' c = .sub r t s true →
    (c < σ.constrs.length ∧ getConstr σ c = .sub r t s true) ∨
    ∃ σm, Ext σm σ' ∧ match3 L (dewild σm) (matchFuel σm) true false r t = some true

theorem TY.refl (L : Lang) (σ : Store) : TY L σ σ := ⟨Ext.refl σ, fun _ _ _ _ hc h => Or.inl ⟨hc, h⟩⟩

theorem TY.trans {L : Lang} {a b c : Store} (h1 : TY L a b) (h2 : TY L b c) : TY L a c := by
  refine ⟨h1.ext.trans h2.ext, ?_⟩
  intro d r t s hd h
  rcases h2.marks d r t s hd h with ⟨hd', h'⟩ | ⟨σm, e, m⟩
  · rcases h1.marks d r t s hd' h' with h'' | ⟨σm, e, m⟩
    · exact Or.inl h''
    · exact Or.inr ⟨σm, e.trans h2.ext, m⟩
  · exact Or.inr ⟨σm, e, m⟩

theorem TX.toY {L : Lang} {σ σ' : Store} (s : TX L σ σ') : TY L σ σ' := by
  refine ⟨s.ext, ?_⟩
  intro c r t s0 hc h
  rcases s.marks c r t s0 h with h' | h'
  · exact Or.inl ⟨by rw [← s.clen]; exact hc, h'⟩
  · exact Or.inr h'

theorem ty_of_constrs {L : Lang} {σ σ' : Store} (e : Ext σ σ') (hc : σ'.constrs = σ.constrs) : TY L σ σ' :=
  ⟨e, fun c r t s hlt h => Or.inl ⟨by rw [← hc]; exact hlt, by rw [← getConstr_congr hc]; exact h⟩⟩

theorem ty_regStore {L : Lang} (σ : Store) {c : Constr} (hc : ∀ r t s, c ≠ .sub r t s true) :
    TY L σ (regStore σ c) := by
  refine ⟨⟨Nat.le_refl _, fun _ _ h => h⟩, ?_⟩
  intro d r t s hd h
  by_cases hlt : d < σ.constrs.length
  · rw [getConstr_regStore_lt hlt] at h; exact Or.inl ⟨hlt, h⟩
  · have : d = σ.constrs.length := by
      have : (regStore σ c).constrs.length = σ.constrs.length + 1 := by unfold regStore; simp
      omega
    subst this
    rw [getConstr_regStore_eq] at h
    exact absurd h (hc r t s)

theorem ext_of_vars {σ σ' : Store} (h : σ'.vars = σ.vars) : Ext σ σ' :=
  ⟨by rw [h]; exact Nat.le_refl _, fun v b hb => by unfold getVar at hb ⊢; rw [h]; exact hb⟩

theorem wildLe1_of_vars {σ σ' : Store} (h : σ'.vars = σ.vars) (hw : WildLe1 σ) : WildLe1 σ' :=
  wildLe1_vars_congr h hw

theorem normC_unmarked {σ : Store} {c : Constr} (hc : ∀ r t s, c ≠ .sub r t s true) :
    ∀ r t s, normC σ c ≠ .sub r t s true := by
  intro r t s h
  cases c with
  | sub r0 t0 s0 f0 =>
    unfold normC at h
    injection h with _ _ h3 h4
    subst h3; subst h4
    exact hc r0 t0 s0 rfl
  | elim r0 a0 f0 => unfold normC at h; cases h

theorem addConstraint_ty {L : Lang} {fuel : Nat} {σ σ' : Store} {c : Constr}
    (hc : ∀ r t s, c ≠ .sub r t s true) (hw : WildLe1 σ) (h : addConstraint L fuel σ c = .ok σ') :
    TY L σ σ' ∧ WildMono σ σ' := by
  rw [addConstraint_eq] at h
  simp only [] at h
  split at h
  · cases h
  · have s1 : TY L σ (regStore σ (normC σ c)) := ty_regStore σ (normC_unmarked hc)
    have w1 : WildLe1 (regStore σ (normC σ c)) := wildLe1_of_vars rfl hw
    have hv := vars_informStore σ.constrs.length
      (varsOfTerms (regStore σ (normC σ c)) (constrTerms (normC σ c))) (regStore σ (normC σ c))
    have s2 : TY L (regStore σ (normC σ c)) (informStore σ.constrs.length
        (varsOfTerms (regStore σ (normC σ c)) (constrTerms (normC σ c))) (regStore σ (normC σ c))) :=
      ty_of_constrs (ext_of_vars hv) (constrs_informStore _ _ _)
    have w2 := wildLe1_of_vars hv w1
    have hf := (all_marks L fuel).2.2.2.2.2.2.2.2.2.1 _ σ.constrs.length w2
    split at h
    · cases h
    · next σ1 d he =>
      injection h with h
      subst h
      have s3 := hf.step he
      refine ⟨s1.trans (s2.trans s3.toY), ?_⟩
      intro v hv'
      have := s3.wild v hv'
      unfold getVar at this ⊢
      rw [hv] at this
      exact this

theorem addConstraints_ty {L : Lang} {fuel base : Nat} : ∀ (cs : List CAst) {σ σ' : Store}, WildLe1 σ →
    addConstraints L fuel base σ cs = .ok σ' → TY L σ σ' ∧ WildMono σ σ'
  | [], σ, σ', hw, h => by
    unfold addConstraints at h
    injection h with h; subst h
    exact ⟨TY.refl L σ, WildMono.refl σ⟩
  | c :: cs, σ, σ', hw, h => by
    unfold addConstraints at h
    simp only [] at h
    split at h
    · cases h
    · next σ1 he =>
      have hc : ∀ r t s, (match c with
          | .sub r t s => Constr.sub (r.shift base) (t.shift base) s false
          | .elim r alts => Constr.elim (followT σ (r.shift base)) (Term.shiftL base alts) false) ≠
            .sub r t s true := by
        intro r t s hh
        cases c with
        | sub r0 t0 s0 => simp only [] at hh; injection hh with _ _ _ h4; cases h4
        | elim r0 a0 => simp only [] at hh; cases hh
      obtain ⟨s1, w1⟩ := addConstraint_ty hc hw he
      obtain ⟨s2, w2⟩ := addConstraints_ty cs (wl_mono w1 hw) h
      exact ⟨s1.trans s2, w1.trans w2⟩

theorem e0_foldl {α : Type} (f : Store → α → Store)
    (hf : ∀ σ x, Ext σ (f σ x) ∧ (f σ x).constrs = σ.constrs) :
    ∀ (xs : List α) (σ : Store), Ext σ (xs.foldl f σ) ∧ (xs.foldl f σ).constrs = σ.constrs
  | [], σ => ⟨Ext.refl σ, rfl⟩
  | x :: xs, σ => by
    simp only [List.foldl_cons]
    obtain ⟨e1, c1⟩ := hf σ x
    obtain ⟨e2, c2⟩ := e0_foldl f hf xs (f σ x)
    exact ⟨e1.trans e2, c2.trans c1⟩

theorem e0_allocVars (σ : Store) (nvars nwild : Nat) :
    Ext σ (allocVars σ nvars nwild) ∧ (allocVars σ nvars nwild).constrs = σ.constrs := by
  unfold allocVars
  simp only []
  obtain ⟨e1, c1⟩ := e0_foldl (fun σ (_ : Nat) => (newVar σ false).1) (fun σ _ => ⟨ext_newVar σ false, rfl⟩)
    (List.range nvars) σ
  obtain ⟨e2, c2⟩ := e0_foldl (fun σ (_ : Nat) => (newVar σ true).1) (fun σ _ => ⟨ext_newVar σ true, rfl⟩)
    (List.range nwild) ((List.range nvars).foldl (fun σ _ => (newVar σ false).1) σ)
  exact ⟨e1.trans e2, c2.trans c1⟩

theorem instantiate_ty {L : Lang} {fuel : Nat} {σ σ' : Store} {s : Schema} {f : Term}
    (hw : WildLe1 (allocVars σ s.nvars s.nwild)) (h : instantiate L fuel σ s = .ok (σ', f)) :
    TY L σ σ' ∧ WildMono (allocVars σ s.nvars s.nwild) σ' := by
  unfold instantiate at h
  simp only [] at h
  obtain ⟨e0, c0⟩ := e0_allocVars σ s.nvars s.nwild
  have s0 : TY L σ (allocVars σ s.nvars s.nwild) := ty_of_constrs e0 c0
  split at h
  · cases h
  · next σ1 he =>
    obtain ⟨s1, w1⟩ := addConstraints_ty s.constraints hw he
    have s2 := ((all_marks L fuel).2.2.2.2.2.1 σ1 _ true (wl_mono w1 hw)).step h
    exact ⟨s0.trans (s1.trans s2.toY), w1.trans s2.wild⟩

/-- the run of the task, from the empty store: every mark of the final store passes the strict matcher given `d` more
fuel than the certificate uses, `d` the depth of the bindings of the final store -/
theorem reach_marks_strict {L : Lang} {n : Nat} {fixFlag : Bool} {s : Schema} {xs : List Term} {σ σ' : Store}
    {f r : Term} {d : Nat} (hw : WildLe1 (allocVars {} s.nvars s.nwild))
    (hi : instantiate L n {} s = .ok (σ, f)) (ha : applyAll L n fixFlag σ f xs = .ok (σ', r))
    (hr : ReflD L (dewild σ') true d) :
    subsStrictAt L σ' (matchFuel σ' + d) = true := by
  obtain ⟨y1, w1'⟩ := instantiate_ty hw hi
  have w1 := wl_mono w1' hw
  have y2 : TY L σ σ' := ((applyAll_tx L n fixFlag xs σ f w1).step ha).toY
  have y := y1.trans y2
  have c1 : Chains σ := (instantiate_good L n s chains_empty).chains hi
  have c2 : Chains σ' := ((applyAll_good L n fixFlag xs σ f c1).step ha).ch
  apply subsStrictAt_of
  intro c r0 t0 s0 hc hg
  rcases y.marks c r0 t0 s0 hc hg with ⟨h0, _⟩ | ⟨σm, em, hm⟩
  · cases h0
  · have := matchFuel_mono em
    exact strict_stable em c2 hr (by omega) r0 t0 hm


/-! ## allocation of variables and the wildcard budget -/

theorem wildLe1_of_noWild {σ : Store} (h : NoWild σ) : WildLe1 σ :=
  fun u _ hu _ => by rw [h u] at hu; cases hu

theorem wildMono_foldl_newVar : ∀ (xs : List Nat) (σ : Store),
    WildMono σ (xs.foldl (fun σ _ => (newVar σ false).1) σ)
  | [], σ => WildMono.refl σ
  | _ :: xs, σ => by
    simp only [List.foldl_cons]
    exact (wildMono_newVar σ).trans (wildMono_foldl_newVar xs _)

theorem wildMono_allocVars_zero (σ : Store) (nv : Nat) : WildMono σ (allocVars σ nv 0) := by
  unfold allocVars
  simp only [List.range_zero, List.foldl_nil]
  exact wildMono_foldl_newVar _ σ

theorem wildLe1_newVar_true {σ : Store} (h : NoWild σ) : WildLe1 (newVar σ true).1 := by
  have key : ∀ u, (getVar (newVar σ true).1 u).wildcard = true → u = σ.vars.length := by
    intro u hu
    by_cases h1 : u < σ.vars.length
    · rw [getVar_newVar_lt h1, h u] at hu; cases hu
    · by_cases h2 : u = σ.vars.length
      · exact h2
      · have : (newVar σ true).1.vars.length ≤ u := by rw [length_newVar]; omega
        rw [getVar_ge this] at hu; cases hu
  intro u v hu hv
  rw [key u hu, key v hv]

theorem wildLe1_allocVars {σ : Store} (h : NoWild σ) (nv : Nat) {nw : Nat} (hn : nw ≤ 1) :
    WildLe1 (allocVars σ nv nw) := by
  have h1 : NoWild ((List.range nv).foldl (fun σ _ => (newVar σ false).1) σ) :=
    (wildMono_foldl_newVar _ σ).noWild h
  unfold allocVars
  simp only []
  cases nw with
  | zero => simp only [List.range_zero, List.foldl_nil]; exact wildLe1_of_noWild h1
  | succ k =>
    have : k = 0 := by omega
    subst this
    rw [show List.range (0 + 1) = [0] from rfl]
    simp only [List.foldl_cons, List.foldl_nil]
    exact wildLe1_newVar_true h1

theorem noWild_empty : NoWild {} := fun v => by unfold getVar; rfl

/-- the run of the task from the empty store, for a schema with at most one wildcard -/
theorem reach_marks_strict_nwild {L : Lang} {n : Nat} {fixFlag : Bool} {s : Schema} {xs : List Term} {σ σ' : Store}
    {f r : Term} {d : Nat} (hs : s.nwild ≤ 1)
    (hi : instantiate L n {} s = .ok (σ, f)) (ha : applyAll L n fixFlag σ f xs = .ok (σ', r))
    (hr : ReflD L (dewild σ') true d) :
    subsStrictAt L σ' (matchFuel σ' + d) = true :=
  reach_marks_strict (wildLe1_allocVars noWild_empty s.nvars hs) hi ha hr

end Tfv.C03X
