/-! Feasibility prototype: nested inductive types, recursion, order proofs. -/
namespace P

inductive Ty where
  | app (o : Nat) (args : List Ty)
  deriving Repr, Inhabited

structure OpDecl where
  name : String
  variance : List Bool
  parent : Option Nat
  deriving Repr, DecidableEq

abbrev Lang := List OpDecl

def TOP : Nat := 1
def BOT : Nat := 2

def parentOf (L : Lang) (a : Nat) : Option Nat := (L[a]?).bind (·.parent)

/-- ancestor walk with fuel -/
def isAnc (L : Lang) : Nat → Nat → Nat → Bool
  | 0, _, _ => false
  | fuel+1, a, b =>
    a == b || (match parentOf L a with
      | some p => isAnc L fuel p b
      | none => false)

/-- declarative ancestor relation -/
inductive Anc (L : Lang) : Nat → Nat → Prop
  | refl (a) : Anc L a a
  | step {a p b} : parentOf L a = some p → Anc L p b → Anc L a b

/-- well-formed: parents are created before children -/
def WF (L : Lang) : Prop := ∀ a p, parentOf L a = some p → p < a

theorem Anc.trans {L a b c} (h1 : Anc L a b) (h2 : Anc L b c) : Anc L a c := by
  induction h1 with
  | refl => exact h2
  | step hp _ ih => exact .step hp (ih h2)

theorem Anc.le {L a b} (wf : WF L) (h : Anc L a b) : b ≤ a := by
  induction h with
  | refl => exact Nat.le_refl _
  | step hp _ ih => exact Nat.le_trans ih (Nat.le_of_lt (wf _ _ hp))

theorem Anc.antisymm {L a b} (wf : WF L) (h1 : Anc L a b) (h2 : Anc L b a) : a = b :=
  Nat.le_antisymm (h2.le wf) (h1.le wf)

theorem isAnc_sound {L} : ∀ fuel a b, isAnc L fuel a b = true → Anc L a b := by
  intro fuel
  induction fuel with
  | zero => intro a b h; simp [isAnc] at h
  | succ n ih =>
    intro a b h
    simp only [isAnc, Bool.or_eq_true, beq_iff_eq] at h
    rcases h with h | h
    · subst h; exact .refl _
    · split at h
      · next p hp => exact .step hp (ih _ _ h)
      · simp at h

theorem isAnc_complete {L} (wf : WF L) {a b} (h : Anc L a b) : ∀ fuel, a < fuel → isAnc L fuel a b = true := by
  induction h with
  | refl a => intro fuel hf; cases fuel with
    | zero => omega
    | succ n => simp [isAnc]
  | @step a p b hp _ ih =>
    intro fuel hf
    cases fuel with
    | zero => omega
    | succ n =>
      have := wf _ _ hp
      simp only [isAnc, Bool.or_eq_true, beq_iff_eq, hp]
      right; exact ih n (by omega)

end P
