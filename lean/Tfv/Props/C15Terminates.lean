import Tfv.Model
import Tfv.Spec.Lambda
import Tfv.Spec.LambdaTyped
import Tfv.Proofs.LambdaSNNf
/-!
# C15, termination clause — the expansion of a TYPED expression always terminates

`Tfv/Props/C15.lean` and `Tfv/Props/C15Typed.lean` state everything about `primitiveL` under the condition that
the fuelled normaliser `nf` returns `some`. This file removes the condition for typed terms: beta reduction
(`Red`, `Tfv/Spec/Lambda.lean`) is STRONGLY NORMALISING on every term that has a type in the system
`HasType` (`Tfv/Spec/LambdaTyped.lean`: simple types over the library's concrete types, with subsumption along
the declared order `Sub L`, over any well-formed language `WF L`).

* `SN t` is accessibility of `t` for the converse of `Red` (`Acc`): every reduction sequence from `t`, in
  whatever order the redexes are chosen, is finite (`C15n_no_infinite_reduction`).
* The proof is Tait's: reducibility predicates `RedS` by recursion on the arrow skeleton of the type (`sk`;
  `Function A B` is the arrow, `Bottom` is special, every other type — base types, `Top`, products, declared
  compound types, ill-formed applications — is an atom), the three candidate properties (`C15n_candidates`),
  the fundamental lemma with a parallel substitution.
* **`Top`/`Bottom`.** `Top` is above everything: its candidate is "strongly normalising", which contains every
  candidate (CR1). `Bottom` is below every function type, so a term of type `Bottom` may be applied to anything,
  `x x` is typed when `x : Bottom`, and `λx. x x : Bottom → T` (`C15n_selfapp_typed`). This does NOT break strong
  normalisation, because no anonymous function has the type `Bottom` (nothing but `Bottom` is below `Bottom`):
  the candidate of `Bottom` is "strongly normalising and no reduct is an anonymous function" (`HN`), it is
  contained in every candidate (`C15n_bottom_least`), and `(λx. x x) (λx. x x)` has no type
  (`C15n_omega_untypable`). Closure under subsumption: `C15n_subsumption`.
* No hypothesis on the definitions beyond `DefsTyped` is needed for termination (not even dependency order:
  `unfoldDefs` is fuelled by the length of the list; what it leaves is an operator). Dependency order is needed
  for the result to be free of composite operators (`C15_normal_partial`).

All statements are full (no `_partial`): no counterexample to strong normalisation exists in this system.
-/
namespace Tfv.C15
open Tfv Tfv.LamSpec Tfv.LamTyped Tfv.C15P

/-! ## 1. strong normalisation -/

/-- Strong normalisation: a term that has a type (in any context, signature and well-formed language, with
subsumption, `Top` and `Bottom` included) has no infinite beta reduction sequence, whatever the strategy. -/
theorem C15n_strongly_normalising (L : Lang) (wf : WF L) (Sg : String → Option Ty) (S : Nat → Option Ty)
    (Γ : List Ty) (t : LTerm) (T : Ty) (h : HasType L Sg S Γ t T) : SN t :=
  typed_sn wf h

example : SN tUnfolded := C15n_strongly_normalising tL tL_wf tSg tS [] _ tVal tUnfolded_typed
example : SN (lamN 1 (.app (.op "r") (.var 0))) := C15n_strongly_normalising tL tL_wf tSg tS [] _ _ conv_typed

/-- What `SN` means: there is no infinite sequence of beta steps starting at the term. -/
theorem C15n_no_infinite_reduction (t : LTerm) (h : SN t) :
    ¬ ∃ f : Nat → LTerm, f 0 = t ∧ ∀ n, Red (f n) (f (n+1)) :=
  sn_no_infinite h

example : SN tUnfolded := typed_sn tL_wf tUnfolded_typed

/-- `SN` is closed under reduction and implies the existence of a normal form. -/
theorem C15n_sn_normal_form (t : LTerm) (h : SN t) : ∃ r, RedStar t r ∧ Normal r :=
  sn_normal_form h

example : RedStar tUnfolded tResult ∧ noRedex tResult = true := ⟨nf_sound 8 _ _ tNf, by decide⟩

/-- The reducibility candidates: for every type skeleton, reducible terms are strongly normalising (CR1),
reducts of reducible terms are reducible (CR2), and a term that is not an anonymous function and whose
one-step reducts are all reducible is reducible (CR3). -/
theorem C15n_candidates (s : SType) :
    (∀ t, RedS s t → SN t) ∧
    (∀ t t', RedS s t → Red t t' → RedS s t') ∧
    (∀ t, t.isLam = false → (∀ t', Red t t' → RedS s t') → RedS s t) :=
  cr_all s

example : RedS (sk (fn tRatio tVal)) (.op "r") := redS_op _ _

/-- The candidate of `Bottom` — strongly normalising terms no reduct of which is an anonymous function — is
contained in the candidate of every type, as `Bottom` is below every type. -/
theorem C15n_bottom_least (T : Ty) (t : LTerm) (h : RedS (sk (.app BOT [])) t) : RedS (sk T) t :=
  hn_redS _ (by rw [sk_bot] at h; exact h)

example : RedS (sk (.app BOT [])) (.var 0) := redS_var _ _

/-- Candidates go up along the declared order: a reducible term of type `T` is reducible at every supertype. -/
theorem C15n_subsumption (L : Lang) (wf : WF L) (T T' : Ty) (h : Sub L T T') (t : LTerm)
    (ht : RedS (sk T) t) : RedS (sk T') t :=
  sub_redS wf h ht

example : Sub tL (fn tOrd tRatio) (fn tRatio tVal) ∧ RedS (sk (fn tOrd tRatio)) (.op "r") :=
  ⟨sub_fn tL_wf ratio_ord ratio_val, redS_op _ _⟩

/-- The fundamental lemma: a typed term, with reducible terms substituted (in parallel) for its variables, is
reducible at its type. -/
theorem C15n_fundamental (L : Lang) (wf : WF L) (Sg : String → Option Ty) (S : Nat → Option Ty)
    (Γ : List Ty) (t : LTerm) (T : Ty) (h : HasType L Sg S Γ t T) (σ : Nat → LTerm)
    (hσ : ∀ i A, Γ[i]? = some A → RedS (sk A) (σ i)) : RedS (sk T) (msub t σ) :=
  fundamental wf h σ hσ

example : HasType tL tSg tS [tRatio] (.app (.op "r") (.var 0)) tRatio ∧
    msub (.app (.op "r") (.var 0)) (scons (.src 0) LTerm.var) = .app (.op "r") (.src 0) ∧
    RedS (sk tRatio) (.src 0) :=
  ⟨HasType.app (A := tOrd) (HasType.op rfl) (HasType.sub (HasType.var rfl) ratio_ord), rfl, redS_src _ _⟩

/-- Self-application is typable through `Bottom`: `λx. x x` has the type `Bottom → T` for every `T`, in every
language, because `Bottom` is below the function type `Bottom → T` … -/
theorem C15n_selfapp_typed (L : Lang) (Sg : String → Option Ty) (S : Nat → Option Ty) (Γ : List Ty) (T : Ty) :
    HasType L Sg S Γ (.lam (.app (.var 0) (.var 0))) (fn (.app BOT []) T) :=
  selfapp_typed Γ T

/-- … but the looping term `(λx. x x) (λx. x x)` has no type at all (an anonymous function never has the type
`Bottom`), and it is not strongly normalising: the typing hypothesis of `C15n_strongly_normalising` cannot be
dropped. -/
theorem C15n_omega_untypable (L : Lang) (wf : WF L) (Sg : String → Option Ty) (S : Nat → Option Ty)
    (Γ : List Ty) (T : Ty) :
    ¬ HasType L Sg S Γ exOmega T ∧ ¬ SN exOmega ∧ ∀ n, nf n exOmega = none :=
  ⟨exOmega_untypable wf Γ T, exOmega_not_sn, exOmega_diverges⟩

example : SN (.lam (.app (.var 0) (.var 0))) :=
  C15n_strongly_normalising tL tL_wf tSg tS [] _ _ (C15n_selfapp_typed tL tSg tS [] tVal)

example : exOmega = .app (.lam (.app (.var 0) (.var 0))) (.lam (.app (.var 0) (.var 0))) := rfl

/-! ## 2. the fuelled normaliser terminates -/

/-- On a strongly normalising term the leftmost-outermost normaliser `nf` returns a result for some fuel
(and then for every larger fuel, `C15_fuel_monotone`). -/
theorem C15n_nf_terminates (t : LTerm) (h : SN t) : ∃ fuel r, nf fuel t = some r :=
  sn_nf_terminates h

example : SN tUnfolded ∧ nf 8 tUnfolded = some tResult := ⟨typed_sn tL_wf tUnfolded_typed, tNf⟩

/-- `nf` terminates on every typed term. -/
theorem C15n_nf_terminates_typed (L : Lang) (wf : WF L) (Sg : String → Option Ty) (S : Nat → Option Ty)
    (Γ : List Ty) (t : LTerm) (T : Ty) (h : HasType L Sg S Γ t T) : ∃ fuel r, nf fuel t = some r :=
  typed_nf_terminates wf h

example : HasType tL tSg tS [] tUnfolded tVal := tUnfolded_typed

/-- `primitiveL` terminates on every typed expression when the definitions are typed at (a subtype of) their
declared types. No order or acyclicity hypothesis on the definitions is needed for termination. -/
theorem C15n_primitive_terminates (L : Lang) (wf : WF L) (Sg : String → Option Ty) (S : Nat → Option Ty)
    (defs : List LDef) (hd : DefsTyped L Sg S defs) (Γ : List Ty) (t : LTerm) (T : Ty)
    (h : HasType L Sg S Γ t T) : ∃ fuel r, primitiveL defs fuel t = some r :=
  typed_primitive_terminates wf hd h

example : WF tL ∧ DefsTyped tL tSg tS tDefs ∧ HasType tL tSg tS [] tTerm tVal ∧
    primitiveL tDefs 8 tTerm = some tResult :=
  ⟨tL_wf, tDefs_typed, tTerm_typed, tPrim⟩

/-- The fuel is eventually irrelevant: from some fuel on, every run of `primitiveL` on a typed expression
succeeds and returns the same result; `none` can only mean "fuel too small", never "no result". -/
theorem C15n_primitive_eventually (L : Lang) (wf : WF L) (Sg : String → Option Ty) (S : Nat → Option Ty)
    (defs : List LDef) (hd : DefsTyped L Sg S defs) (Γ : List Ty) (t : LTerm) (T : Ty)
    (h : HasType L Sg S Γ t T) : ∃ fuel₀ r, ∀ fuel, fuel₀ ≤ fuel → primitiveL defs fuel t = some r :=
  typed_primitive_eventually wf hd h

example : DefsTyped tL tSg tS tDefs ∧ HasType tL tSg tS [] tTerm2 tVal ∧ primitiveL tDefs 8 tTerm2 = some tResult2 :=
  ⟨tDefs_typed, tTerm2_typed, tPrim2⟩

/-- C15 for typed expressions, unconditionally: if the definitions are in dependency order and typed at (a
subtype of) their declared types, then for every expression `t` of type `T` there are a fuel and a result `r`
with `primitiveL defs fuel t = some r`; `r` contains no composite operator and no reducible application; `r`
has the type `T` (the same or a more specific type); and every successful run, with whatever fuel, returns
this same `r`. -/
theorem C15n_primitive_total (L : Lang) (wf : WF L) (Sg : String → Option Ty) (S : Nat → Option Ty)
    (defs : List LDef) (hd : DefsTyped L Sg S defs) (hdep : depOrdered defs = true)
    (Γ : List Ty) (t : LTerm) (T : Ty) (h : HasType L Sg S Γ t T) :
    ∃ fuel r, primitiveL defs fuel t = some r ∧ normalB defs r = true ∧ HasType L Sg S Γ r T ∧
      ∀ fuel' r', primitiveL defs fuel' t = some r' → r' = r :=
  typed_primitive_total wf hd hdep h

example : WF tL ∧ DefsTyped tL tSg tS tDefs ∧ depOrdered tDefs = true ∧ HasType tL tSg tS [] tTerm tVal :=
  ⟨tL_wf, tDefs_typed, tDefs_dep, tTerm_typed⟩
example : HasType tL tSg tS [] tTerm2 tVal ∧ HasType tL tSg tS [] tTerm3 tOrd := ⟨tTerm2_typed, tTerm3_typed⟩

/-- the corollary instantiated on the three example expressions -/
example : ∃ fuel r, primitiveL tDefs fuel tTerm = some r ∧ normalB tDefs r = true ∧ HasType tL tSg tS [] r tVal ∧
    ∀ fuel' r', primitiveL tDefs fuel' tTerm = some r' → r' = r :=
  C15n_primitive_total tL tL_wf tSg tS tDefs tDefs_typed tDefs_dep [] tTerm tVal tTerm_typed

end Tfv.C15
