import Tfv.Proofs.WorkflowIsoFull
import Tfv.Proofs.WorkflowNode
/-!
# The target stage of `add_workflow` (`wfNode`) under a renaming of the blank-node supply; the initial graph
-/
namespace Tfv

variable {ρ : Nat → Nat}

theorem addExpr_ren_ok (G : GLang) (c : GCfg) (root : Node) (origin : Option Node)
    (hρ : Function.Injective ρ) (hr : renN ρ root = root) (ho : OriginFixed ρ origin)
    (e : TExpr) (g g' : GState) (cur : Option Nat) (inter : Bool) (h : SRen ρ g g') (g2 : GState) (n : Nat)
    (hrun : addExpr G c root origin g e cur inter = .ok (g2, n)) :
    ∃ g2', addExpr G c root origin g' e (cur.map ρ) inter = .ok (g2', ρ n) ∧ SRen ρ g2 g2' := by
  have := addExpr_ren G c root origin hρ hr ho e g g' cur inter h
  rw [hrun] at this
  obtain ⟨⟨g2', n'⟩, h1, h2, h3⟩ := this
  simp only at h2 h3
  subst h3
  exact ⟨g2', h1, h2⟩

theorem addExpr_ren_error (G : GLang) (c : GCfg) (root : Node) (origin : Option Node)
    (hρ : Function.Injective ρ) (hr : renN ρ root = root) (ho : OriginFixed ρ origin)
    (e : TExpr) (g g' : GState) (cur : Option Nat) (inter : Bool) (h : SRen ρ g g') (err : GErr)
    (hrun : addExpr G c root origin g e cur inter = .error err) :
    addExpr G c root origin g' e (cur.map ρ) inter = .error err := by
  have := addExpr_ren G c root origin hρ hr ho e g g' cur inter h
  rw [hrun] at this
  exact this

theorem alook_renV (ρ : Nat → Nat) (l : List (Nat × Nat)) (k : Nat) :
    alook (l.map (renV ρ)) k = (alook l k).map ρ := by
  unfold alook
  rw [find?_key_renV]
  cases l.find? (fun p => p.1 == k) <;> rfl

theorem nodeOf_ren {g g' : GState} (h : SRen ρ g g') (e : TExpr) : nodeOf g' e = (nodeOf g e).map ρ := by
  cases e with
  | src id l t => simp only [nodeOf, h.srcNodes, alook_renV]
  | op n t => rfl
  | app f x t => rfl
  | shared k e => simp only [nodeOf, h.sharedNodes, alook_renV]

/-- **The target stage of `add_workflow` is equivariant**: on a renamed state `wfNode` fails alike or gives the renamed
node and state (origins on or off: a resource node is not a blank node). -/
theorem wfNode_ren (hρ : Function.Injective ρ) (G : GLang) (c : GCfg) (w : Wf) {root : Node} (hr : renN ρ root = root)
    (exprs : List (Nat × TExpr)) : ∀ (n : Nat) (g g' : GState) (r : Nat), SRen ρ g g' →
      IsoRelX (SRenK ρ) (wfNode G c w root exprs n g r) (wfNode G c w root exprs n g' r) := by
  intro n
  induction n with
  | zero => intro g g' r _; rw [wfNode_zero, wfNode_zero]; exact rfl
  | succ n ih =>
    intro g g' r h
    rw [wfNode_succ, wfNode_succ]
    cases alook exprs r with
    | none => exact rfl
    | some e =>
      simp only
      rw [nodeOf_ren h]
      cases nodeOf g e with
      | some k => exact ⟨_, rfl, h, rfl⟩
      | none =>
        simp only [Option.map_none]
        have h1 : IsoRelX (SRen ρ) (wfNodeInputs G c w root exprs n g r) (wfNodeInputs G c w root exprs n g' r) := by
          unfold wfNodeInputs
          split
          · exact ⟨_, rfl, h⟩
          · cases w.app? r with
            | none => exact ⟨_, rfl, h⟩
            | some a =>
              simp only
              refine foldlM_relX (Q := SRen ρ) _ _ _ (fun i _ ga ga' hga => ?_) h
              unfold wfNodeInputsStep
              have h2 := ih ga ga' i hga
              cases hw : wfNode G c w root exprs n ga i with
              | error e =>
                rw [hw] at h2
                have h2' : wfNode G c w root exprs n ga' i = .error e := h2
                rw [h2']; exact rfl
              | ok p =>
                rw [hw] at h2
                obtain ⟨p', hp', hq, _⟩ := h2
                rw [hp']
                exact ⟨_, rfl, hq⟩
        cases hi : wfNodeInputs G c w root exprs n g r with
        | error e =>
          rw [hi] at h1
          have h1' : wfNodeInputs G c w root exprs n g' r = .error e := h1
          rw [h1']; exact rfl
        | ok g1 =>
          rw [hi] at h1
          obtain ⟨g1', hg1', hg1⟩ := h1
          rw [hg1']
          simp only
          have h3 := addExpr_ren G c root (some (.res (w.resName r))) hρ hr
            (fun o ho => by cases ho; rfl) e g1 g1' none false hg1
          simp only [Option.map_none] at h3
          cases ha : addExpr G c root (some (.res (w.resName r))) g1 e none false with
          | error ge =>
            rw [ha] at h3
            have h3' : addExpr G c root (some (.res (w.resName r))) g1' e none false = .error ge := h3
            rw [h3']; exact rfl
          | ok p =>
            rw [ha] at h3
            obtain ⟨p', hp', hq⟩ := h3
            rw [hp']
            exact ⟨p', rfl, hq⟩

/-- the initial graph with the blank-node counter started at `k` -/
def initGraphAt (G : GLang) (c : GCfg) (k : Nat) : GState := { initGraph G c with nextB := k }

theorem initGraph_nextB (G : GLang) (c : GCfg) : (initGraph G c).nextB = 0 := by
  unfold initGraph; split <;> rfl

/-- the initial graph has no blank node: started at `k`, it is the initial graph renamed by `n ↦ n + k` -/
theorem initGraph_shift (G : GLang) (c : GCfg) (k : Nat) : SRen (· + k) (initGraph G c) (initGraphAt G c k) := by
  have hfix : ∀ x ∈ (initGraph G c).typeNodes, renN (· + k) x.2 = x.2 := by
    intro x hx
    unfold initGraph at hx
    split at hx
    · cases hx
    · simp only [List.mem_filterMap] at hx
      obtain ⟨t, _, ht⟩ := hx
      split at ht
      · rename_i n hn
        simp only [Option.some.injEq] at ht
        subst ht
        exact typeUri_fixed G _ _ hn
      · cases ht
  have hT : (initGraph G c).typeNodes = (initGraph G c).typeNodes.map (fun p => (p.1, renN (· + k) p.2)) := by
    conv => lhs; rw [← List.map_id (initGraph G c).typeNodes]
    apply List.map_congr_left
    intro x hx
    rw [hfix x hx]
    rfl
  have hE : (initGraph G c).triples = [] ∧ (initGraph G c).srcNodes = [] ∧ (initGraph G c).sharedNodes = [] ∧
      (initGraph G c).internals = [] ∧ (initGraph G c).fd = {} := by
    unfold initGraph; split <;> exact ⟨rfl, rfl, rfl, rfl, rfl⟩
  refine ⟨?_, ?_, ?_, ?_, ?_, ?_, hT, rfl⟩
  · show (initGraph G c).triples = _; rw [hE.1]; rfl
  · show (initGraph G c).srcNodes = _; rw [hE.2.1]; rfl
  · show (initGraph G c).sharedNodes = _; rw [hE.2.2.1]; rfl
  · show (initGraph G c).internals = _; rw [hE.2.2.2.1]; rfl
  · show (initGraph G c).fd = _; rw [hE.2.2.2.2]; rfl
  · intro i
    show (initGraph G c).nextB + i + k = k + i
    rw [initGraph_nextB]; omega

end Tfv
