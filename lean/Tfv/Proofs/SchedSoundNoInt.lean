import Tfv.Proofs.SchedSoundEq
import Tfv.Proofs.InferNoInternalEngine
/-!
# C18 (no internal error under every schedule): the mutual block

Port of `InferNoInternalEngine.lean` to the scheduled engine: one induction on the fuel over the twelve
functions of `InferSched.lean`. No hypothesis on the schedule at all is needed: `checkListS` is treated
for every list of constraint ids (`fulfillS` of an arbitrary id is harmless).
-/
namespace Tfv.C18S
open Tfv Tfv.C03P Tfv.C03C Tfv.C16P Tfv.C17E

variable {ord : List Nat → List Nat}

def UnifyNO (L : Lang) (ord : List Nat → List Nat) (n : Nat) : Prop :=
  ∀ σ a b st sb sw, Chains σ → GoodR σ (unifyS L ord n σ a b st sb sw)

def UnifyListNO (L : Lang) (ord : List Nat → List Nat) (n : Nat) : Prop :=
  ∀ σ vs xs ys st sb sw, Chains σ → GoodR σ (unifyListS L ord n σ vs xs ys st sb sw)

def BindNO (L : Lang) (ord : List Nat → List Nat) (n : Nat) : Prop :=
  ∀ σ v t, Chains σ → (getVar σ v).bound = none → Final σ t → GoodR σ (bindS L ord n σ v t)

def AboveNO (L : Lang) (ord : List Nat → List Nat) (n : Nat) : Prop :=
  ∀ σ v new, Chains σ → (getVar σ v).bound = none → GoodR σ (aboveS L ord n σ v new)

def BelowNO (L : Lang) (ord : List Nat → List Nat) (n : Nat) : Prop :=
  ∀ σ v new, Chains σ → (getVar σ v).bound = none → GoodR σ (belowS L ord n σ v new)

def CheckNO (L : Lang) (ord : List Nat → List Nat) (n : Nat) : Prop :=
  ∀ σ v, Chains σ → GoodR σ (checkConstraintsS L ord n σ v)

def CheckListNO (L : Lang) (ord : List Nat → List Nat) (n : Nat) : Prop :=
  ∀ σ v cs, Chains σ → GoodR σ (checkListS L ord n σ v cs)

def FulfillNO (L : Lang) (ord : List Nat → List Nat) (n : Nat) : Prop :=
  ∀ σ c, Chains σ → GoodP σ (fulfillS L ord n σ c)


def MinimizeNO (L : Lang) (ord : List Nat → List Nat) (n : Nat) : Prop :=
  ∀ σ c, Chains σ → GoodR σ (minimizeS L ord n σ c) ∧ MinPost σ c (minimizeS L ord n σ c)

def MinLoopNO (L : Lang) (ord : List Nat → List Nat) (n : Nat) : Prop :=
  ∀ σ alts mins, Chains σ → GoodP σ (minLoopS L ord n σ alts mins)

def FixNO (L : Lang) (ord : List Nat → List Nat) (n : Nat) : Prop :=
  ∀ σ t pl, Chains σ → GoodP σ (fixS L ord n σ t pl)

def FixListNO (L : Lang) (ord : List Nat → List Nat) (n : Nat) : Prop :=
  ∀ σ vs ps pl, Chains σ → GoodR σ (fixListS L ord n σ vs ps pl)

/-! ## 3. `unify`, `unifyList` -/

theorem unify_stepNO {L : Lang} {n : Nat} (hunify : UnifyNO L ord n) (hlist : UnifyListNO L ord n) (hbind : BindNO L ord n)
    (habove : AboveNO L ord n) (hbelow : BelowNO L ord n) : UnifyNO L ord (n+1) := by
  intro σ a b st sb sw hc
  have fa := hc.finalT a
  have fb := hc.finalT b
  unfold unifyS
  split
  · next av bv e1 e2 =>
    rw [e1] at fa; rw [e2] at fb
    split
    · exact hbind σ av _ hc fa fb
    · exact GoodR.refl hc
  · split
    · exact GoodR.refl hc
    · split
      · split
        · exact GoodR.refl hc
        · split
          · exact goodR_err rfl
          · split
            · exact goodR_err rfl
            · exact GoodR.refl hc
      · split
        · exact hlist _ _ _ _ _ _ _ hc
        · exact goodR_err rfl
  · next av bo bs e1 e2 =>
    rw [e1] at fa
    split
    · exact GoodR.refl hc
    · split
      · exact goodR_err rfl
      · split
        · split
          · exact GoodR.refl hc
          · split
            · exact hbelow σ av bo hc fa
            · exact hbind σ av _ hc fa trivial
        · split
          · split
            next σ1 fresh hnv =>
            have s1 : StepN σ σ1 := by
              have := stepN_newVars hc bs.length; rw [hnv] at this; exact this
            have fa1 : (getVar σ1 av).bound = none := by
              have := (boundEq_newVars bs.length σ).bound av; rw [hnv] at this; exact this.trans fa
            refine GoodR.trans s1 (goodR_seq (hbind σ1 av _ s1.ch fa1 trivial) ?_)
            intro σ2 _ s2
            exact hunify _ _ _ _ _ _ s2.ch
          · exact hbind σ av _ hc fa trivial
  · next ao as bv e1 e2 =>
    rw [e2] at fb
    split
    · exact GoodR.refl hc
    · split
      · exact goodR_err rfl
      · split
        · split
          · exact GoodR.refl hc
          · split
            · exact habove σ bv ao hc fb
            · exact hbind σ bv _ hc fb trivial
        · split
          · split
            next σ1 fresh hnv =>
            have s1 : StepN σ σ1 := by
              have := stepN_newVars hc as.length; rw [hnv] at this; exact this
            have fb1 : (getVar σ1 bv).bound = none := by
              have := (boundEq_newVars as.length σ).bound bv; rw [hnv] at this; exact this.trans fb
            refine GoodR.trans s1 (goodR_seq (hbind σ1 bv _ s1.ch fb1 trivial) ?_)
            intro σ2 _ s2
            exact hunify _ _ _ _ _ _ s2.ch
          · exact hbind σ bv _ hc fb trivial

theorem unifyList_stepNO {L : Lang} {n : Nat} (hunify : UnifyNO L ord n) (hlist : UnifyListNO L ord n) :
    UnifyListNO L ord (n+1) := by
  intro σ vs xs ys st sb sw hc
  unfold unifyListS
  split
  · exact goodR_err rfl
  · next heq =>
    cases heq
    refine goodR_seq ?_ ?_
    · split
      · exact hunify _ _ _ _ _ _ hc
      · exact hunify _ _ _ _ _ _ hc
    · intro σ1 _ s1
      exact hlist _ _ _ _ _ _ _ s1.ch
  · exact GoodR.refl hc

/-! ## 4. `bind`, `above`, `below` -/

theorem bind_stepNO {L : Lang} {n : Nat} (hunify : UnifyNO L ord n) (hcheck : CheckNO L ord n) : BindNO L ord (n+1) := by
  intro σ v t hc hv ht
  have hns : ¬ ((getVar σ v).bound.isSome = true) := by rw [hv]; simp
  cases t with
  | var tv =>
    rw [bindS_var_eq, if_neg hns]
    split
    · exact goodR_ok.mpr (StepN.of_boundEq hc (boundEq_setVar rfl) rfl)
    · next hne =>
      have hne' : tv ≠ v := by simpa using hne
      have sB : StepN σ (bindVarStore σ v tv) := stepN_bindVarStore hc hv ht hne'
      refine GoodR.trans sB (goodR_seq ?_ ?_)
      · split
        · exact hunify _ _ _ _ _ _ sB.ch
        · exact GoodR.refl sB.ch
      · intro σ1 _ s1
        refine goodR_seq ?_ ?_
        · split
          · exact hunify _ _ _ _ _ _ s1.ch
          · exact GoodR.refl s1.ch
        · intro σ2 _ s2
          exact hcheck σ2 v s2.ch
  | app o args =>
    rw [bindS_app_eq, if_neg hns]
    split
    · split
      · exact goodR_err rfl
      · split
        · exact goodR_err rfl
        · have sB : StepN σ (bindBaseStore σ v (.app o args)) :=
            stepN_bindBaseStore hc hv trivial (fun e => Term.noConfusion e)
          exact GoodR.trans sB (hcheck _ v sB.ch)
    · split
      · exact goodR_err rfl
      · have sB : StepN σ (bindAppStore σ v (.app o args)) := stepN_bindAppStore hc hv
        exact GoodR.trans sB (hcheck _ v sB.ch)

theorem above_stepNO {L : Lang} {n : Nat} (hbind : BindNO L ord n) (hcheck : CheckNO L ord n) : AboveNO L ord (n+1) := by
  intro σ v new hc hv
  unfold aboveS
  split
  · exact hbind σ v _ hc hv trivial
  · simp only []
    split
    · next hb => rw [hv] at hb; cases hb
    · have sa : StepN σ (setVar σ v { (getVar σ v) with wildcard := false }) :=
        StepN.of_boundEq hc (boundEq_setVar rfl) rfl
      have sm : StepN σ (setVar (setVar σ v { (getVar σ v) with wildcard := false }) v
          { bound := (getVar σ v).bound, lower := some new, upper := (getVar σ v).upper, wildcard := false,
            cset := (getVar σ v).cset }) :=
        StepN.of_boundEq hc (boundEq_setVar2 rfl rfl) rfl
      refine goodR_seq (bounds_chain sa (GoodR.trans sm (hcheck _ v sm.ch))) ?_
      intro σr _ sr
      split
      · next hcnd =>
        simp only [Bool.and_eq_true, Option.isNone_iff_eq_none] at hcnd
        split
        · exact hbind σr v _ sr.ch hcnd.1.1 trivial
        · exact GoodR.refl sr.ch
      · exact GoodR.refl sr.ch

theorem below_stepNO {L : Lang} {n : Nat} (hbind : BindNO L ord n) (hcheck : CheckNO L ord n) : BelowNO L ord (n+1) := by
  intro σ v new hc hv
  unfold belowS
  split
  · exact hbind σ v _ hc hv trivial
  · simp only []
    split
    · next hb => rw [hv] at hb; cases hb
    · have sa : StepN σ (setVar σ v { (getVar σ v) with wildcard := false }) :=
        StepN.of_boundEq hc (boundEq_setVar rfl) rfl
      have sm : StepN σ (setVar (setVar σ v { (getVar σ v) with wildcard := false }) v
          { bound := (getVar σ v).bound, lower := (getVar σ v).lower, upper := some new, wildcard := false,
            cset := (getVar σ v).cset }) :=
        StepN.of_boundEq hc (boundEq_setVar2 rfl rfl) rfl
      refine goodR_seq (bounds_chain sa (GoodR.trans sm (hcheck _ v sm.ch))) ?_
      intro σr _ sr
      split
      · next hcnd =>
        simp only [Bool.and_eq_true, Option.isNone_iff_eq_none] at hcnd
        split
        · exact hbind σr v _ sr.ch hcnd.1.1 trivial
        · exact GoodR.refl sr.ch
      · exact GoodR.refl sr.ch

/-! ## 5. `fix`, `fixList` -/

theorem fix_stepNO {L : Lang} {n : Nat} (hbind : BindNO L ord n) (hlist : FixListNO L ord n) : FixNO L ord (n+1) := by
  intro σ t pl hc
  have ft := hc.finalT t
  unfold fixS
  split
  · refine goodRP_seq (hlist σ _ _ pl hc) ?_
    intro σ1 _ s1
    exact goodP_ok.mpr (StepN.refl s1.ch)
  · next v e1 =>
    rw [e1] at ft
    simp only []
    refine goodRP_seq ?_ ?_
    · split
      · split
        · exact hbind σ v _ hc ft trivial
        · exact GoodR.refl hc
      · split
        · split
          · exact hbind σ v _ hc ft trivial
          · exact GoodR.refl hc
        · exact GoodR.refl hc
    · intro σ1 _ s1
      exact goodP_ok.mpr (StepN.refl s1.ch)

theorem fixList_stepNO {L : Lang} {n : Nat} (hfix : FixNO L ord n) (hlist : FixListNO L ord n) : FixListNO L ord (n+1) := by
  intro σ vs ps pl hc
  unfold fixListS
  split
  · exact goodR_err rfl
  · next heq =>
    cases heq
    split
    · next e he => exact goodR_err ((hfix _ _ _ hc).err_of he)
    · next σ1 x he =>
      have s1 := (hfix _ _ _ hc).step he
      exact GoodR.trans s1 (hlist _ _ _ _ s1.ch)
  · exact GoodR.refl hc

/-! ## 6. the constraint machinery -/

theorem check_stepNO {L : Lang} {n : Nat} (hlist : CheckListNO L ord n) : CheckNO L ord (n+1) := by
  intro σ v hc
  unfold checkConstraintsS
  exact hlist σ v _ hc

theorem checkList_stepNO {L : Lang} {n : Nat} (hful : FulfillNO L ord n) (hlist : CheckListNO L ord n) :
    CheckListNO L ord (n+1) := by
  intro σ v cs hc
  cases cs with
  | nil => unfold checkListS; exact GoodR.refl hc
  | cons c cs =>
    unfold checkListS
    split
    · next e he => exact goodR_err ((hful σ c hc).err_of he)
    · next σ1 done he =>
      have s1 := (hful σ c hc).step he
      refine GoodR.trans s1 ?_
      simp only []
      split
      · have s2 : StepN σ1 (setCset σ1 (getVar σ1 v).cset ((getCset σ1 (getVar σ1 v).cset).filter (· != c))) :=
          StepN.of_boundEq s1.ch (boundEq_setCset _ _ _) rfl
        exact GoodR.trans s2 (hlist _ v cs s2.ch)
      · exact hlist σ1 v cs s1.ch

theorem minimize_stepNO {L : Lang} {n : Nat} (hloop : MinLoopNO L ord n) : MinimizeNO L ord (n+1) := by
  intro σ c hc
  unfold minimizeS
  split
  · next ref alts f0 e0 =>
    have hl := hloop σ alts [] hc
    split
    · next e he =>
      rw [he] at hl
      exact ⟨hl, fun σ' h => by cases h⟩
    · next σ1 minimized he =>
      rw [he] at hl
      have s1 : StepN σ σ1 := hl
      have hk : isElim (getConstr σ1 c) = true := by rw [s1.kind c, e0]; rfl
      split
      · next r1 a1 ful e1 =>
        have hc1 : c < σ1.constrs.length := getConstr_inrange_of_elim hk
        have b2 := boundEq_setConstr σ1 c (.elim (followT σ1 ref) (minimized.map (followT σ1)) ful)
        have s2 : StepN σ1 (setConstr σ1 c (.elim (followT σ1 ref) (minimized.map (followT σ1)) ful)) :=
          ⟨b2.chains s1.ch, kindEq_setConstr (by rw [e1]; rfl)⟩
        refine ⟨goodR_ok.mpr (s1.trans s2), ?_⟩
        intro σ' h _
        injection h with h
        subst h
        refine ⟨_, _, _, getConstr_setConstr_eq _ hc1, ?_, ?_⟩
        · exact b2.final (s1.ch.finalT ref)
        · intro t ht
          obtain ⟨x, _, e⟩ := List.mem_map.mp ht
          subst e
          exact b2.final (s1.ch.finalT x)
      · next hne => exact (isElim_cases hk (fun r a f h => hne r a f h)).elim
  · next hne =>
    refine ⟨GoodR.refl hc, fun σ' _ hk => ?_⟩
    exact (isElim_cases hk (fun r a f h => hne r a f h)).elim

theorem minLoop_stepNO {L : Lang} {n : Nat} (hfix : FixNO L ord n) (hloop : MinLoopNO L ord n) : MinLoopNO L ord (n+1) := by
  intro σ alts mins hc
  cases alts with
  | nil => unfold minLoopS; exact goodP_ok.mpr (StepN.refl hc)
  | cons obj rest =>
    unfold minLoopS
    simp only []
    split
    · split
      · next e he => exact goodP_err ((hfix _ _ _ hc).err_of he)
      · next σ1 t he =>
        have s1 := (hfix _ _ _ hc).step he
        exact GoodP.trans s1 (hloop _ _ _ s1.ch)
    · exact hloop _ _ _ hc

theorem fulfill_stepNO {L : Lang} {n : Nat} (hunify : UnifyNO L ord n) (hmin : MinimizeNO L ord n) : FulfillNO L ord (n+1) := by
  intro σ c hc
  unfold fulfillS
  split
  · refine goodRP_seq (hunify σ _ _ true true false hc) ?_
    intro σ1 _ s1
    split
    · split
      · next r t s f e1 =>
        exact goodP_ok.mpr ⟨(boundEq_setConstr _ _ _).chains s1.ch, kindEq_setConstr (by rw [e1]; rfl)⟩
      · exact goodP_ok.mpr (StepN.refl s1.ch)
    · exact goodP_err rfl
    · split
      · exact goodP_ok.mpr (StepN.refl s1.ch)
      · exact goodP_ok.mpr (StepN.refl s1.ch)
  · exact goodP_ok.mpr (StepN.refl hc)
  · next r0 a0 e0 =>
    obtain ⟨gm, pm⟩ := hmin σ c hc
    refine goodRP_seq gm ?_
    intro σ1 he s1
    obtain ⟨ref0, alts0, ful0, e1, fr0, fal0⟩ := pm σ1 he (by rw [e0]; rfl)
    split
    · next ref alts ful e1' =>
      have e2 := e1.symm.trans e1'
      injection e2 with h1 h2 h3
      have fr : Final σ1 ref := h1 ▸ fr0
      have fal : ∀ t, t ∈ alts → Final σ1 t := h2 ▸ fal0
      extract_lets normalized alts' σ2
      split
      · next hpos =>
        exfalso
        have hn : (normB σ1 ref && alts.all (normB σ1)) = true := by
          rw [normB_of_final fr, Bool.true_and, List.all_eq_true]
          intro t ht
          exact normB_of_final (fal t ht)
        have hpos' : (!(normB σ1 ref && alts.all (normB σ1))) = true := hpos
        rw [hn] at hpos'
        cases hpos'
      · have s2 : StepN σ1 σ2 :=
          ⟨(boundEq_setConstr _ _ _).chains s1.ch, kindEq_setConstr (by rw [e1']; rfl)⟩
        have s2' : StepN σ1 (setConstr σ1 c (Constr.elim ref alts' ful)) :=
          ⟨(boundEq_setConstr _ _ _).chains s1.ch, kindEq_setConstr (by rw [e1']; rfl)⟩
        clear_value σ2 alts'
        split
        · exact goodP_err rfl
        · refine GoodP.trans s2 (goodRP_seq (hunify _ _ _ _ _ _ s2.ch) ?_)
          intro σ3 _ s3
          exact goodP_ok.mpr (StepN.refl s3.ch)
        · exact goodP_ok.mpr s2'
    · next hne => exact absurd e1 (hne _ _ _)

/-! ## 7. the induction on the fuel -/

theorem all_noInternalO (L : Lang) (ord : List Nat → List Nat) : ∀ n,
    UnifyNO L ord n ∧ UnifyListNO L ord n ∧ BindNO L ord n ∧ AboveNO L ord n ∧ BelowNO L ord n ∧ FixNO L ord n ∧ FixListNO L ord n ∧
    CheckNO L ord n ∧ CheckListNO L ord n ∧ FulfillNO L ord n ∧ MinimizeNO L ord n ∧ MinLoopNO L ord n
  | 0 => by
    refine ⟨?_, ?_, ?_, ?_, ?_, ?_, ?_, ?_, ?_, ?_, ?_, ?_⟩
    · intro σ a b st sb sw _; unfold unifyS; exact goodR_err rfl
    · intro σ vs xs ys st sb sw _; unfold unifyListS; exact goodR_err rfl
    · intro σ v t _ _ _; unfold bindS; exact goodR_err rfl
    · intro σ v new _ _; unfold aboveS; exact goodR_err rfl
    · intro σ v new _ _; unfold belowS; exact goodR_err rfl
    · intro σ t pl _; unfold fixS; exact goodP_err rfl
    · intro σ vs ps pl _; unfold fixListS; exact goodR_err rfl
    · intro σ v _; unfold checkConstraintsS; exact goodR_err rfl
    · intro σ v cs _; unfold checkListS; exact goodR_err rfl
    · intro σ c _; unfold fulfillS; exact goodP_err rfl
    · intro σ c _; unfold minimizeS; exact ⟨goodR_err rfl, fun σ' h => by cases h⟩
    · intro σ alts mins _; unfold minLoopS; exact goodP_err rfl
  | n+1 => by
    obtain ⟨h1, h2, h3, h4, h5, h6, h7, h8, h9, h10, h11, h12⟩ := all_noInternalO L ord n
    exact ⟨unify_stepNO h1 h2 h3 h4 h5, unifyList_stepNO h1 h2, bind_stepNO h1 h8,
      above_stepNO h3 h8, below_stepNO h3 h8, fix_stepNO h3 h7, fixList_stepNO h6 h7,
      check_stepNO h9, checkList_stepNO h10 h9, fulfill_stepNO h1 h11, minimize_stepNO h12,
      minLoop_stepNO h6 h12⟩

end Tfv.C18S
