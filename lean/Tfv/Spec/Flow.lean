import Tfv.Model.Graph
/-!
# Specification for C08 — the `from` edges of a transformation graph are the data flow of the expression

Everything here is written over the *spine view* of an expression: an expression
`h a₁ … aₙ` is read as its head `h` and the list of its arguments, not as `n` nested
binary applications. `.shared k e` (a workflow resource used by several tools) is opaque:
it is a head without arguments, and an expression that contains it is not first-order.
The specification below never mentions internal nodes.
-/
namespace Tfv

/-- the head of the spine: `h` in `h a₁ … aₙ` -/
def headOf : TExpr → TExpr
  | .app f _ _ => headOf f
  | e => e

/-- the arguments of the spine, left to right: `[a₁, …, aₙ]` in `h a₁ … aₙ` -/
def argsOf : TExpr → List TExpr
  | .app f x _ => argsOf f ++ [x]
  | _ => []

/-- a source or a shared expression object: the leaves that have a graph node of their own, whoever asks -/
def TExpr.isLeafData : TExpr → Bool
  | .src _ _ _ => true
  | .shared _ _ => true
  | _ => false

/-- the expression and the function parts below it: `[h a₁ … aₙ, h a₁ … aₙ₋₁, …, h a₁, h]` -/
def spinePrefixes : TExpr → List TExpr
  | .app f x t => .app f x t :: spinePrefixes f
  | e => [e]

/-- the spine view -/
def spineOf (e : TExpr) : TExpr × List TExpr := (headOf e, argsOf e)

theorem sizeOf_argsOf : ∀ (e a : TExpr), a ∈ argsOf e → sizeOf a < sizeOf e
  | .app f x t, a, h => by
    simp only [argsOf, List.mem_append, List.mem_singleton] at h
    rcases h with h | rfl
    · have := sizeOf_argsOf f a h
      simp only [TExpr.app.sizeOf_spec]; omega
    · simp only [TExpr.app.sizeOf_spec]; omega
  | .src _ _ _, _, h => by simp [argsOf] at h
  | .op _ _, _, h => by simp [argsOf] at h
  | .shared _ _, _, h => by simp [argsOf] at h

/-- An expression whose arguments are all data: it is a source, or a spine whose head is an
operator, none of whose arguments has a function type, and whose arguments are first-order
themselves. (No `.shared` nodes.) -/
inductive FirstOrder : TExpr → Prop
  | src (id : Nat) (l : Option String) (ty : Term) : FirstOrder (.src id l ty)
  | spine (e : TExpr) (name : String) (ty : Term) :
      headOf e = .op name ty →
      (∀ a ∈ argsOf e, a.ty.isFunction = false) →
      (∀ a ∈ argsOf e, FirstOrder a) → FirstOrder e

/-- executable check of `FirstOrder` (see `firstOrder_iff`) -/
def firstOrder : TExpr → Bool
  | .src _ _ _ => true
  | .op _ _ => true
  | .app f x _ => (match headOf f with | .op _ _ => true | _ => false) && firstOrder f &&
      !x.ty.isFunction && firstOrder x
  | .shared _ _ => false

/-- the operator applications of an expression in the spine view: the expression itself unless it
is a source, then those of its arguments, left to right -/
def subSpines (e : TExpr) : List TExpr :=
  match headOf e with
  | .src _ _ _ => []
  | _ => e :: (argsOf e).attach.flatMap (fun a => subSpines a.1)
termination_by sizeOf e
decreasing_by exact sizeOf_argsOf _ _ a.2

/-- the number of spines (operator applications, nullary ones included) of an expression -/
def numSpines (e : TExpr) : Nat := (subSpines e).length

/-- the number of argument positions in all spines of an expression -/
def numArgs (e : TExpr) : Nat := ((subSpines e).map (fun s => (argsOf s).length)).sum

/-- the node for an expression: the one the caller reserved, or the next unused one -/
def allocNode (next : Nat) : Option Nat → Nat × Nat
  | some k => (k, next)
  | none => (next, next + 1)

/-- result of laying out the application tree of an expression -/
structure FlowRes where
  /-- the node of the expression -/
  node : Nat
  /-- the next unused node id -/
  next : Nat
  /-- source id ↦ node -/
  memo : List (Nat × Nat)
  /-- the `from` edges, newest first -/
  edges : List (Nat × Nat)
  /-- the operator applications (spines) of the expression, each with its node -/
  ops : List (Nat × TExpr)
  deriving Repr

/-- what one argument (laid out as `r`) adds to the spine with node `n` laid out so far as `st` -/
def flowArg (n : Nat) (st r : FlowRes) : FlowRes :=
  { node := n, next := r.next, memo := r.memo, edges := (n, r.node) :: r.edges ++ st.edges, ops := st.ops ++ r.ops }

/-- The application tree of a first-order expression, with explicit node ids.
One node per spine (`cur` if the caller reserved one, else the next unused id), one node per
distinct source id (`memo`), and exactly one edge `(spine node, argument node)` per argument.
For every argument an id is reserved before the argument is laid out (a source that already has
a node does not use it). Ids are handed out in this order so that the result can be compared
with the graph literally instead of up to renaming. -/
def flowFO (next : Nat) (memo : List (Nat × Nat)) (e : TExpr) (cur : Option Nat) : FlowRes :=
  match headOf e with
  | .src id _ _ =>
    match memo.find? (fun p => p.1 == id) with
    | some p => { node := p.2, next := next, memo := memo, edges := [], ops := [] }
    | none =>
      let a := allocNode next cur
      { node := a.1, next := a.2, memo := memo ++ [(id, a.1)], edges := [], ops := [] }
  | _ =>
    let a := allocNode next cur
    (argsOf e).attach.foldl (fun st x => flowArg a.1 st (flowFO (st.next + 1) st.memo x.1 (some st.next)))
      { node := a.1, next := a.2, memo := memo, edges := [], ops := [(a.1, e)] }
termination_by sizeOf e
decreasing_by exact sizeOf_argsOf _ _ x.2

/-! ## operations passed as arguments, one level -/

/-- An argument of a one-level higher-order spine: a first-order expression; when it has a function
type (an operator, or an operator partially applied to data, that is passed to the receiving
operator) its head must be an operator, not a source. -/
structure HofArg (a : TExpr) : Prop where
  fo : FirstOrder a
  head_op : a.ty.isFunction = true → ∃ name ty, headOf a = .op name ty

/-- what the receiving step knows of one argument: its node, and the internal node in front of it
when the argument is a passed operation -/
structure ArgInfo where
  node : Nat
  lam : Option Nat
  deriving Repr, DecidableEq

/-- layout of a one-level higher-order spine -/
structure HofRes where
  node : Nat
  next : Nat
  memo : List (Nat × Nat)
  /-- one entry per argument, left to right -/
  args : List ArgInfo
  /-- the edges inside the arguments -/
  inner : List (Nat × Nat)
  deriving Repr, DecidableEq

/-- lay out one more argument: reserve its node, reserve the internal node if the argument has a
function type, then lay out the argument itself as an application tree -/
def hofStep (st : HofRes) (a : TExpr) : HofRes :=
  if a.ty.isFunction then
    let r := flowFO (st.next + 2) st.memo a (some st.next)
    { st with next := r.next, memo := r.memo, args := st.args ++ [{ node := r.node, lam := some (st.next + 1) }],
              inner := r.edges ++ st.inner }
  else
    let r := flowFO (st.next + 1) st.memo a (some st.next)
    { st with next := r.next, memo := r.memo, args := st.args ++ [{ node := r.node, lam := none }],
              inner := r.edges ++ st.inner }

def flowHO1 (next : Nat) (memo : List (Nat × Nat)) (e : TExpr) (cur : Option Nat) : HofRes :=
  (argsOf e).foldl hofStep
    { node := (allocNode next cur).1, next := (allocNode next cur).2, memo := memo, args := [], inner := [] }

/-- The edges at the receiving step `n` of a one-level higher-order spine, as a set:
`n` takes every argument as input; a passed operation takes its internal node as input; the
internal node of a passed operation takes every *other* argument of `n` as input. -/
def hofEdges (n : Nat) (args : List ArgInfo) (p : Nat × Nat) : Prop :=
  (∃ a ∈ args, p = (n, a.node)) ∨
  (∃ a ∈ args, ∃ l, a.lam = some l ∧ p = (a.node, l)) ∨
  (∃ (i j : Nat) (hi : i < args.length) (hj : j < args.length), i ≠ j ∧
    ∃ l, args[i].lam = some l ∧ p = (l, args[j].node))

/-- the `internal` pairs of the receiving step -/
def lamsOf (n : Nat) (args : List ArgInfo) : List (Nat × Nat) :=
  args.filterMap (fun a => a.lam.map (fun l => (n, l)))

/-! ## operations passed as arguments, any depth -/

/-- An expression in which operations may be passed as arguments at any depth: every spine has an
operator at its head, and an argument of function type is not a source. (No `.shared` nodes.) -/
inductive Hof : TExpr → Prop
  | src (id : Nat) (l : Option String) (ty : Term) : Hof (.src id l ty)
  | spine (e : TExpr) (name : String) (ty : Term) :
      headOf e = .op name ty →
      (∀ a ∈ argsOf e, a.ty.isFunction = true → ∃ name' ty', headOf a = .op name' ty') →
      (∀ a ∈ argsOf e, Hof a) → Hof e

/-- executable check of `Hof` (sound: `hof e = true → Hof e`) -/
def hof : TExpr → Bool
  | .src _ _ _ => true
  | .op _ _ => true
  | .app f x _ => (match headOf f with | .op _ _ => true | _ => false) && hof f && hof x &&
      (!x.ty.isFunction || (match headOf x with | .op _ _ => true | _ => false))
  | .shared _ _ => false

/-- layout of an expression with internal nodes; the edges are a set -/
structure HoRes where
  node : Nat
  next : Nat
  memo : List (Nat × Nat)
  /-- the new `internal` pairs (step node, internal node), in the order they are made -/
  ints : List (Nat × Nat)
  /-- the new `from` edges -/
  edges : Nat × Nat → Prop

/-- the arguments of a spine laid out so far: the layout of each, and the internal node in front of it
when it has a function type -/
structure HoArgs where
  next : Nat
  memo : List (Nat × Nat)
  rs : List (HoRes × Option Nat)

def argInfos (rs : List (HoRes × Option Nat)) : List ArgInfo :=
  rs.map (fun q => { node := q.1.node, lam := q.2 })

/-- the internal pairs of a spine with node `n`: per argument, its own internal node (if any), then
the internal pairs made inside the argument -/
def spineInts (n : Nat) (rs : List (HoRes × Option Nat)) : List (Nat × Nat) :=
  rs.flatMap (fun q => (match q.2 with | some l => [(n, l)] | none => []) ++ q.1.ints)

/-- The edges of a spine with node `n`: the edges inside the arguments; the edges at the receiving step
(`hofEdges`: `n` takes every argument, a passed operation takes its internal node, the internal node
takes every other argument); and the nested rule: every internal node `μ` attached to the node of a
passed operation takes the internal node `l` in front of that operation. -/
def spineEdges (n : Nat) (rs : List (HoRes × Option Nat)) (p : Nat × Nat) : Prop :=
  (∃ q ∈ rs, q.1.edges p) ∨ hofEdges n (argInfos rs) p ∨
  (∃ q ∈ rs, ∃ l μ, q.2 = some l ∧ (q.1.node, μ) ∈ q.1.ints ∧ p = (μ, l))

/-- The layout of an expression of the class `Hof` whose node `cur` has been reserved. For each
argument its node is reserved, then (function type) its internal node, then the argument is laid out. -/
def flowHO (next : Nat) (memo : List (Nat × Nat)) (e : TExpr) (cur : Nat) : HoRes :=
  match headOf e with
  | .src id _ _ =>
    match memo.find? (fun p => p.1 == id) with
    | some p => { node := p.2, next := next, memo := memo, ints := [], edges := fun _ => False }
    | none => { node := cur, next := next, memo := memo ++ [(id, cur)], ints := [], edges := fun _ => False }
  | _ =>
    let st := (argsOf e).attach.foldl (fun (st : HoArgs) x =>
      if x.1.ty.isFunction then
        let r := flowHO (st.next + 2) st.memo x.1 st.next
        { next := r.next, memo := r.memo, rs := st.rs ++ [(r, some (st.next + 1))] }
      else
        let r := flowHO (st.next + 1) st.memo x.1 st.next
        { next := r.next, memo := r.memo, rs := st.rs ++ [(r, none)] })
      { next := next, memo := memo, rs := [] }
    { node := cur, next := st.next, memo := st.memo, ints := spineInts cur st.rs, edges := spineEdges cur st.rs }
termination_by sizeOf e
decreasing_by all_goals exact sizeOf_argsOf _ _ x.2

/-- one argument more -/
def hoArgStep (st : HoArgs) (x : TExpr) : HoArgs :=
  if x.ty.isFunction then
    { next := (flowHO (st.next + 2) st.memo x st.next).next, memo := (flowHO (st.next + 2) st.memo x st.next).memo,
      rs := st.rs ++ [(flowHO (st.next + 2) st.memo x st.next, some (st.next + 1))] }
  else
    { next := (flowHO (st.next + 1) st.memo x st.next).next, memo := (flowHO (st.next + 1) st.memo x st.next).memo,
      rs := st.rs ++ [(flowHO (st.next + 1) st.memo x st.next, none)] }

/-- the layout when no node has been reserved: the next unused one is taken -/
def flowHOTop (next : Nat) (memo : List (Nat × Nat)) (e : TExpr) (cur : Option Nat) : HoRes :=
  flowHO (allocNode next cur).2 memo e (allocNode next cur).1

/-! ## consistency of the graph state (hypotheses of the theorems) -/

/-- every concept node mentioned in the state has been handed out by the counter -/
structure GFresh (g : GState) : Prop where
  src_lt : ∀ p ∈ g.srcNodes, p.2 < g.nextB
  int_lt : ∀ p ∈ g.internals, p.1 < g.nextB ∧ p.2 < g.nextB
  frm_lt : ∀ p ∈ g.fd.frm, p.1 < g.nextB ∧ p.2 < g.nextB

/-- the node `m` that the caller reserves for an expression is an unused one: handed out by the
counter, not a source node, without internal nodes and without outgoing `from` edges -/
structure CurFree (g : GState) (m : Nat) : Prop where
  lt : m < g.nextB
  no_src : ∀ p ∈ g.srcNodes, p.2 ≠ m
  no_int : ∀ p ∈ g.internals, p.1 ≠ m ∧ p.2 ≠ m
  no_frm : ∀ p ∈ g.fd.frm, p.1 ≠ m

/-- no internal node is attached to the node of a source (true of the empty state and kept by every
expression whose spines have operators at their heads); needed when a source of function type is
passed as an operation, since internal nodes attached to the argument's node are fed by the new one -/
def SrcNoInt (g : GState) : Prop := ∀ p ∈ g.internals, ∀ s ∈ g.srcNodes, p.1 ≠ s.2

/-! ## operations and sources of function type passed as arguments, any depth -/

/-- An expression in which operations may be passed as arguments at any depth, and in which a passed
operation may also be a *source* of function type: every spine has an operator at its head; an
argument is a source (of any type, function types included, the same source as often and wherever one
likes) or again such a spine. So an argument is a data expression, an operator-headed passed
operation, or a source of function type (`hofS_args`). (No `.shared` nodes, no source at the head of
a spine with arguments.) -/
inductive HofS : TExpr → Prop
  | src (id : Nat) (l : Option String) (ty : Term) : HofS (.src id l ty)
  | spine (e : TExpr) (name : String) (ty : Term) :
      headOf e = .op name ty → (∀ a ∈ argsOf e, HofS a) → HofS e

/-- executable check of `HofS` (`hofS e = true ↔ HofS e`) -/
def hofS : TExpr → Bool
  | .src _ _ _ => true
  | .op _ _ => true
  | .app f x _ => (match headOf f with | .op _ _ => true | _ => false) && hofS f && hofS x
  | .shared _ _ => false

/-- the arguments of the spine `e` as the receiving step sees them in the layout `flowHO next memo e cur`: per
argument, left to right, its node and (function type) the internal node in front of it -/
def spineArgInfos (next : Nat) (memo : List (Nat × Nat)) (e : TExpr) : List ArgInfo :=
  argInfos ((argsOf e).foldl hoArgStep { next := next, memo := memo, rs := [] }).rs

end Tfv
