import Tfv.Proofs.WorkflowSourceTypesWf
import Tfv.Proofs.GraphExpr
/-!
# The graph construction reads the store only through `normalize()` of the node types

`addExpr` / `wfNode` over `{ G with store := σ }` and over `{ G with store := σ' }` give the same result when
the two stores have the same sizes and agree on a closed region that the node types of the expressions are
over.
-/
namespace Tfv.C12P
open Tfv Tfv.C03P Tfv.C16P Tfv.C03C Tfv.C16C

/-! ## everything but `normT G.store` ignores the store of the language -/

theorem typeUri_store (G : GLang) (σ : Store) (t : Term) : typeUri { G with store := σ } t = typeUri G t := rfl

theorem inCanon_store (G : GLang) (σ : Store) (t : Term) : inCanon { G with store := σ } t = inCanon G t := rfl

theorem opUri_store (G : GLang) (σ : Store) (o : Nat) : opUri { G with store := σ } o = opUri G o := rfl

theorem addSupertypesRec_store (G : GLang) (σ : Store) : ∀ (n : Nat) (g : GState) (t : Ty),
    addSupertypesRec { G with store := σ } n g t = addSupertypesRec G n g t
  | 0, g, t => by rw [addSupertypesRec, addSupertypesRec]
  | n+1, g, t => by
    rw [addSupertypesRec, addSupertypesRec]
    simp only [typeUri_store, addSupertypesRec_store G σ n]

theorem addType_store (G : GLang) (σ : Store) (c : GCfg) : ∀ (n : Nat),
    (∀ (g : GState) (t : Term), addType { G with store := σ } c n g t = addType G c n g t) ∧
    (∀ (g : GState) (node : Node) (i : Nat) (ps : List Term),
      addTypeParams { G with store := σ } c n g node i ps = addTypeParams G c n g node i ps)
  | 0 => by
    constructor
    · intro g t; rw [addType, addType]
    · intro g node i ps; rw [addTypeParams, addTypeParams]
  | n+1 => by
    obtain ⟨ih1, ih2⟩ := addType_store G σ c n
    constructor
    · intro g t
      rw [addType, addType]
      simp only [typeUri_store, inCanon_store, opUri_store, addSupertypesRec_store, ih2]
    · intro g node i ps
      cases ps with
      | nil => rw [addTypeParams, addTypeParams]
      | cons p ps =>
        rw [addTypeParams, addTypeParams]
        simp only [ih1, ih2]

theorem annotateType_store (G : GLang) (σ : Store) (c : GCfg) (g : GState) (root : Node) (cur : Nat) (ty : Term)
    (mf : Bool) (co : Option Bool) :
    annotateType { G with store := σ } c g root cur ty mf co = annotateType G c g root cur ty mf co := by
  unfold annotateType
  simp only [(addType_store G σ c _).1, inCanon_store]
  rfl

/-! ## `addExpr` -/

theorem outputType_inR {σ : Store} {S : Nat → Prop} (n : Nat) (t : Term) :
    TermInR σ S t → TermInR σ S (outputType n t) := by
  fun_induction outputType n t with
  | case1 t => exact id
  | case2 n o a r ho ih =>
    intro h
    exact ih (termInR_app.mp h r (List.mem_cons_of_mem _ List.mem_cons_self))
  | case3 n o a r ho => exact id
  | case4 n t _ _ => exact id

theorem srcBody_store (G : GLang) (c : GCfg) (root : Node) (origin : Option Node) {R : Region} {σ σ' : Store}
    (a : AgreeC R σ σ') (g : GState) (cur id : Nat) {ty : Term} (ht : TermInR σ R.S ty) :
    srcBody { G with store := σ' } c root origin g cur id ty = srcBody { G with store := σ } c root origin g cur id ty := by
  unfold srcBody
  simp only [annotateType_store, inCanon_store]
  rw [normT_congr a ht]

theorem opBody_store (G : GLang) (c : GCfg) (root : Node) (origin : Option Node) {R : Region} {σ σ' : Store}
    (a : AgreeC R σ σ') (g : GState) (cur : Nat) (name : String) {ty : Term} (ht : TermInR σ R.S ty) (inter : Bool) :
    opBody { G with store := σ' } c root origin g cur name ty inter =
      opBody { G with store := σ } c root origin g cur name ty inter := by
  unfold opBody
  simp only [annotateType_store, inCanon_store]
  rw [normT_congr a (outputType_inR 1000 ty ht)]

theorem addExpr_store (G : GLang) (c : GCfg) (root : Node) (origin : Option Node) {R : Region} {σ σ' : Store}
    (a : AgreeC R σ σ') : ∀ (e : TExpr), ExprIn σ R.S e → ∀ (g : GState) (cur : Option Nat) (inter : Bool),
    addExpr { G with store := σ' } c root origin g e cur inter = addExpr { G with store := σ } c root origin g e cur inter
  | .src id l ty, he, g, cur, inter => by
    rw [addExpr_src, addExpr_src, srcBody_store G c root origin a _ _ _ he]
  | .op name ty, he, g, cur, inter => by
    rw [addExpr_op, addExpr_op, opBody_store G c root origin a _ _ _ he]
  | .app f x ty, he, g, cur, inter => by
    rw [addExpr_app, addExpr_app, addExpr_store G c root origin a f he.1]
    cases addExpr { G with store := σ } c root origin (curOrFresh g cur).1 f (some (curOrFresh g cur).2) inter with
    | error e => rfl
    | ok p =>
      obtain ⟨g1, fnode⟩ := p
      simp only []
      rw [addExpr_store G c root origin a x he.2.1]
  | .shared k e, he, g, cur, inter => by
    rw [addExpr_shared, addExpr_shared, addExpr_store G c root origin a e he]

/-! ## `wfNode` -/

theorem wfNode_store (G : GLang) (c : GCfg) (w : Wf) (root : Node) {R : Region} {σ σ' : Store} (a : AgreeC R σ σ')
    (exprs : List (Nat × TExpr)) (hin : ∀ p, p ∈ exprs → ExprIn σ R.S p.2) : ∀ (n : Nat) (g : GState) (r : Nat),
    wfNode { G with store := σ' } c w root exprs n g r = wfNode { G with store := σ } c w root exprs n g r
  | 0, g, r => by rw [wfNode, wfNode]
  | n+1, g, r => by
    rw [wfNode, wfNode]
    cases hf : exprs.find? (fun p => p.1 == r) with
    | none => rfl
    | some p =>
      have he : ExprIn σ R.S p.2 := hin p (List.mem_of_find?_eq_some hf)
      simp only [Option.map_some, wfNode_store G c w root a exprs hin n, addExpr_store G c root _ a p.2 he]

end Tfv.C12P
