import Tfv.Model.Basic
/-!
# M6 — type URIs (lang.py: `Language.uri`, `parse_type_uri`, as repaired:
"fix: parse_type_uri takes operator arguments from the end of the work list")

The local name of a canonical type is the prefix listing of its operator
names joined by `-` (`x.text(sep="-", lparen="-", rparen="", prod="")`).
-/
namespace Tfv

mutual
def uriToks (L : Lang) : Ty → List String
  | .app o args => nameOf L o :: uriToksL L args
def uriToksL (L : Lang) : List Ty → List String
  | [] => []
  | t :: ts => uriToks L t ++ uriToksL L ts
end

def uriLocal (L : Lang) (t : Ty) : String := "-".intercalate (uriToks L t)

inductive UErr where
  | keyError | assertion
  deriving Repr, DecidableEq, Inhabited

/-- `for y in builtins: if x == y.name …` else `self.types[x]` -/
def resolveName (L : Lang) (x : String) : Option Nat :=
  match (L.take 5).findIdx? (fun d => d.name == x) with
  | some i => some i
  | none => (L.drop 5).findIdx? (fun d => d.name == x) |>.map (· + 5)

/-- one step of the decoder's `while ops:` loop: the operator takes the last
`arity` entries of the work list, reversed, as its arguments -/
def decodeStep (L : Lang) (types : List Ty) (o : Nat) : Except UErr (List Ty) :=
  let k := arityOf L o
  if types.length < k then .error .assertion
  else
    let n := types.length - k
    .ok (types.take n ++ [Ty.app o (types.drop n).reverse])

def decodeOps (L : Lang) (ops : List Nat) : Except UErr Ty :=
  match ops.reverse.foldlM (decodeStep L) [] with
  | .error e => .error e
  | .ok [t] => .ok t
  | .ok _ => .error .assertion

def decodeToks (L : Lang) (toks : List String) : Except UErr Ty :=
  match toks.mapM (resolveName L) with
  | none => .error .keyError
  | some ops => decodeOps L ops

def decodeUri (L : Lang) (s : String) : Except UErr Ty := decodeToks L (s.splitOn "-")

end Tfv
