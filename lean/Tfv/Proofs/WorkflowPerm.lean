import Tfv.Model.Workflow
import Tfv.Proofs.GraphMemo
/-!
# The listing order of a workflow's tool applications (C12, part 1)

`Wf.app?`, `Wf.target`, `wfExpr`, `wfNode` do not depend on the order in which the applications are
listed; `addWorkflow` depends on it only through `sourceTypes`.
-/
namespace Tfv

/-! ## lists -/

theorem Wfl.nodup_eraseDups : ∀ (n : Nat) (l : List Nat), l.length ≤ n → l.eraseDups.Nodup := by
  intro n
  induction n with
  | zero =>
    intro l hl
    have : l = [] := List.eq_nil_of_length_eq_zero (Nat.le_zero.1 hl)
    subst this; simp
  | succ n ih =>
    intro l hl
    cases l with
    | nil => simp
    | cons a as =>
      rw [List.eraseDups_cons, List.nodup_cons]
      refine ⟨?_, ih _ ?_⟩
      · rw [List.mem_eraseDups, List.mem_filter]
        rintro ⟨_, h⟩
        simp at h
      · have := List.length_filter_le (fun b => !b == a) as
        simp only [List.length_cons] at hl
        omega

theorem Wfl.perm_singleton_match {α : Type} (f : Nat → α) (d : α) : ∀ (l₁ l₂ : List Nat), l₁.Perm l₂ →
    (match l₁ with | [t] => f t | _ => d) = (match l₂ with | [t] => f t | _ => d)
  | [], l₂ => fun h => by rw [List.nil_perm.1 h]
  | [t], l₂ => fun h => by rw [List.singleton_perm.1 h]
  | a :: b :: l, [] => fun h => by cases h.length_eq
  | a :: b :: l, [c] => fun h => by have := h.length_eq; simp at this
  | a :: b :: l, c :: d' :: l' => fun _ => rfl

theorem Wfl.inj_of_nodup_map {α β : Type} (f : α → β) : ∀ (l : List α), (l.map f).Nodup → ∀ a b, a ∈ l → b ∈ l →
    f a = f b → a = b := by
  intro l
  induction l with
  | nil => intro _ a b ha; cases ha
  | cons x l ih =>
    intro hn a b ha hb hab
    rw [List.map_cons, List.nodup_cons] at hn
    rcases List.mem_cons.1 ha with rfl | ha' <;> rcases List.mem_cons.1 hb with rfl | hb'
    · rfl
    · exact absurd (hab ▸ List.mem_map_of_mem hb') hn.1
    · exact absurd (hab ▸ List.mem_map_of_mem ha') hn.1
    · exact ih hn.2 a b ha' hb' hab

/-! ## `Wf.app?` -/

theorem app?_perm (w₁ w₂ : Wf) (hp : w₁.apps.Perm w₂.apps) (hn : (w₁.apps.map (·.out)).Nodup) (r : Nat) :
    w₁.app? r = w₂.app? r := by
  unfold Wf.app?
  cases h1 : w₁.apps.find? (fun a => a.out == r) with
  | none =>
    symm
    rw [List.find?_eq_none] at h1 ⊢
    exact fun x hx => h1 x (hp.mem_iff.2 hx)
  | some a =>
    have ha := List.mem_of_find?_eq_some h1
    have hr := List.find?_some h1
    cases h2 : w₂.apps.find? (fun a => a.out == r) with
    | none =>
      rw [List.find?_eq_none] at h2
      exact absurd hr (h2 a (hp.mem_iff.1 ha))
    | some b =>
      have hb := hp.mem_iff.2 (List.mem_of_find?_eq_some h2)
      have hr2 := List.find?_some h2
      simp only [beq_iff_eq] at hr hr2
      rw [Wfl.inj_of_nodup_map (·.out) _ hn a b ha hb (by rw [hr, hr2])]

/-! ## `Wf.target` -/

theorem target_perm (w₁ w₂ : Wf) (hp : w₁.apps.Perm w₂.apps) : w₁.target = w₂.target := by
  unfold Wf.target
  simp only []
  apply Wfl.perm_singleton_match
  have hc : ∀ o, (w₁.apps.flatMap (·.inputs)).contains o = (w₂.apps.flatMap (·.inputs)).contains o := by
    intro o
    rw [Bool.eq_iff_iff, List.contains_iff_mem, List.contains_iff_mem]
    simp only [List.mem_flatMap, hp.mem_iff]
  have hf : (fun o => !(w₁.apps.flatMap (·.inputs)).contains o) = (fun o => !(w₂.apps.flatMap (·.inputs)).contains o) :=
    funext fun o => by rw [hc]
  rw [hf]
  apply List.Perm.filter
  rw [List.perm_ext_iff_of_nodup (Wfl.nodup_eraseDups _ _ (Nat.le_refl _)) (Wfl.nodup_eraseDups _ _ (Nat.le_refl _))]
  intro a
  rw [List.mem_eraseDups, List.mem_eraseDups]
  exact (hp.map _).mem_iff

/-! ## `wfExpr`, `wfNode`: only `app?`, `sources` and `names` are read -/

theorem wfExpr_congr (P : PLang) (ops : List OperatorDecl) (w₁ w₂ : Wf) (pt : Bool)
    (hs : w₁.sources = w₂.sources) (ha : ∀ r, w₁.app? r = w₂.app? r) :
    ∀ n, wfExpr P ops w₁ pt n = wfExpr P ops w₂ pt n := by
  intro n
  induction n with
  | zero => funext s r; rw [wfExpr, wfExpr]
  | succ n ih =>
    funext s r
    rw [wfExpr, wfExpr, ih, ha, hs]

theorem wfNode_congr (G : GLang) (c : GCfg) (w₁ w₂ : Wf) (root : Node) (exprs : List (Nat × TExpr))
    (hs : w₁.sources = w₂.sources) (hnm : w₁.names = w₂.names) (ha : ∀ r, w₁.app? r = w₂.app? r) :
    ∀ n, wfNode G c w₁ root exprs n = wfNode G c w₂ root exprs n := by
  intro n
  have hres : ∀ r, w₁.resName r = w₂.resName r := fun r => by unfold Wf.resName; rw [hnm]
  induction n with
  | zero => funext g r; rw [wfNode, wfNode]
  | succ n ih =>
    funext g r
    rw [wfNode, wfNode, ih, ha, hs, hres]

/-! ## `addWorkflow` -/

theorem addWorkflow_congr (P : PLang) (G : GLang) (ops : List OperatorDecl) (c : GCfg) (pt : Bool) (w₁ w₂ : Wf)
    (hs : w₁.sources = w₂.sources) (hnm : w₁.names = w₂.names) (ha : ∀ r, w₁.app? r = w₂.app? r)
    (hl : w₁.apps.length = w₂.apps.length) (ht : w₁.target = w₂.target)
    (hst : sourceTypes P ops w₁ {} w₁.apps [] = sourceTypes P ops w₂ {} w₂.apps []) :
    addWorkflow P G ops c pt w₁ = addWorkflow P G ops c pt w₂ := by
  unfold addWorkflow
  rw [hst, hs, ht, hl, wfExpr_congr P ops w₁ w₂ pt hs ha]
  have hN : ∀ (G' : GLang) (exprs : List (Nat × TExpr)) (n : Nat),
      wfNode G' c w₁ (Node.res "workflow") exprs n = wfNode G' c w₂ (Node.res "workflow") exprs n :=
    fun G' exprs n => wfNode_congr G' c w₁ w₂ _ exprs hs hnm ha n
  simp only [hN]

theorem addWorkflow_perm (P : PLang) (G : GLang) (ops : List OperatorDecl) (c : GCfg) (pt : Bool) (w₁ w₂ : Wf)
    (hp : w₁.apps.Perm w₂.apps) (hn : (w₁.apps.map (·.out)).Nodup)
    (hs : w₁.sources = w₂.sources) (hnm : w₁.names = w₂.names)
    (hst : sourceTypes P ops w₁ {} w₁.apps [] = sourceTypes P ops w₂ {} w₂.apps []) :
    addWorkflow P G ops c pt w₁ = addWorkflow P G ops c pt w₂ :=
  addWorkflow_congr P G ops c pt w₁ w₂ hs hnm (app?_perm w₁ w₂ hp hn) hp.length_eq (target_perm w₁ w₂ hp) hst

/-! ## `sourceTypes` sees the listing order -/

/-- `r` is a successful result whose recorded types are exactly `[(k, t)]` -/
def recordedIs (r : Except WErr (XState × List (Nat × Term))) (k : Nat) (t : Term) : Bool :=
  match r with
  | .ok (_, [(k', t')]) => k == k' && Term.beq t' t
  | _ => false

theorem recordedIs_ne {r₁ r₂ : Except WErr (XState × List (Nat × Term))} {k : Nat} {t₁ t₂ : Term}
    (h₁ : recordedIs r₁ k t₁ = true) (h₂ : recordedIs r₂ k t₂ = true) (hne : t₁ ≠ t₂) : r₁ ≠ r₂ := by
  rintro rfl
  unfold recordedIs at h₁ h₂
  split at h₁
  · rename_i xs k' t' 
    simp only [Bool.and_eq_true, beq_iff_eq] at h₁ h₂
    exact hne (((term_beq_iff _ _).1 h₁.2).symm.trans ((term_beq_iff _ _).1 h₂.2))
  · cases h₁

end Tfv
