import Tfv.Proofs.ResolvedConstrInv
/-!
# The attachment invariant under the store updates of `bind`

`bindVarStore` (variable := variable, constraint sets merged), `bindBaseStore` (variable := base type),
`bindAppStore` (variable := compound type, constraint sets of the variables of the type merged).
-/
namespace Tfv.C03R
open Tfv Tfv.C03P Tfv.C03C Tfv.C16P Tfv.C17E

/-! ## 1. sorted sets -/

theorem getCset_setCset' (σ : Store) (k j : Nat) (l : List Nat) :
    getCset (setCset σ k l) j = if k = j ∧ k < σ.csets.length then l else getCset σ j := by
  unfold getCset setCset
  simp only [List.getD_eq_getElem?_getD, List.getElem?_set]
  by_cases h : k = j
  · subst h
    by_cases h2 : k < σ.csets.length
    · simp [h2]
    · simp [h2]
  · simp [h]

theorem insertSorted_mem_self (c : Nat) : ∀ (l : List Nat), c ∈ insertSorted c l
  | [] => by unfold insertSorted; exact List.mem_cons_self
  | x :: xs => by
    unfold insertSorted
    split
    · exact List.mem_cons_self
    · split
      · next h =>
        have : c = x := by simpa using h
        rw [this]; exact List.mem_cons_self
      · exact List.mem_cons_of_mem _ (insertSorted_mem_self c xs)

theorem insertSorted_mem_old {c x : Nat} : ∀ {l : List Nat}, x ∈ l → x ∈ insertSorted c l
  | [], h => nomatch h
  | y :: ys, h => by
    unfold insertSorted
    split
    · exact List.mem_cons_of_mem _ h
    · split
      · exact h
      · rcases List.mem_cons.mp h with e | e
        · rw [e]; exact List.mem_cons_self
        · exact List.mem_cons_of_mem _ (insertSorted_mem_old e)

theorem unionSorted_mem_left {x : Nat} : ∀ (b a : List Nat), x ∈ a → x ∈ unionSorted a b
  | [], a, h => h
  | y :: ys, a, h => by
    unfold unionSorted
    simp only [List.foldl_cons]
    exact unionSorted_mem_left ys (insertSorted y a) (insertSorted_mem_old h)

theorem unionSorted_mem_right {x : Nat} : ∀ (b a : List Nat), x ∈ b → x ∈ unionSorted a b
  | [], a, h => nomatch h
  | y :: ys, a, h => by
    unfold unionSorted
    simp only [List.foldl_cons]
    rcases List.mem_cons.mp h with e | e
    · rw [e]; exact unionSorted_mem_left ys _ (insertSorted_mem_self y a)
    · exact unionSorted_mem_right ys (insertSorted y a) e

/-! ## 2. `bindBaseStore` -/

theorem getVar_bindBaseStore {σ : Store} {v : Nat} (hv : v < σ.vars.length) (t : Term) (w : Nat) :
    getVar (bindBaseStore σ v t) w =
      if w = v then { (clearW σ v) with bound := some t } else getVar σ w := by
  unfold bindBaseStore
  simp only []
  rw [getVar_setVar, getVar_setVar]
  by_cases e : v = w
  · subst e; simp [hv]
  · have e' : ¬ w = v := fun h => e h.symm
    simp [e, e']

theorem cset_bindBaseStore {σ : Store} {v : Nat} (hv : v < σ.vars.length) (t : Term) (w : Nat) :
    (getVar (bindBaseStore σ v t) w).cset = (getVar σ w).cset := by
  rw [getVar_bindBaseStore hv]
  split
  · next e => subst e; rfl
  · rfl

theorem getCset_bindBaseStore (σ : Store) (v : Nat) (t : Term) (k : Nat) :
    getCset (bindBaseStore σ v t) k = getCset σ k := rfl

theorem cs_bindBaseStore {σ : Store} {v : Nat} (hv : v < σ.vars.length) (t : Term) (w : Nat) :
    cs (bindBaseStore σ v t) w = cs σ w := by
  unfold cs
  rw [cset_bindBaseStore hv, getCset_bindBaseStore]

theorem newBind_of_upd {σ σm : Store} {v : Nat} {b : Term} {l u : Option Nat}
    (U : Upd σ σm v (some b) l u) (hv : (getVar σ v).bound = none) (hf : Final σm b) : NewBind σ σm v b :=
  ⟨U.len, fun w hw => (U.ne w hw).1, hv, U.b_eq, hf⟩

/-- a final term other than `.var v` stays final when `v` is bound -/
theorem final_upd {σ σm : Store} {v : Nat} {b : Option Term} {l u : Option Nat} (U : Upd σ σm v b l u) {t : Term}
    (hf : Final σ t) (hne : t ≠ .var v) : Final σm t := by
  cases t with
  | app o args => trivial
  | var w =>
    have : w ≠ v := fun e => hne (by rw [e])
    exact ((U.ne w this).1).trans hf

theorem idx_bindBaseStore {σ : Store} {v : Nat} (hv : v < σ.vars.length) (t : Term) (h : IdxOk σ) :
    IdxOk (bindBaseStore σ v t) := by
  intro w hw
  rw [cset_bindBaseStore hv]
  have hl : (bindBaseStore σ v t).vars.length = σ.vars.length := (upd_bindBaseStore hv t).len
  rw [hl] at hw
  exact h w hw

/-! ## 3. `bindVarStore` -/

theorem cset_bindVarStore {σ : Store} {v tv : Nat} (hv : v < σ.vars.length) (hne : tv ≠ v) (w : Nat) :
    (getVar (bindVarStore σ v tv) w).cset = if w = v then (getVar σ tv).cset else (getVar σ w).cset := by
  unfold bindVarStore clearW
  simp only [getVar_setVar, getVar_setCset, length_setVar, length_setCset]
  have hne' : ¬ v = tv := fun h => hne h.symm
  by_cases e1 : w = v
  · subst e1
    simp [hne, hne', hv]
  · have e1' : ¬ v = w := fun h => e1 h.symm
    by_cases e2 : tv = w
    · subst e2
      simp [e1, e1', hne']
      split <;> rfl
    · simp [e1, e1', e2]

theorem getCset_bindVarStore {σ : Store} {v tv : Nat} (hv : v < σ.vars.length) (hne : tv ≠ v) (k : Nat) :
    getCset (bindVarStore σ v tv) k =
      if (getVar σ tv).cset = k ∧ (getVar σ tv).cset < σ.csets.length then
        unionSorted (getCset σ (getVar σ tv).cset) (getCset σ (getVar σ v).cset)
      else getCset σ k := by
  unfold bindVarStore clearW
  have hne' : ¬ v = tv := fun h => hne h.symm
  simp only [getCset_setVar, getCset_setCset', getVar_setVar, length_setVar, hne', false_and, if_false]
  rfl

theorem idx_bindVarStore {σ : Store} {v tv : Nat} (hv : v < σ.vars.length) (htv : tv < σ.vars.length)
    (hne : tv ≠ v) (h : IdxOk σ) : IdxOk (bindVarStore σ v tv) := by
  intro w hw
  have hl : (bindVarStore σ v tv).vars.length = σ.vars.length := (upd_bindVarStore hv tv).len
  have hcl : (bindVarStore σ v tv).csets.length = σ.csets.length := by
    unfold bindVarStore; simp [setVar, setCset]
  rw [hl] at hw
  rw [hcl, cset_bindVarStore hv hne]
  split
  · exact h tv htv
  · exact h w hw

theorem cs_bindVarStore_v {σ : Store} {v tv : Nat} (hv : v < σ.vars.length) (htv : tv < σ.vars.length)
    (hne : tv ≠ v) (h : IdxOk σ) :
    cs (bindVarStore σ v tv) v = unionSorted (cs σ tv) (cs σ v) := by
  unfold cs
  rw [cset_bindVarStore hv hne, getCset_bindVarStore hv hne]
  simp [h tv htv]

theorem cs_bindVarStore_tv {σ : Store} {v tv : Nat} (hv : v < σ.vars.length) (htv : tv < σ.vars.length)
    (hne : tv ≠ v) (h : IdxOk σ) :
    cs (bindVarStore σ v tv) tv = unionSorted (cs σ tv) (cs σ v) := by
  unfold cs
  rw [cset_bindVarStore hv hne, getCset_bindVarStore hv hne]
  simp [h tv htv, hne]

theorem cs_bindVarStore_grow {σ : Store} {v tv : Nat} (hv : v < σ.vars.length) (htv : tv < σ.vars.length)
    (hne : tv ≠ v) (h : IdxOk σ) (u c : Nat) (hm : c ∈ cs σ u) : c ∈ cs (bindVarStore σ v tv) u := by
  by_cases e : u = v
  · subst e
    rw [cs_bindVarStore_v hv htv hne h]
    exact unionSorted_mem_right _ _ hm
  · unfold cs at hm ⊢
    rw [cset_bindVarStore hv hne, if_neg e, getCset_bindVarStore hv hne]
    split
    · next hk =>
      rw [hk.1]
      exact unionSorted_mem_left _ _ hm
    · exact hm

/-! ## 4. `bindAppStore` -/

theorem foldl_cset_field (k : Nat) : ∀ (vars : List Nat) (σ : Store) (w : Nat),
    (∀ x, x ∈ vars → x < σ.vars.length) →
    (getVar (vars.foldl (fun σ w => setVar σ w { (getVar σ w) with cset := k }) σ) w).cset =
      if w ∈ vars then k else (getVar σ w).cset
  | [], σ, w, _ => by simp
  | x :: xs, σ, w, h => by
    simp only [List.foldl_cons]
    rw [foldl_cset_field k xs _ w (fun y hy => by rw [length_setVar]; exact h y (List.mem_cons_of_mem _ hy))]
    by_cases e : w ∈ xs
    · simp [e]
    · simp only [e, if_false, List.mem_cons, or_false]
      rw [getVar_setVar]
      by_cases e2 : w = x
      · subst e2
        simp [h w List.mem_cons_self]
      · have : ¬ x = w := fun h => e2 h.symm
        simp [e2, this]

theorem merged_mem_init {σ : Store} {x : Nat} : ∀ (vars : List Nat) (init : List Nat), x ∈ init →
    x ∈ vars.foldl (fun acc w => unionSorted acc (getCset σ (getVar σ w).cset)) init
  | [], _, h => h
  | w :: ws, init, h => by
    simp only [List.foldl_cons]
    exact merged_mem_init ws _ (unionSorted_mem_left _ _ h)

theorem merged_mem_var {σ : Store} {x w : Nat} : ∀ (vars : List Nat) (init : List Nat), w ∈ vars →
    x ∈ getCset σ (getVar σ w).cset →
    x ∈ vars.foldl (fun acc w => unionSorted acc (getCset σ (getVar σ w).cset)) init
  | [], _, h, _ => nomatch h
  | y :: ys, init, h, hx => by
    simp only [List.foldl_cons]
    rcases List.mem_cons.mp h with e | e
    · subst e
      exact merged_mem_init ys _ (unionSorted_mem_right _ _ hx)
    · exact merged_mem_var ys _ e hx

/-- the variables `bind` merges the constraint sets of -/
def appVars (σ : Store) (v : Nat) (t : Term) : List Nat :=
  directVars (bindBaseStore σ v t) (termFuel (bindBaseStore σ v t)) t []

/-- the merged set -/
def appMerged (σ : Store) (v : Nat) (t : Term) : List Nat :=
  (appVars σ v t).foldl (fun acc w => unionSorted acc (getCset σ (getVar σ w).cset)) (cs σ v)

theorem bindAppStore_eq {σ : Store} {v : Nat} (hv : v < σ.vars.length) (t : Term) :
    bindAppStore σ v t =
      (appVars σ v t).foldl (fun s w => setVar s w { (getVar s w) with cset := (getVar σ v).cset })
        (setCset (bindBaseStore σ v t) (getVar σ v).cset (appMerged σ v t)) := by
  unfold bindAppStore appMerged appVars cs
  simp only []
  have e1 : (clearW σ v).cset = (getVar σ v).cset := rfl
  rw [e1]
  congr 2
  apply foldl_congr
  intro acc w _
  rw [cset_bindBaseStore hv]
  rfl

theorem cset_bindAppStore {σ : Store} {v : Nat} (hv : v < σ.vars.length) (t : Term)
    (hvars : ∀ x, x ∈ appVars σ v t → x < σ.vars.length) (w : Nat) :
    (getVar (bindAppStore σ v t) w).cset =
      if w ∈ appVars σ v t then (getVar σ v).cset else (getVar σ w).cset := by
  rw [bindAppStore_eq hv, foldl_cset_field]
  · split
    · rfl
    · rw [getVar_setCset, cset_bindBaseStore hv]
  · intro x hx
    rw [length_setCset, (upd_bindBaseStore hv t).len]
    exact hvars x hx

theorem getCset_bindAppStore {σ : Store} {v : Nat} (hv : v < σ.vars.length) (t : Term) (k : Nat) :
    getCset (bindAppStore σ v t) k =
      if (getVar σ v).cset = k ∧ (getVar σ v).cset < σ.csets.length then appMerged σ v t else getCset σ k := by
  rw [bindAppStore_eq hv]
  unfold getCset
  rw [(csets_foldl_cset _ _ _).1]
  exact getCset_setCset' _ _ _ _

theorem cs_bindAppStore_grow {σ : Store} {v : Nat} (hv : v < σ.vars.length) (t : Term)
    (hvars : ∀ x, x ∈ appVars σ v t → x < σ.vars.length) (h : IdxOk σ) (u c : Nat) (hm : c ∈ cs σ u) :
    c ∈ cs (bindAppStore σ v t) u := by
  unfold cs at hm ⊢
  rw [cset_bindAppStore hv t hvars, getCset_bindAppStore hv]
  by_cases e : u ∈ appVars σ v t
  · simp only [e, if_true, h v hv, and_self]
    exact merged_mem_var _ _ e hm
  · simp only [e, if_false]
    split
    · next hk =>
      rw [← hk.1] at hm
      exact merged_mem_init _ _ hm
    · exact hm

theorem cs_bindAppStore_var {σ : Store} {v : Nat} (hv : v < σ.vars.length) (t : Term)
    (hvars : ∀ x, x ∈ appVars σ v t → x < σ.vars.length) (h : IdxOk σ) (u c : Nat)
    (hu : u ∈ appVars σ v t) (hm : c ∈ cs σ v) : c ∈ cs (bindAppStore σ v t) u := by
  unfold cs
  rw [cset_bindAppStore hv t hvars, getCset_bindAppStore hv]
  simp only [hu, if_true, h v hv, and_self]
  exact merged_mem_init _ _ hm

theorem idx_bindAppStore {σ : Store} {v : Nat} (hv : v < σ.vars.length) (t : Term)
    (hvars : ∀ x, x ∈ appVars σ v t → x < σ.vars.length) (h : IdxOk σ) : IdxOk (bindAppStore σ v t) := by
  intro w hw
  have hl : (bindAppStore σ v t).vars.length = σ.vars.length := (upd_bindAppStore hv t).len
  have hcl : (bindAppStore σ v t).csets.length = σ.csets.length := by
    rw [bindAppStore_eq hv, (csets_foldl_cset _ _ _).1]
    simp [setCset, bindBaseStore, setVar]
  rw [hl] at hw
  rw [hcl, cset_bindAppStore hv t hvars]
  split
  · exact h v hv
  · exact h w hw

end Tfv.C03R
