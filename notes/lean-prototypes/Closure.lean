/-! Prototype: incremental transitive closure (repaired add_from). -/
namespace P

abbrev Rel := List (Nat × Nat)

inductive TC (r : Rel) : Nat → Nat → Prop
  | base {a b} : (a, b) ∈ r → TC r a b
  | step {a b c} : (a, b) ∈ r → TC r b c → TC r a c

theorem TC.trans {r a b c} (h1 : TC r a b) (h2 : TC r b c) : TC r a c := by
  induction h1 with
  | base h => exact .step h h2
  | step h _ ih => exact .step h (ih h2)

theorem TC.mono {r r' : Rel} (h : ∀ p, p ∈ r → p ∈ r') {a b} (t : TC r a b) : TC r' a b := by
  induction t with
  | base h1 => exact .base (h _ h1)
  | step h1 _ ih => exact .step (h _ h1) ih

/-- sources: `a` and everything that already depends on `a`; targets: `b` and all it depends on -/
def addDeps (d : Rel) (a b : Nat) : Rel :=
  let srcs := a :: (d.filter (fun p => p.2 == a)).map (·.1)
  let tgts := b :: (d.filter (fun p => p.1 == b)).map (·.2)
  d ++ srcs.flatMap (fun s => tgts.map (fun t => (s, t)))

theorem mem_addDeps {d a b s t} : (s, t) ∈ addDeps d a b ↔
    (s, t) ∈ d ∨ ((s = a ∨ (s, a) ∈ d) ∧ (t = b ∨ (b, t) ∈ d)) := by
  simp only [addDeps, List.mem_append, List.mem_flatMap, List.mem_map, List.mem_cons,
    List.mem_filter, beq_iff_eq, Prod.mk.injEq, Prod.exists]
  constructor
  · rintro (h | ⟨s', hs', t', ht', rfl, rfl⟩)
    · exact .inl h
    · refine .inr ⟨?_, ?_⟩
      · rcases hs' with rfl | ⟨x, y, ⟨hm, rfl⟩, rfl⟩
        · exact .inl rfl
        · exact .inr hm
      · rcases ht' with rfl | ⟨x, y, ⟨hm, rfl⟩, rfl⟩
        · exact .inl rfl
        · exact .inr hm
  · rintro (h | ⟨hs, ht⟩)
    · exact .inl h
    · refine .inr ⟨s, ?_, t, ?_, rfl, rfl⟩
      · rcases hs with rfl | h
        · exact .inl rfl
        · exact .inr ⟨s, a, ⟨h, rfl⟩, rfl⟩
      · rcases ht with rfl | h
        · exact .inl rfl
        · exact .inr ⟨b, t, ⟨h, rfl⟩, rfl⟩

/-- Invariant: `d` is exactly the transitive closure of `f`. -/
def Closed (f d : Rel) : Prop := ∀ s t, (s, t) ∈ d ↔ TC f s t

/-- Every path in `f ∪ {(a,b)}` either avoids the new edge or splits at its first and last use. -/
theorem TC_cons_split {f : Rel} {a b s t} (h : TC ((a, b) :: f) s t) :
    TC f s t ∨ ((s = a ∨ TC f s a) ∧ (t = b ∨ TC f b t)) := by
  induction h with
  | @base x y hm =>
    rcases List.mem_cons.1 hm with he | hm
    · cases he; exact .inr ⟨.inl rfl, .inl rfl⟩
    · exact .inl (.base hm)
  | @step x y z hm0 _ ih =>
    rcases List.mem_cons.1 hm0 with he | hm
    · cases he
      -- first edge is the new one: x = a, y = b
      rcases ih with h | ⟨_, ht⟩
      · exact .inr ⟨.inl rfl, .inr h⟩
      · exact .inr ⟨.inl rfl, ht⟩
    · rcases ih with h | ⟨hs, ht⟩
      · exact .inl (.step hm h)
      · refine .inr ⟨.inr ?_, ht⟩
        rcases hs with rfl | hs
        · exact .base hm
        · exact .step hm hs

theorem addFrom_closed {f d : Rel} (a b : Nat) (h : Closed f d) :
    Closed ((a, b) :: f) (addDeps d a b) := by
  intro s t
  rw [mem_addDeps]
  have up : ∀ {x y}, TC f x y → TC ((a, b) :: f) x y := TC.mono (fun p hp => List.mem_cons_of_mem _ hp)
  have new : TC ((a, b) :: f) a b := .base (List.mem_cons_self ..)
  constructor
  · rintro (hd | ⟨hs, ht⟩)
    · exact up ((h s t).1 hd)
    · have h1 : s = a ∨ TC ((a, b) :: f) s a := hs.imp id (fun x => up ((h _ _).1 x))
      have h2 : t = b ∨ TC ((a, b) :: f) b t := ht.imp id (fun x => up ((h _ _).1 x))
      rcases h1 with rfl | h1 <;> rcases h2 with rfl | h2
      · exact new
      · exact new.trans h2
      · exact h1.trans new
      · exact (h1.trans new).trans h2
  · intro hp
    rcases TC_cons_split hp with h0 | ⟨hs, ht⟩
    · exact .inl ((h s t).2 h0)
    · exact .inr ⟨hs.imp id (fun x => (h _ _).2 x), ht.imp id (fun x => (h _ _).2 x)⟩

#print axioms addFrom_closed
end P
