"""Independent reference for the declared subtype order on concrete types
(used by oracles; deliberately does not call transforge)."""
from langgen import TOP, BOT


def ref_sub(spec, s, t) -> bool:
    so, sa = s
    to, ta = t
    if so == BOT or to == TOP:
        return True
    if not sa and not ta and spec.arity(so) == 0 and spec.arity(to) == 0:
        return so == to or to in spec.ancestors(so)
    if so != to or len(sa) != len(ta):
        return False
    for v, a, b in zip(spec.variance(so), sa, ta):
        if not (ref_sub(spec, a, b) if v else ref_sub(spec, b, a)):
            return False
    return True
